"""mutation survey of the CHECKS (not of the repository's tests): small operator-level changes of the analysed python sources, each
(A) analysed in memory by every check that reads the file, and - when no check reports anything - (B) run against the repository's
test suite in a scratch copy. What survives both ("silent survivors") is printed for triage by hand: each is either an equivalent
mutant, a change no property speaks about, or a hole in the checks.
usage: tools_mutants.py [--only <path substring>] [--max N] [--jobs N] [--no-tests]
Scratch copies live under /tmp/fjverif-mut-* and are removed; /repo is never touched."""
import ast, importlib, json, os, random, shutil, subprocess, sys, tempfile
from concurrent.futures import ProcessPoolExecutor
from pathlib import Path
sys.path.insert(0, '/verif')
from fjverif.pyfacts import Repo
from fjverif.core import Report, AnalysisError, load_known_findings, _match_known

PROPS = [f'C{i:02d}' for i in range(1, 21)]
CMP = {ast.Lt: '<=', ast.LtE: '<', ast.Gt: '>=', ast.GtE: '>', ast.Eq: '!=', ast.NotEq: '=='}
CMP_TXT = {ast.Lt: '<', ast.LtE: '<=', ast.Gt: '>', ast.GtE: '>=', ast.Eq: '==', ast.NotEq: '!='}
BIN = {ast.Add: ('+', '-'), ast.Sub: ('-', '+'), ast.LShift: ('<<', '>>'), ast.RShift: ('>>', '<<'), ast.BitAnd: ('&', '|'), ast.BitOr: ('|', '&'),
       ast.Mult: ('*', '+'), ast.FloorDiv: ('//', '*'), ast.Mod: ('%', '//')}


def files_read(prop):
    class Rec(Repo):
        def src(self, rel):
            seen.add(rel); return super().src(rel)
    seen = set()
    mod = importlib.import_module(f'fjverif.rules.{prop.lower()}')
    try:
        mod.check(Report(prop, 'quick'), Rec())
    except Exception:      # noqa: BLE001
        pass
    return seen


def offsets(text):
    starts = [0]
    for ln in text.split('\n'):
        starts.append(starts[-1] + len(ln.encode()) + 1)
    return starts


def mutants(rel, text):
    """(description, new text)"""
    tree = ast.parse(text)
    data = text.encode()
    st = offsets(text)

    def off(line, col):
        return st[line - 1] + col
    out = []

    def replace_between(a_end, b_start, old, new, desc):
        seg = data[a_end:b_start].decode()
        if seg.count(old) != 1:
            return
        i = seg.index(old)
        nd = data[:a_end] + (seg[:i] + new + seg[i + len(old):]).encode() + data[b_start:]
        try:
            nt = nd.decode()
            compile(nt, rel, 'exec')
            out.append((desc, nt))
        except (SyntaxError, UnicodeDecodeError):
            pass
    fn_of = {}
    for f in ast.walk(tree):
        if isinstance(f, (ast.FunctionDef, ast.AsyncFunctionDef)):
            for x in ast.walk(f):
                fn_of.setdefault(id(x), f.name)
    for n in ast.walk(tree):
        where = f'{fn_of.get(id(n), "<module>")}:{getattr(n, "lineno", 0)}'
        if isinstance(n, ast.Compare) and len(n.ops) == 1 and type(n.ops[0]) in CMP:
            a, b = n.left, n.comparators[0]
            replace_between(off(a.end_lineno, a.end_col_offset), off(b.lineno, b.col_offset), CMP_TXT[type(n.ops[0])], CMP[type(n.ops[0])],
                            f'{where} compare {CMP_TXT[type(n.ops[0])]} -> {CMP[type(n.ops[0])]}: {ast.unparse(n)[:60]}')
        elif isinstance(n, ast.BinOp) and type(n.op) in BIN and not isinstance(n.left, (ast.JoinedStr,)) and not (
                isinstance(n.left, ast.Constant) and isinstance(n.left.value, (str, bytes))):
            old, new = BIN[type(n.op)]
            replace_between(off(n.left.end_lineno, n.left.end_col_offset), off(n.right.lineno, n.right.col_offset), old, new,
                            f'{where} binop {old} -> {new}: {ast.unparse(n)[:60]}')
        elif isinstance(n, ast.BoolOp) and len(n.values) == 2:
            old, new = ('and', 'or') if isinstance(n.op, ast.And) else ('or', 'and')
            a, b = n.values
            replace_between(off(a.end_lineno, a.end_col_offset), off(b.lineno, b.col_offset), old, new, f'{where} boolop {old} -> {new}: {ast.unparse(n)[:60]}')
        elif isinstance(n, ast.UnaryOp) and isinstance(n.op, ast.Not):
            a0, a1 = off(n.lineno, n.col_offset), off(n.operand.lineno, n.operand.col_offset)
            if data[a0:a1].decode().strip() == 'not':
                nd = data[:a0] + data[a1:]
                try:
                    nt = nd.decode(); compile(nt, rel, 'exec'); out.append((f'{where} drop not: {ast.unparse(n)[:60]}', nt))
                except SyntaxError:
                    pass
        elif isinstance(n, ast.Constant) and isinstance(n.value, int) and not isinstance(n.value, bool) and 0 <= n.value <= 64 and n.end_lineno == n.lineno:
            a0, a1 = off(n.lineno, n.col_offset), off(n.end_lineno, n.end_col_offset)
            txt = data[a0:a1].decode()
            if txt.isdigit():
                nd = data[:a0] + str(n.value + 1).encode() + data[a1:]
                try:
                    nt = nd.decode(); compile(nt, rel, 'exec'); out.append((f'{where} const {n.value} -> {n.value + 1}', nt))
                except SyntaxError:
                    pass
    return out


C_CMP = {'<': '<=', '<=': '<', '>': '>=', '>=': '>', '==': '!=', '!=': '=='}
C_BIN = {'+': '-', '-': '+', '<<': '>>', '>>': '<<', '&': '|', '|': '&', '&&': '||', '||': '&&'}


def c_mutants(rel, text):
    from fjverif.cfacts import CUnit, walk
    from fjverif import localnames as ln
    cu = CUnit(Repo())
    text = cu.text
    out = []
    for fname, fn in ln.c_functions(cu.tu).items():
        for n in walk(fn):
            k = n.get('kind')
            if k == 'BinaryOperator' and n.get('opcode') in {**C_CMP, **C_BIN} and len(n.get('inner', [])) == 2:
                a, b = n['inner']
                sa, sb = ln._c_span(a), ln._c_span(b)
                if not (sa and sb):
                    continue
                mid = text[sa[1]:sb[0]]
                op = n['opcode']
                if mid.strip() != op:
                    continue
                new_op = C_CMP.get(op) or C_BIN[op]
                i = sa[1] + mid.index(op)
                new = text[:i] + new_op + text[i + len(op):]
                line = text.count('\n', 0, i) + 1
                out.append((f'{fname}:{line} {op} -> {new_op}: {text[sa[0]:sb[1]][:60]}', new))
            elif k == 'UnaryOperator' and n.get('opcode') == '!' and n.get('inner'):
                sn, sx = ln._c_span(n), ln._c_span(n['inner'][0])
                if sn and sx and text[sn[0]:sx[0]].strip() == '!':
                    line = text.count('\n', 0, sn[0]) + 1
                    out.append((f'{fname}:{line} drop !: {text[sn[0]:sn[1]][:60]}', text[:sn[0]] + text[sx[0]:]))
            elif k == 'IntegerLiteral' and n.get('value', '').isdigit() and 0 <= int(n['value']) <= 64:
                sn = ln._c_span(n)
                if sn and text[sn[0]:sn[1]].isdigit():
                    line = text.count('\n', 0, sn[0]) + 1
                    out.append((f'{fname}:{line} const {n["value"]} -> {int(n["value"]) + 1}', text[:sn[0]] + str(int(n['value']) + 1) + text[sn[1]:]))
    return out


def fj_mutants(rel, text):
    """single-token mutants of the code part (not the comments, not the `def` headers) of a .fj file"""
    import re
    out = []
    lines = text.split('\n')
    pos = 0
    for ln, line in enumerate(lines, 1):
        code = line.split('//', 1)[0]
        if code.strip() and not re.match(r'\s*(def|ns)\b', code) and code.strip() not in ('{', '}'):
            for m in re.finditer(r'\bdw\b|\bdbit\b|(?<![\w.])\d+\b|[-+]|<<|>>|(?<![<>=!])[<>](?![<>=])', code):
                tok = m.group(0)
                if tok == 'dw':
                    new = 'w'
                elif tok == 'dbit':
                    new = 'dw'
                elif tok.isdigit():
                    if int(tok) > 64:
                        continue
                    new = str(int(tok) + 1)
                else:
                    new = {'+': '-', '-': '+', '<<': '>>', '>>': '<<', '<': '>', '>': '<'}[tok]
                a = pos + m.start()
                out.append((f'line {ln} `{tok}` -> `{new}`: {code.strip()[:70]}', text[:a] + new + text[a + len(tok):]))
        pos += len(line) + 1
    return out


def analyse(args):
    rel, desc, new_text, props = args
    known = load_known_findings()
    fired = []
    for p in props:
        mod = importlib.import_module(f'fjverif.rules.{p.lower()}')
        rep = Report(p, 'quick')
        try:
            mod.check(rep, Repo(overlay={rel: new_text}))
            fired += [i.rule for i in rep.instances if not i.ok and _match_known(i, p, known) is None]
        except AnalysisError:
            fired.append(f'EXIT2({p})')
        except Exception as e:      # noqa: BLE001
            fired.append(f'CRASH({p}):{type(e).__name__}')
    return rel, desc, sorted(set(fired))


def run_tests(args):
    k, rel, desc, new_text = args
    td = Path(tempfile.mkdtemp(prefix='fjverif-mut-'))
    try:
        subprocess.run(['rsync', '-a', '--exclude', '.git', '--exclude', 'build', '/repo/', str(td) + '/'], check=True)
        (td / rel).write_text(new_text)
        env = dict(os.environ, PYTHONPATH=str(td), PYTHONDONTWRITEBYTECODE='1')
        if rel.endswith('.c'):
            b = subprocess.run(['/venv/bin/python', 'build_fjcore.py'], cwd=td, env=env, capture_output=True, text=True, timeout=600)
            if b.returncode != 0:
                return rel, desc, 98, 'does not build'
        r = subprocess.run(['/venv/bin/python', '-m', 'pytest', '-x', '-q', '-p', 'no:cacheprovider', '--timeout=300'], cwd=td, env=env,
                           capture_output=True, text=True, timeout=1500)
        tail = (r.stdout.strip().splitlines() or [''])[-1]
        return rel, desc, r.returncode, tail
    except subprocess.TimeoutExpired:
        return rel, desc, 99, 'timeout'
    finally:
        shutil.rmtree(td, ignore_errors=True)


if __name__ == '__main__':
    only = sys.argv[sys.argv.index('--only') + 1] if '--only' in sys.argv else None
    mx = int(sys.argv[sys.argv.index('--max') + 1]) if '--max' in sys.argv else None
    jobs = int(sys.argv[sys.argv.index('--jobs') + 1]) if '--jobs' in sys.argv else 14
    READS = {p: files_read(p) for p in PROPS}
    repo = Repo()
    tasks = []
    for rel in sorted({f for s in READS.values() for f in s}):
        if (only and only not in rel) or not rel.endswith('.c' if '--c' in sys.argv else '.fj' if '--fj' in sys.argv else '.py'):
            continue
        props = [p for p in PROPS if rel in READS[p]]
        for desc, new in (c_mutants(rel, repo.src(rel)) if rel.endswith('.c') else fj_mutants(rel, repo.src(rel)) if rel.endswith('.fj') else mutants(rel, repo.src(rel))):
            tasks.append((rel, desc, new, props))
    if '--phase-b' in sys.argv:
        unc = json.loads(Path('/tmp/mutant_silent_c.json' if '--c' in sys.argv else '/tmp/mutant_silent_fj.json' if '--fj' in sys.argv else '/tmp/mutant_silent.json').read_text())
        survivors = []
        with ProcessPoolExecutor(max_workers=jobs) as ex:
            for rel, desc, rc, tail in ex.map(run_tests, [(k, t[0], t[1], t[2]) for k, t in enumerate(unc)]):
                print('SURVIVOR' if rc == 0 else 'KILLED-BY-TESTS', rel, desc, '' if rc == 0 else tail[:80])
                if rc == 0:
                    survivors.append((rel, desc))
        print(f'phase B: {len(unc) - len(survivors)} of the {len(unc)} silent mutants fail the test suite; {len(survivors)} survive both')
        Path('/tmp/mutant_survivors_c.json' if '--c' in sys.argv else '/tmp/mutant_survivors_fj.json' if '--fj' in sys.argv else '/tmp/mutant_survivors.json').write_text(json.dumps(survivors, indent=1))
        sys.exit(0)
    random.Random(1).shuffle(tasks)
    if mx:
        tasks = tasks[:mx]
    print(f'{len(tasks)} mutants')
    caught, uncaught = 0, []
    with ProcessPoolExecutor(max_workers=jobs) as ex:
        for (rel, desc, fired), t in zip(ex.map(analyse, tasks, chunksize=4), tasks):
            if fired:
                caught += 1
            else:
                uncaught.append(t)
    print(f'phase A: {caught} of {len(tasks)} mutants reported by a check; {len(uncaught)} silent')
    Path('/tmp/mutant_silent_c.json' if '--c' in sys.argv else '/tmp/mutant_silent_fj.json' if '--fj' in sys.argv else '/tmp/mutant_silent.json').write_text(json.dumps([[t[0], t[1], t[2]] for t in uncaught]))
    if '--no-tests' in sys.argv:
        for rel, desc, _, _ in uncaught:
            print('SILENT', rel, desc)
        sys.exit(0)
    survivors = []
    with ProcessPoolExecutor(max_workers=jobs) as ex:
        for rel, desc, rc, tail in ex.map(run_tests, [(k, t[0], t[1], t[2]) for k, t in enumerate(uncaught)]):
            if rc == 0:
                survivors.append((rel, desc))
                print('SURVIVOR', rel, desc)
    print(f'phase B: {len(uncaught) - len(survivors)} of the silent mutants fail the test suite; {len(survivors)} survive both')
    Path('/tmp/mutant_survivors_c.json' if '--c' in sys.argv else '/tmp/mutant_survivors_fj.json' if '--fj' in sys.argv else '/tmp/mutant_survivors.json').write_text(json.dumps(survivors, indent=1))
