"""Confirm a seeded change produced by a sub-agent, run the checks against it, store it under /verif/seeded/.
usage: tools_seed.py /tmp/seed_C06_1 [--skip-tests]"""
import json, os, shutil, subprocess, sys, time
from pathlib import Path
wt = Path(sys.argv[1]); skip_tests = '--skip-tests' in sys.argv
seed = wt / '_seed'
meta = json.loads((seed / 'meta.json').read_text())
name = wt.name.replace('seed_', '')
PY = '/venv/bin/python'
def run(cmd, cwd=None, timeout=1800):
    r = subprocess.run(cmd, shell=True, cwd=cwd, capture_output=True, text=True, timeout=timeout)
    return r.returncode, (r.stdout + r.stderr)
ran = []
patch = (seed / 'patch.diff').read_text()
touches_c = '_fjcore.c' in patch
def rebuild():
    if touches_c:
        rc, out = run(f'{PY} build_fjcore.py', cwd=wt); ran.append(f'rebuild native engine rc={rc}')
rebuild()
rc_demo_with, out = run(f'{PY} _seed/demo.py', cwd=wt); ran.append(f'demo with change: exit {rc_demo_with}: {out.strip().splitlines()[-1][:150] if out.strip() else ""}')
rc_tests = None
if not skip_tests:
    rc_tests, out = run(f'{PY} -m pytest -q -p no:cacheprovider --timeout=900', cwd=wt); ran.append(f'test suite with change: rc={rc_tests}: {out.strip().splitlines()[-1]}')
run('git checkout -- .', cwd=wt); rebuild()
rc_demo_without, out = run(f'{PY} _seed/demo.py', cwd=wt); ran.append(f'demo without change: exit {rc_demo_without}')
# violations already present on the worktree's base commit (it may predate a later fix: commit in /repo): not detections
man0 = json.load(open('/verif/MANIFEST.json'))
base_viol = set()
for c in man0['checks']:
    _rc, _out = run(f'FJVERIF_REPO={wt} FJVERIF_NO_EVIDENCE=1 ' + c['quick_cmd'], cwd='/verif')
    base_viol |= {l.strip().split(' (')[0] for l in _out.splitlines() if l.strip().startswith('violated:')}
run('git apply _seed/patch.diff', cwd=wt); rebuild()
confirmed = rc_demo_with != 0 and rc_demo_without == 0 and (rc_tests in (0, None))
# run the checks against the worktree (= /repo HEAD + the patch); evidence files are not rewritten
rc, out = run(f'git -C /repo apply --check {seed}/patch.diff')
results = {}
if rc != 0:
    ran.append('patch does not apply to /repo HEAD: ' + out[:200])
man = json.load(open('/verif/MANIFEST.json'))
env = f'FJVERIF_REPO={wt} FJVERIF_NO_EVIDENCE=1 '
for c in man['checks']:
    rc2, out2 = run(env + c['quick_cmd'], cwd='/verif')
    viol = [l for l in out2.splitlines() if l.strip().startswith('violated:') and l.strip().split(' (')[0] not in base_viol]
    if rc2 == 1 and not viol:
        continue
    err = [l for l in out2.splitlines() if l.startswith('ANALYSIS-ERROR')]
    if rc2 != 0:
        results[c['property_id']] = dict(exit=rc2, violated=[v.strip()[:300] for v in viol[:6]], analysis_error=err[:2])
dst = Path('/verif/seeded') / name
dst.mkdir(parents=True, exist_ok=True)
old = json.loads((dst / 'meta.json').read_text()) if (dst / 'meta.json').exists() else {}
if skip_tests:
    ran += [l for l in old.get('confirmation_runs', []) if l.startswith('test suite with change')]
    confirmed = confirmed and any(l.startswith('test suite with change: rc=0') for l in ran)
first = old.get('first_run_detected_by', old.get('detected_by'))
shutil.copy(seed / 'patch.diff', dst / 'patch.diff'); shutil.copy(seed / 'demo.py', dst / 'demo.py')
meta.update(dict(confirmed=confirmed, confirmation_runs=ran, checks_fired=results,
                 detected=bool(results.get(meta.get('property'), {}).get('exit') == 1) or any(v.get('exit') == 1 for v in results.values()),
                 detected_by=[k for k, v in results.items() if v.get('exit') == 1]))
meta['first_run_detected_by'] = first if first is not None else meta['detected_by']
(dst / 'meta.json').write_text(json.dumps(meta, indent=1))
print(json.dumps(dict(name=name, confirmed=confirmed, detected_by=meta['detected_by'], errors={k: v for k, v in results.items() if v['exit'] == 2}, ran=ran), indent=1))
for k, v in results.items():
    for l in v['violated'][:3]: print('   ', k, l[:260])
