"""regenerate the generated tables of DESIGN.md section 10 (seeded changes, self-test corpus) in place"""
import importlib, re, subprocess, sys
from pathlib import Path
sys.path.insert(0, '/verif')
p = Path('/verif/DESIGN.md')
s = p.read_text()
seed = subprocess.check_output([sys.executable, '/verif/tools_seed_table.py'], text=True).strip()
rows = []
tot_a = tot_e = 0
for i in range(1, 21):
    m = importlib.import_module(f'fjverif.selftest.m_c{i:02d}')
    a = sum(1 for x in m.MUTANTS if x['expect']); e = sum(1 for x in m.MUTANTS if not x['expect'])
    tot_a += a; tot_e += e
    rows.append(f'C{i:02d} {a}+{e}')
self = (f'{tot_a} arming variants (must fire the named rule) and {tot_e} equivalence variants (must stay silent); per property '
        f'(arming+equivalence): ' + ', '.join(rows) + '.')
def put(tag, text, s):
    b, e = f'<!-- {tag}:BEGIN -->', f'<!-- {tag}:END -->'
    if f'@@{tag}@@' in s:
        return s.replace(f'@@{tag}@@', f'{b}\n{text}\n{e}')
    return re.sub(re.escape(b) + r'.*?' + re.escape(e), lambda _m: f'{b}\n{text}\n{e}', s, flags=re.S)
s = put('SEEDTABLE', seed, s)
s = put('SELFTEST', self, s)
p.write_text(s)
print('ok')
