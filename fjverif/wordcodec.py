"""How a function turns one memory word into bytes (or back), read from its source: either through a struct code chosen per width
from a literal table (`{8: 'B', 16: 'H', ..}[w]`) or through int.from_bytes / int.to_bytes with a byte count derived from the width.
Both spellings are the same codec when they agree on (bytes per word, signedness, byte order) for every supported width; the rules
compare those triples and not the spelling."""
import ast
import struct
from typing import Dict, Iterable, List, Optional, Tuple

from .pyfacts import FuncNode, calls, dotted, eval_int_expr, norm, resolve_names, AnalysisError

Codec = Dict[int, Tuple[int, bool, str]]          # width -> (bytes per word, signed, 'little' / 'big')

WIDTH_NAMES = ('self.memory_width', 'self.word_size', 'memory_width', 'word_size', 'w')


def _table(f: FuncNode) -> Optional[Dict[int, str]]:
    for n in ast.walk(f):
        if isinstance(n, ast.Dict) and n.keys and all(isinstance(k, ast.Constant) and isinstance(k.value, int) for k in n.keys) \
                and all(isinstance(v, ast.Constant) and isinstance(v.value, str) for v in n.values):
            return {k.value: v.value for k, v in zip(n.keys, n.values)}      # type: ignore[union-attr]
    return None


def _nbytes(f: FuncNode, e: ast.expr, widths: Iterable[int]) -> Optional[Dict[int, int]]:
    e = resolve_names(f, e)
    out = {}

    class Tab(ast.NodeTransformer):
        # {8: 1, 16: 2, ..}[width] reads as the entry of the width under evaluation
        def __init__(self, w: int):
            self.w = w

        def visit_Subscript(self, node: ast.Subscript) -> ast.AST:
            self.generic_visit(node)
            if isinstance(node.value, ast.Dict) and norm(node.slice) in WIDTH_NAMES:
                for k, v in zip(node.value.keys, node.value.values):
                    if isinstance(k, ast.Constant) and k.value == self.w and isinstance(v, ast.Constant) and isinstance(v.value, int):
                        return ast.copy_location(ast.Constant(value=v.value), node)
            return node
    import copy
    for w in widths:
        try:
            out[w] = eval_int_expr(Tab(w).visit(copy.deepcopy(e)), {k: w for k in WIDTH_NAMES})
        except (AnalysisError, ZeroDivisionError, TypeError, ValueError):
            return None
    return out


def _struct_codec(tab: Dict[int, str], order: str) -> Codec:
    try:
        return {w: (struct.calcsize('<' + c), not c.isupper(), order) for w, c in tab.items()}
    except struct.error:
        return {w: (-1, False, order) for w in tab}


def word_codecs(f: FuncNode, widths: Iterable[int]) -> List[Tuple[Codec, str]]:
    """every per-word codec f USES (helpers already read in place by the caller): a struct pack / unpack whose format (read through locals)
    selects a code from a per-width table, an int.from_bytes over a slice of width-derived length, an int.to_bytes of width-derived length.
    a table nothing packs with is not a codec."""
    widths = sorted(widths)
    out: List[Tuple[Codec, str]] = []
    for c in calls(f):
        d = dotted(c.func) or ''
        kw = {k.arg: k.value for k in c.keywords}
        last = d.split('.')[-1]
        if last in ('pack', 'unpack', 'unpack_from', 'pack_into', 'iter_unpack', 'Struct') and c.args:
            fmt = resolve_names(f, c.args[0])
            tabs = [n for n in ast.walk(fmt) if isinstance(n, ast.Dict) and n.keys and all(isinstance(k, ast.Constant) and isinstance(k.value, int) for k in n.keys)
                    and all(isinstance(v, ast.Constant) and isinstance(v.value, str) for v in n.values)]
            if not tabs:
                continue
            tab = {k.value: v.value for k, v in zip(tabs[0].keys, tabs[0].values)}      # type: ignore[union-attr]
            txt = norm(fmt)
            order = 'little' if txt.startswith(("'<'", "f'<")) else 'big' if txt.startswith(("'>'", "f'>", "'!'", "f'!")) else 'native'
            out.append((_struct_codec(tab, order), f'struct codes {tab} ({order})'))
            continue
        if d == 'int.from_bytes' and c.args:
            order_e = c.args[1] if len(c.args) > 1 else kw.get('byteorder')
            src = resolve_names(f, c.args[0])
            if not (isinstance(src, ast.Subscript) and isinstance(src.slice, ast.Slice) and src.slice.lower is not None and src.slice.upper is not None):
                continue
            nb = None
            up = src.slice.upper
            if isinstance(up, ast.BinOp) and isinstance(up.op, ast.Add):
                lo = norm(src.slice.lower)
                rest = up.right if norm(up.left) == lo else (up.left if norm(up.right) == lo else None)
                if rest is not None:
                    nb = _nbytes(f, rest, widths)
        elif last == 'to_bytes' and c.args:
            order_e = c.args[1] if len(c.args) > 1 else kw.get('byteorder')
            nb = _nbytes(f, c.args[0], widths)
        else:
            continue
        if nb is None:
            continue
        order = order_e.value if isinstance(order_e, ast.Constant) and isinstance(order_e.value, str) else ('big' if order_e is None else '?')
        sg = kw.get('signed')
        signed = bool(sg.value) if isinstance(sg, ast.Constant) else (sg is not None)
        out.append(({w: (nb[w], signed, order) for w in widths}, f'{norm(c)[:60]} ({order}, {"signed" if signed else "unsigned"})'))
    return out


def word_codec(f: FuncNode, widths: Iterable[int]) -> Optional[Tuple[Codec, str]]:
    """the codec of f: the one every use agrees on; uses that disagree give a codec no width table equals (reported with both texts)"""
    cs = word_codecs(f, widths)
    if not cs:
        # no recognised use: a table with a byte-order prefix somewhere in f (a spelling this reader does not follow) is read as before
        tab = _table(f)
        if tab is None or any((dotted(c.func) or '').split('.')[-1] in ('from_bytes', 'to_bytes') for c in calls(f)):
            return None
        pref = [norm(n) for n in ast.walk(f) if isinstance(n, (ast.BinOp, ast.JoinedStr)) and norm(n).startswith(("'<'", "f'<", "'>'", "f'>"))]
        order = 'little' if pref and all(p.startswith(("'<'", "f'<")) for p in pref) else ('big' if pref else 'native')
        return (_struct_codec(tab, order), f'struct codes {tab} ({order})')
    if all(c[0] == cs[0][0] for c in cs):
        return cs[0]
    return ({w: (-1, False, 'mixed') for w in sorted(widths)}, 'uses disagree: ' + ' / '.join(sorted({c[1] for c in cs})))


def codec_ok(codec: Codec, widths: Iterable[int]) -> bool:
    """one unsigned little-endian encoding of exactly w/8 bytes per supported width, and no other width"""
    widths = set(widths)
    return set(codec) == widths and all(codec[w] == (w // 8, False, 'little') for w in widths)
