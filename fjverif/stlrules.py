"""stlrules: structural rules over the .fj standard library shared by C04 / C05 / C08 / C09.

FJ.CLOSURE   every macro call (name, arity) and every `<` global label reachable from the property's files resolves
FJ.EXTENT    for the frozen (macro, parameter, documented extent) triples, the computed cell footprint of the parameter
             lies in [0, E) and reaches its top cell, for bounded instantiations of the size parameters
These decide necessary conditions visible in the macro text; they never run FlipJump code.
"""
from __future__ import annotations

import itertools
import json
import re
from pathlib import Path
from typing import Any, Dict, List, Optional, Set, Tuple

from .core import AnalysisError, Report
from .fjfront import (Expr, Lin, Macro, NeedConcrete, OpaqueValue, Parser, Stl, base_env, conc, ev, is_const, lex, lin_add)

SPEC_DIR = Path(__file__).parent / 'spec'


def macros_of_files(stl: Stl, files: List[str]) -> List[Macro]:
    fs = set(files)
    return [m for m in stl.macros.values() if m.file in fs]


# ---------------------------------------------------------------- FJ.CLOSURE

def rule_closure(rep: Report, stl: Stl, prop: str, files: List[str], floor_calls: int) -> None:
    rule = f'{prop}.CLOSURE'
    rep.rule(rule, 'link closure of the property\'s library files: every macro call (after namespace resolution, with its arity) has a '
             'definition, transitively; every `<` global label has a `>`-exporting macro or a top-level label; the assembler checks this '
             'only for macros some program expands', floor_calls)
    roots = macros_of_files(stl, files)
    if not roots:
        raise AnalysisError(f'{prop}: no macros found in {files}')
    seen: Set[Tuple[str, int]] = set()
    work = [m.key for m in roots]
    externs: Set[str] = set()
    for m in stl.macros.values():
        for e in m.ext:
            externs.add((m.ns + '.' if m.ns else '') + e)
    top_labels = {op[1] for op in stl.top if op[0] == 'label'}
    n_calls = 0
    while work:
        k = work.pop()
        if k in seen:
            continue
        seen.add(k)
        m = stl.macros[k]
        for op in m.body:
            if op[0] == 'call':
                tgt, line = (op[1], len(op[2])), op[3]
            elif op[0] == 'rep':
                tgt, line = (op[3], len(op[4])), op[5]
            else:
                continue
            n_calls += 1
            ok = tgt in stl.macros
            if ok:
                work.append(tgt)
            if not ok:
                near = sorted(a for (n, a) in stl.macros if n == tgt[0])
                rep.fail(rule, f'{m.name}/{len(m.params)} -> {tgt[0]}/{tgt[1]}',
                         f'calls {tgt[0]} with {tgt[1]} argument(s), but no such macro exists'
                         + (f' (defined arities: {near})' if near else ''), f'{m.file}:{line} {m.name}', expected='a definition with that name and arity')
            elif m.file in files:
                rep.ok(rule, f'{m.name}/{len(m.params)} -> {tgt[0]}/{tgt[1]}', 'resolves', f'{m.file}:{line} {m.name}', nontrivial=True)
        for g in m.glob:
            ok = g in externs or g in top_labels
            if not ok or m.file in files:
                rep.check(ok, rule, f'{m.name}/{len(m.params)} < {g}', 'exported by a macro (>) or a top-level label' if ok else
                          'global label has no definer anywhere in the library', f'{m.file}:{m.line} {m.name}')
    rep.units[f'{prop}_closure'] = dict(root_macros=len(roots), reachable_macros=len(seen), call_sites=n_calls)


# ---------------------------------------------------------------- FJ.EXTENT

class Footprints:
    """bit-offset footprints of macro parameters (interprocedural, bounded instantiation of size parameters)."""

    def __init__(self, stl: Stl, w: int):
        self.stl, self.w = stl, w
        self.base = base_env(w)
        self.memo: Dict[Any, Dict[str, Set[int]]] = {}

    def footprint(self, key: Tuple[str, int], sizes: Tuple[Tuple[str, int], ...], depth: int = 0) -> Dict[str, Set[int]]:
        mk = (key, sizes)
        if mk in self.memo:
            return self.memo[mk]
        if depth > 80:
            raise AnalysisError(f'footprint recursion too deep at {key}')
        m = self.stl.macros[key]
        env: Dict[str, Any] = dict(self.base)
        for p in m.params:
            env[p] = {p: 1}
        for p, v in sizes:
            env[p] = v
        fp: Dict[str, Set[int]] = {p: set() for p in m.params}
        self._touches(m.body, env, fp, set(m.params), depth)
        self.memo[mk] = fp
        return fp

    def _touches(self, ops: List[Tuple[Any, ...]], env: Dict[str, Any], fp: Dict[str, Set[int]], must_concrete: Set[str],
                 depth: int = 0) -> None:
        """add to fp[sym] every bit offset (relative to sym) that the ops touch; sym ranges over the keys of fp."""

        def touch(lf: Dict[str, int], extra: int = 0) -> None:
            syms = [k for k in lf if k != '']
            if len(syms) == 1 and lf[syms[0]] == 1 and syms[0] in fp:
                fp[syms[0]].add(lf.get('', 0) + extra)

        def do_call(name: str, args: List[Expr], env2: Dict[str, Any]) -> None:
            ck = (name, len(args))
            if ck not in self.stl.macros:
                return
            cal = self.stl.macros[ck]
            vals = []
            for a in args:
                try:
                    vals.append(ev(a, env2))
                except OpaqueValue:
                    vals.append({'<opaque-value>': 1})
                except NeedConcrete as nc:
                    if nc.name in must_concrete:
                        raise           # a parameter of this macro must be concrete (size parameter)
                    vals.append({'<opaque-value>': 1})      # label arithmetic (a value, not an address that is touched)
            csz: Dict[str, int] = {}
            while True:
                try:
                    sub = self.footprint(ck, tuple(sorted(csz.items())), depth + 1)
                    break
                except NeedConcrete as nc:
                    if nc.name not in cal.params or nc.name in csz:
                        raise
                    csz[nc.name] = conc(vals[cal.params.index(nc.name)])
            for q, offs in sub.items():
                if q in csz:
                    continue
                lf = vals[cal.params.index(q)]
                for o in offs:
                    touch(lf, o)

        def addr(e: Expr) -> None:
            try:
                touch(ev(e, env))
            except OpaqueValue:
                pass
            except NeedConcrete as nc:
                if nc.name in must_concrete:
                    raise

        for op in ops:
            t = op[0]
            if t == 'fj':
                if op[1] is not None and op[1] != 0:
                    addr(op[1])
                if op[2] is not None:
                    addr(op[2])
            elif t == 'wflip':
                a = op[1]
                addr(a[0])
                if len(a) > 2:
                    addr(a[2])
            elif t == 'call':
                do_call(op[1], op[2], env)
            elif t == 'rep':
                try:
                    n = conc(ev(op[1], env))
                except OpaqueValue as ov:
                    raise NeedConcrete(ov.name)
                for i in range(max(n, 0)):
                    e2 = dict(env)
                    e2[op[2]] = i
                    do_call(op[3], op[4], e2)

    def stmt_touches(self, key: Tuple[str, int], sizes: Tuple[Tuple[str, int], ...], track: Set[str]) -> List[Dict[str, Set[int]]]:
        """per body statement: bit offsets touched relative to each tracked local label."""
        m = self.stl.macros[key]
        env: Dict[str, Any] = dict(self.base)
        for p in m.params:
            env[p] = {p: 1}
        for p, v in sizes:
            env[p] = v
        out = []
        for op in m.body:
            fp: Dict[str, Set[int]] = {t: set() for t in track}
            if op[0] != 'label':
                self._touches([op], env, fp, set(m.params))
            out.append(fp)
        return out


def doc_extents(m: Macro) -> Dict[str, Set[str]]:
    """documented extents per parameter. grammar: formula lines (indented >= 3 spaces, no is/are) give name[:E] for
    parameter names; type lines `X, Y is/are [a] bit|hex[.vec][:E]` give E to the subjects."""
    res: Dict[str, Set[str]] = {}
    for line in m.doc:
        body = line[2:]
        tm = re.match(r'\s*([\w, /]+?)\s+(?:is|are)\s+(?:an?\s+|both\s+)?(?:signed\s+)?(?:bit|hex)(?:\.vec)?\[:([^\]]+)\]', body)
        if tm:
            for nm in re.split(r'[,/ ]+', tm.group(1)):
                if nm in m.params:
                    res.setdefault(nm, set()).add(tm.group(2).strip())
            continue
        if not body.startswith('   '):
            continue
        if re.search(r'\b(is|are)\b', body):
            continue
        for nm, E in re.findall(r'(?<![\w.*])([A-Za-z_]\w*)\[:([^\]]+)\]', body):
            if nm in m.params:
                res.setdefault(nm, set()).add(E.strip())
    return res


_EFFECT = re.compile(r'^(?P<lhs>[^=!<>]*?[\w\]\}])\s*(?P<op>:=|\+\+|--|(?:<<|>>|[-+*/%^|&])?=(?!=))\s*(?P<rhs>.*)$')


def doc_effects(m: Macro) -> Dict[str, str]:
    """documented effect of a macro on each parameter, from the formula lines of its doc block (the contract):
    'assign'  the first formula line naming p has p on the left of `=` / `:=` and not on the right (full overwrite),
    'update'  p is on the left of an in-place operator (`+=`, `^=`, `++`, ..) or on both sides,
    'read'    p is named only on right-hand sides of formula lines.
    parameters the formulas never name are absent (prose-only contracts and conditions are not classified)."""
    res: Dict[str, str] = {}
    block_indent: Optional[int] = None
    for li, line in enumerate(m.doc):
        body = line[2:]
        # a formula line is indented by >= 3 spaces, or stands alone between two empty comment lines (stl/casting.fj style)
        alone = (0 < li < len(m.doc) - 1 and m.doc[li - 1].strip() == '//' and m.doc[li + 1].strip() == '//'
                 and not re.search(r'\b(is|are|the|and)\b', body))
        if not (body.startswith('   ') or alone) or body.lstrip().startswith('@'):
            block_indent = None
            continue
        ind = len(body) - len(body.lstrip())
        text = body.strip()
        if block_indent is not None and ind > block_indent:
            pass_block = True           # case lines under `jump to:` - conditions, not assignments
        else:
            pass_block, block_indent = False, None
        if text.endswith(':'):
            block_indent = ind
        text = re.sub(r'^like:\s*', '', text)
        text = re.sub(r'//.*$', '', text).strip().rstrip(';')
        ids = lambda t: set(re.findall(r'(?<![\w.])([A-Za-z_]\w*)', t))
        em = None if pass_block or re.match(r'(if|while|for|else)\b', text) else _EFFECT.match(text)
        if em:
            lhs, rhs = ids(em.group('lhs')) & set(m.params), ids(em.group('rhs')) & set(m.params)
            # names inside an extent `[:n]` on the left are read, not written
            lhs_sizes = set()
            for ext in re.findall(r'\[[^\]]*\]', em.group('lhs')):
                lhs_sizes |= ids(ext)
            # `*ptr = x` writes the pointed cell, not ptr
            deref = set(re.findall(r'\*\s*([A-Za-z_]\w*)', em.group('lhs')))
            written = lhs - lhs_sizes - deref
            lhs_sizes |= deref & lhs
            for q in written:
                if q not in res:
                    res[q] = 'assign' if em.group('op') == ':=' or (em.group('op') == '=' and q not in rhs) else 'update'
                elif res[q] == 'read':
                    res[q] = 'update'
            for q in (rhs | (lhs & lhs_sizes)) - written:
                res.setdefault(q, 'read')
    return res


def parse_extent(E: str) -> Expr:
    E2 = re.sub(r'(\d)\s*([A-Za-z_])', r'\1*\2', E)
    toks, _ = lex(E2, 'doc')
    p = Parser(toks, {}, 'doc')
    e = p.expr()
    return e


SIZES = (4, 5, 8)

# documented preconditions on size parameters (from the macro doc blocks); instantiations violating them are skipped
PRECONDITIONS = {
    ('bit.shl', 3): lambda z: z['times'] <= z['n'],
    ('bit.shr', 3): lambda z: z['times'] <= z['n'],
    ('bit.shra', 3): lambda z: z['times'] <= z['n'],
    ('hex.shl_hex', 3): lambda z: z['times'] <= z['n'],
    ('hex.shr_hex', 3): lambda z: z['times'] <= z['n'],
    ('hex.add_shifted', 5): lambda z: z['src_n'] + z['hex_shift'] <= z['dst_n'],
    ('hex.sub_shifted', 5): lambda z: z['src_n'] + z['hex_shift'] <= z['dst_n'],
}
EXTRA_SIZES = {'dst_n': (4, 5, 8, 12, 16), 'hex_shift': (0, 1, 4), 'x_prefix': (0, 1), 'times': (1, 4, 5),
               # constants with trailing zero hexes (the constant macros shift those out first) - all below 16^4, the smallest destination
               'const': (1, 5, 0x10, 0x100, 0xf000)}


def size_params(fpx: Footprints, key: Tuple[str, int]) -> Optional[List[str]]:
    """parameters that must be concrete to compute the footprint (vector lengths, shift counts)."""
    sizes: Dict[str, int] = {}
    m = fpx.stl.macros[key]
    for _ in range(10):
        try:
            fpx.footprint(key, tuple(sorted(sizes.items())))
            return sorted(sizes)
        except NeedConcrete as nc:
            if nc.name in m.params and nc.name not in sizes:
                sizes[nc.name] = 4
            else:
                return None
        except AnalysisError:
            return None
    return None


def evaluate_triple(fpx: Footprints, key: Tuple[str, int], param: str, E: str, names: List[str]) -> Tuple[int, int, List[str]]:
    """-> (agreeing instantiations, evaluated instantiations, disagreements)"""
    okc, n, bad = 0, 0, []
    m = fpx.stl.macros[key]
    pre = PRECONDITIONS.get(key)
    for combo in itertools.product(*[EXTRA_SIZES.get(nm, SIZES) for nm in names]):
        sz = tuple(zip(names, combo))
        if pre is not None and not pre(dict(sz)):
            continue
        env: Dict[str, Any] = dict(fpx.base)
        env.update(dict(sz))
        try:
            want = conc(ev(parse_extent(E), env))
            fpn = fpx.footprint(key, sz)
        except (NeedConcrete, AnalysisError, ZeroDivisionError):
            continue
        if want <= 0:
            continue
        cells = {o // (2 * fpx.w) for o in fpn.get(param, set())}
        if not cells:
            continue
        n += 1
        if min(cells) >= 0 and max(cells) + 1 == want:
            okc += 1
        else:
            bad.append(f'{dict(sz)}: cells [{min(cells)}, {max(cells) + 1}) vs documented [0, {want})')
    return okc, n, bad


def discover_triples(stl: Stl, w: int = 64) -> List[Dict[str, Any]]:
    """used once to build spec/stl_extents.json: every (macro, parameter, extent) that agrees on the current tree."""
    fpx = Footprints(stl, w)
    out = []
    for key, m in sorted(stl.macros.items()):
        de = doc_extents(m)
        if not de:
            continue
        names = size_params(fpx, key)
        if names is None:
            continue
        for p, Es in sorted(de.items()):
            if p in names:
                continue
            for E in sorted(Es):
                okc, n, bad = evaluate_triple(fpx, key, p, E, names)
                out.append(dict(macro=key[0], arity=key[1], param=p, extent=E, file=m.file, sizes=names, evaluated=n, agreeing=okc,
                                status='armed' if n and okc == n else 'excluded', note='' if n and okc == n else (bad[0] if bad else 'no evaluable instantiation')))
    return out


def rule_extent(rep: Report, stl: Stl, prop: str, files: List[str], floor: int, widths: Tuple[int, ...] = (64,)) -> None:
    rule = f'{prop}.EXTENT'
    rep.rule(rule, 'for every frozen (macro, parameter, documented extent) triple the computed cell footprint of the parameter - bit '
             'offsets touched by direct ops, wflips and (transitively) callees, for size parameters in {4,5,8} - lies in [0, E) and reaches '
             'cell E-1: the doc block is the specification', floor)
    spec = json.loads((SPEC_DIR / 'stl_extents.json').read_text())
    armed = [t for t in spec['triples'] if t['status'] == 'armed' and t['file'] in files]
    known = {(t['macro'], t['arity'], t['param'], t['extent']) for t in spec['triples']}
    for w in widths:
        fpx = Footprints(stl, w)
        for t in armed:
            key = (t['macro'], t['arity'])
            construct = f'{t["macro"]}/{t["arity"]}:{t["param"]}[:{t["extent"]}]' + (f'@w={w}' if len(widths) > 1 else '')
            if key not in stl.macros:
                raise AnalysisError(f'{rule}: frozen macro {key} no longer exists (update spec/stl_extents.json after review)')
            m = stl.macros[key]
            de = doc_extents(m)
            if t['extent'] not in de.get(t['param'], set()):
                raise AnalysisError(f'{rule}: the documentation of {key} no longer gives {t["param"]}[:{t["extent"]}]')
            names = size_params(fpx, key)
            if names is None:
                if any(not i.ok for i in rep.instances):
                    rep.notes.append(f'{construct}: footprint not computable on this tree (a closure violation was already reported)')
                    continue
                raise AnalysisError(f'{rule}: footprint of {key} cannot be computed any more')
            okc, n, bad = evaluate_triple(fpx, key, t['param'], t['extent'], names)
            if n == 0:
                if any(not i.ok for i in rep.instances):
                    rep.notes.append(f'{construct}: not evaluable on this tree (a closure violation was already reported)')
                    continue
                raise AnalysisError(f'{rule}: no evaluable instantiation left for {construct}')
            rep.check(okc == n, rule, construct, f'{okc}/{n} instantiations agree' + (f'; e.g. {bad[0]}' if bad else ''),
                      f'{m.file}:{m.line} {m.name}', expected=f'cells of {t["param"]} = [0, {t["extent"]})')
    # new documented macros are reported as uncovered, not judged
    for key, m in stl.macros.items():
        if m.file not in files:
            continue
        for p, Es in doc_extents(m).items():
            for E in Es:
                if (key[0], key[1], p, E) not in known:
                    rep.uncovered.append(f'{key[0]}/{key[1]}:{p}[:{E}] (documented extent not in the frozen list)')


# ---------------------------------------------------------------- FJ.SCRATCH (re-entrancy of macro-local scratch cells)

# declarations of a data cell WITHOUT an explicit initial value: (macro, arity) -> index of the size argument (None: one cell)
SCRATCH_DECLS: Dict[Tuple[str, int], Optional[int]] = {('bit.bit', 0): None, ('bit.vec', 1): 0, ('hex.hex', 0): None, ('hex.vec', 1): 0,
                                                        # declared WITH a load-time value: a constant when nobody writes it; when the macro writes it,
                                                        # the next execution starts from what the last one left (the fresh-read clause)
                                                        ('bit.bit', 1): None, ('bit.vec', 2): 0, ('hex.hex', 1): None, ('hex.vec', 2): 0}


def scratch_cells(m: Macro) -> Dict[str, int]:
    """local label -> index of its declaration statement, for labels declared as value-less data cells."""
    out: Dict[str, int] = {}
    for i, st in enumerate(m.body[:-1]):
        nxt = m.body[i + 1]
        if st[0] == 'label' and nxt[0] == 'call' and (nxt[1], len(nxt[2])) in SCRATCH_DECLS:
            short = st[1].split('.')[-1]
            if short in m.local:
                out[short] = i + 1
    return out


# confirmed by reading: cells that are updated in place without a covering assignment, and why that is sound
SCRATCH_EXCEPTIONS: Dict[Tuple[str, int, str, str], str] = {
    ('hex.div', 7, 'q', 'init-first'): 'the quotient is documented `q = a/b` but built by shifting: `shl_hex n, q` runs in each of the n loop '
                                       'iterations, so every hex of the caller\'s value is shifted out before the macro is left',
    # '#0': the first declared scratch cell of the macro (`_b` today) - a local label is keyed by its declaration index
    ('hex.div', 7, '#0', 'covered'): 'the top hex of _b is zero at load, `shl_hex nb+1, _b` shifts into it and the four `shr_bit nb+1, _b` of '
                                     'the same iteration shift it out again: it is zero again whenever the macro is left',
}


def scratch_blocks(m: Macro, env: Dict[str, Any]) -> Dict[str, Tuple[int, int, int]]:
    """label -> (block id, first cell of the label in block coordinates, declared cells). consecutive (label, value-less
    declaration) pairs are laid out back to back, so `{_r:_a}` style spill-over into the next label is modelled."""
    cells = scratch_cells(m)
    out: Dict[str, Tuple[int, int, int]] = {}
    block, base, prev_end = -1, 0, -10
    for L, decl in sorted(cells.items(), key=lambda t: t[1]):
        op = m.body[decl]
        si = SCRATCH_DECLS[(op[1], len(op[2]))]
        size = 1 if si is None else conc(ev(op[2][si], env))
        if decl - 1 != prev_end + 1:          # the label statement must directly follow the previous declaration
            block, base = block + 1, 0
        out[L] = (block, base, size)
        base += size
        prev_end = decl
    return out


def macro_cfg(m: Macro, skip: Optional[Set[int]] = None) -> Tuple[Optional[int], Dict[int, List[int]]]:
    """(entry, successors) over the statement indices of a macro body - its own control flow as far as the text shows it:
    fall-through; the jump part of a raw op / a three-operand wflip when it names a local label (an offset `label+k*dw` goes to the
    label); a local code label handed to a macro call or rep is a possible branch target (the call may also fall through).
    -1 is the end of the macro; jumps to parameters / global labels leave the macro (no edge). `skip`: statement indices that are
    not executed (data declarations) and are passed through."""
    body = m.body
    skip = skip or set()
    stmt_idx = [i for i, op in enumerate(body) if op[0] != 'label' and i not in skip]
    END = -1

    def nxt_of(i: int) -> int:
        later = [j for j in stmt_idx if j > i]
        return later[0] if later else END
    label_at: Dict[str, int] = {}
    for i, op in enumerate(body):
        if op[0] == 'label':
            short = op[1].split('.')[-1]
            # a label followed by a data declaration is a data cell, not a branch target
            if i + 1 < len(body) and (i + 1) in skip:
                continue
            label_at[short] = nxt_of(i)
    params = set(m.params)
    # a label whose code returns through a register (`stl.fret`) is a local subroutine: a callee that is handed the label calls
    # it when and as often as it likes, so it is not a branch target of this macro's own flow (its body is not on any path here)
    subroutine: Set[str] = set()
    for L, at in label_at.items():
        j = at
        for _ in range(12):
            if j == END or j not in stmt_idx:
                break
            opj = body[j]
            if opj[0] == 'call' and opj[1] == 'stl.fret':
                subroutine.add(L)
                break
            if opj[0] == 'fj' and opj[2] is not None:
                break
            j = nxt_of(j)

    def target(e: Any, as_argument: bool = False) -> List[int]:
        ids = _expr_ids(e, set()) - {'w', 'dw', 'dbit'}
        lab = [x.split('.')[-1] for x in ids if x.split('.')[-1] in label_at and x.split('.')[-1] not in params]
        if as_argument and lab and lab[0] in subroutine:
            return []
        return [label_at[lab[0]]] if len(lab) == 1 and len(ids) == 1 else []
    succ: Dict[int, List[int]] = {}
    for i in stmt_idx:
        op = body[i]
        out: List[int] = []
        if op[0] == 'fj':
            if op[2] is None:
                out = [nxt_of(i)]
            else:
                out = target(op[2])          # a jump elsewhere leaves the macro
        elif op[0] == 'wflip':
            out = target(op[1][2]) if len(op[1]) > 2 else [nxt_of(i)]
        elif op[0] in ('call', 'rep'):
            args = op[2] if op[0] == 'call' else op[4]
            out = [nxt_of(i)]
            for a in args:
                out += [t for t in target(a, True) if t not in out]
        else:
            out = [nxt_of(i)]
        succ[i] = out
    return (stmt_idx[0] if stmt_idx else None), succ


def rule_scratch(rep: Report, stl: Stl, prop: str, files: List[str], floor: int, w: int = 64) -> None:
    rule = f'{prop}.SCRATCH'
    rep.rule(rule, 'macro code is re-executed (loops, functions), so a macro-local scratch cell keeps its last value: for every local '
             'label declared as a value-less data cell, (init-first) the first statement of the macro body that touches it must not be '
             'documented as an in-place update of it, and - when that first statement is a documented plain assignment - (covered) every '
             'later statement that may write it (documented update, or no formula for that parameter) touches only cells that an '
             'earlier plain assignment covers; cells are computed footprints for size parameters in {4,5,8}, adjacent declarations are '
             'laid out back to back, effects come from the callee doc formulas (the contract); exceptions are listed by name', floor)
    fpx = Footprints(stl, w)
    dw = 2 * w
    used_exceptions: Set[Tuple[str, int, str, str]] = set()
    for key, m in sorted(stl.macros.items()):
        if m.file not in files:
            continue
        cells = scratch_cells(m)
        names = size_params(fpx, key)
        # parameters the macro's own doc formula plainly assigns (`p[:E] = ...`) are judged like scratch cells: whatever the
        # caller left in them must not survive
        out_params = sorted(q for q, c in doc_effects(m).items() if c == 'assign' and q not in (names or []))
        if not cells and not out_params:
            continue
        if names is None:
            rep.uncovered.append(f'{key[0]}/{key[1]}: scratch cells {sorted(cells)} (footprint not computable)')
            continue
        tracked = set(cells) | set(out_params)
        verdict: Dict[Tuple[str, str], List[str]] = {}
        evaluated = 0
        for combo in itertools.product(*[EXTRA_SIZES.get(nm, SIZES) for nm in names]):
            sz = tuple(zip(names, combo))
            pre = PRECONDITIONS.get(key)
            if pre is not None and not pre(dict(sz)):
                continue
            env: Dict[str, Any] = dict(fpx.base)
            for q in m.params:
                env[q] = {q: 1}
            env.update(dict(sz))
            try:
                touches = fpx.stmt_touches(key, sz, tracked)
                layout = scratch_blocks(m, env)
                for bi, q in enumerate(out_params):
                    layout[q] = (1000 + bi, 0, 1 << 30)
            except (NeedConcrete, OpaqueValue, AnalysisError, ZeroDivisionError):
                continue
            evaluated += 1
            class _Owner:
                def get(self, g: Tuple[int, int]) -> Optional[str]:
                    for L, (b, base, size) in layout.items():
                        if b == g[0] and base <= g[1] < base + size:
                            return L
                    return None

                def __contains__(self, g: Tuple[int, int]) -> bool:
                    return self.get(g) is not None

                def __getitem__(self, g: Tuple[int, int]) -> str:
                    r = self.get(g)
                    assert r is not None
                    return r
            owner = _Owner()
            assigned: Set[Tuple[int, int]] = set()
            first_cls: Dict[str, Optional[str]] = {}
            for idx, op in enumerate(m.body):
                if op[0] == 'label' or idx in cells.values():
                    continue
                classes = _effect_on(stl, op, tracked, env)
                for via in sorted(tracked):
                    b, base, _size = layout[via]
                    G = {(b, base + o // dw) for o in touches[idx][via]}
                    if not G:
                        continue
                    cls = classes.get(via)
                    for L in sorted({owner[g] for g in G if g in owner}):
                        if L not in first_cls:
                            first_cls[L] = cls
                            verdict.setdefault((L, 'init-first'), [])
                            if cls == 'update':
                                verdict[(L, 'init-first')].append(f'{dict(sz)}: first touched by line {op[-1]} `{_stmt_name(op)}`, which updates it in place')
                            if cls == 'assign':
                                verdict.setdefault((L, 'covered'), [])
                    if cls == 'assign':
                        assigned |= G
                    elif cls != 'read':
                        for g in sorted(G - assigned):
                            L = owner.get(g)
                            if L is not None and first_cls.get(L) == 'assign':
                                verdict[(L, 'covered')].append(f'{dict(sz)}: line {op[-1]} `{_stmt_name(op)}` may write cell {g[1] - layout[L][1]} of {L}, '
                                                               f'which no earlier assignment covers')
            for L, c in first_cls.items():
                if c not in ('assign', 'update'):
                    verdict.setdefault((L, 'not-judged'), [])
            # (every-path) a cell whose first statement in text order is a plain assignment is meant to be reset on entry: that
            # holds on EVERY path through the macro's own control flow - no statement that touches the cell is reachable from the
            # entry without passing an assignment of it (a compile-time or run-time jump over the reset leaves the last value)
            entry, succ = macro_cfg(m, set(cells.values()))
            reset = {L for L, c in first_cls.items() if c == 'assign'}
            # (fresh-read) whatever the text order: a statement that LOOKS AT a scratch cell (the callee's contract names it in a
            # condition or on a right-hand side only) and is reachable from the macro entry before any statement that assigns the cell
            # decides by the value the previous execution left there - unless the macro gives the cell back its load-time value on
            # every path (not modelled: such a cell is reset first in today's library)
            if entry is not None:
                touch0: Dict[int, Dict[str, Optional[str]]] = {}
                for idx, op in enumerate(m.body):
                    if op[0] == 'label' or idx in cells.values():
                        continue
                    classes = _effect_on(stl, op, tracked, env)
                    for via in tracked:
                        b, base, _size = layout[via]
                        for L in {owner[g] for g in ((b, base + o // dw) for o in touches[idx][via]) if g in owner}:
                            if L in cells:
                                touch0.setdefault(idx, {})[L] = classes.get(via) if via == L else touch0.get(idx, {}).get(L)
                for L in sorted(cells):
                    writers = [i_ for i_, t_ in touch0.items() if L in t_ and t_[L] != 'read']
                    if not writers:
                        continue                      # a cell nobody writes keeps its load-time value
                    seen_, work_ = set(), [entry]
                    while work_:
                        i_ = work_.pop()
                        if i_ in seen_ or i_ == -1:
                            continue
                        seen_.add(i_)
                        if L in touch0.get(i_, {}):
                            if touch0[i_][L] == 'read':
                                verdict.setdefault((L, 'fresh-read'), []).append(
                                    f'{dict(sz)}: line {m.body[i_][-1]} `{_stmt_name(m.body[i_])}` looks at {L} and is reachable from the macro entry '
                                    f'before any assignment of it: the value left by the previous execution decides')
                            continue                  # assigned / updated / unknown: judged by the other clauses
                        work_.extend(succ.get(i_, []))
            if entry is not None and reset:
                touch: Dict[int, Dict[str, Optional[str]]] = {}
                for idx, op in enumerate(m.body):
                    if op[0] == 'label' or idx in cells.values():
                        continue
                    classes = _effect_on(stl, op, tracked, env)
                    for via in tracked:
                        b, base, _size = layout[via]
                        for L in {owner[g] for g in ((b, base + o // dw) for o in touches[idx][via]) if g in owner}:
                            if L in reset:
                                touch.setdefault(idx, {})[L] = classes.get(via) if via == L else touch.get(idx, {}).get(L)
                for L in sorted(reset):
                    verdict.setdefault((L, 'every-path'), [])
                    # forward reachability over 'not yet assigned' states
                    seen_, work_ = set(), [entry]
                    while work_:
                        i_ = work_.pop()
                        if i_ in seen_ or i_ == -1:
                            continue
                        seen_.add(i_)
                        if L in touch.get(i_, {}):
                            if touch[i_][L] == 'assign':
                                continue              # assigned: paths through here are fine
                            verdict[(L, 'every-path')].append(f'{dict(sz)}: line {m.body[i_][-1]} `{_stmt_name(m.body[i_])}` uses {L} and is reachable from the '
                                                              f'macro entry without passing its reset')
                            continue
                        work_.extend(succ.get(i_, []))
        if not evaluated:
            rep.uncovered.append(f'{key[0]}/{key[1]}: scratch cells {sorted(cells)} (no evaluable instantiation)')
            continue
        for (L, what), bad in sorted(verdict.items()):
            if what == 'not-judged':
                rep.uncovered.append(f'{key[0]}/{key[1]}:{L} (first use has no documented assignment formula for it)')
                continue
            # a local label is identified by the position of its declaration among the macro's scratch cells ('#k'), so that
            # renaming it keeps the reasoned exception attached to the same cell
            order_ = [nm_ for nm_, _ in sorted(cells.items(), key=lambda t: t[1])]
            exc = (key[0], key[1], f'#{order_.index(L)}' if L in order_ else L, what)
            if bad and exc in SCRATCH_EXCEPTIONS:
                used_exceptions.add(exc)
                rep.ok(rule, f'{key[0]}/{key[1]}:{L}:{what}', f'listed exception: {SCRATCH_EXCEPTIONS[exc]}', f'{m.file}:{m.line} {m.name}')
                continue
            rep.check(not bad, rule, f'{key[0]}/{key[1]}:{L}:{what}', bad[0] if bad else f'{evaluated} instantiations',
                      f'{m.file}:{m.line} {m.name}',
                      expected='assigned before it is updated; every possibly-written cell covered by an earlier assignment')
    for exc in SCRATCH_EXCEPTIONS:
        m = stl.macros.get((exc[0], exc[1]))
        if m is not None and m.file in files and exc not in used_exceptions:
            rep.notes.append(f'{rule}: the listed exception {exc} no longer applies (remove it after review)')


def _stmt_name(op: Tuple[Any, ...]) -> str:
    return {'call': lambda: f'{op[1]}/{len(op[2])}', 'rep': lambda: f'rep {op[3]}/{len(op[4])}'}.get(op[0], lambda: op[0])()


def doc_cond_reads(m: Macro) -> Set[str]:
    """parameters the doc block names in a condition line (`if p:`, `if p[:n] == 0 ..`, `while p ..`): the macro looks at them"""
    out: Set[str] = set()
    for line in m.doc:
        text = line[2:].strip()
        mm = re.match(r'(?:if|elif|while)\b(.*)$', text)
        if mm:
            cond = re.sub(r'//.*$', '', mm.group(1))
            cond = cond.split(':')[0] if ':' in cond and not re.search(r'\[[^\]]*:[^\]]*\]', cond.split(':')[0] + ':') else cond
            cond = re.split(r',\s+(?=[a-z])|\s+then\s+|\s+goto\s+|\s+jump\s+', cond)[0]          # `if ascii is a digit, set bin to ..`: the condition ends at the comma
            out |= set(re.findall(r'(?<![\w.])([A-Za-z_]\w*)', cond)) & set(m.params)
    return out


def _effect_on(stl: Stl, op: Tuple[Any, ...], labels: Set[str], env: Dict[str, Any]) -> Dict[str, Optional[str]]:
    """documented effect class (assign / update / read / None = no formula) of one statement on each local label it names."""
    if op[0] == 'call':
        name, args, env2 = op[1], op[2], env
    elif op[0] == 'rep':
        name, args = op[3], op[4]
        env2 = dict(env)
        env2[op[2]] = 0
    else:
        return {}
    cal = stl.macros.get((name, len(args)))
    if cal is None:
        return {}
    eff = dict(doc_effects(cal))
    for q_ in doc_cond_reads(cal):
        eff.setdefault(q_, 'read')           # named only in a condition of the contract: looked at, not written
    per: Dict[str, List[Optional[str]]] = {}
    forms: List[Tuple[str, Dict[str, int]]] = []
    for q, a in zip(cal.params, args):
        try:
            lf = ev(a, env2)
        except (OpaqueValue, NeedConcrete):
            continue
        syms = [k for k in lf if k != '']
        if len(syms) == 1 and syms[0] in labels and lf[syms[0]] == 1:
            per.setdefault(syms[0], []).append(eff.get(q))
            forms.append((q, lf))
    # the zeroing idiom `xor x, x` (x ^= x): an update whose source IS its destination is a plain assignment of 0
    if name.split('.')[-1] == 'xor' and len(forms) == 2 and forms[0][1] == forms[1][1] and len(args) in (2, 3):
        for L in per:
            per[L] = ['assign']
    out: Dict[str, Optional[str]] = {}
    for L, classes in per.items():
        if all(c == 'assign' for c in classes):
            out[L] = 'assign'
        elif any(c == 'update' for c in classes):
            out[L] = 'update'
        elif all(c == 'read' for c in classes):
            out[L] = 'read'
        else:
            out[L] = None
    return out


# ---------------------------------------------------------------- FJ.EXIT-CLEAN (an error exit leaves the inputs as they were)

_DOC_EXIT = re.compile(r'^if\s+([A-Za-z_]\w*)\s*(?:\[[^\]]*\])?\s*==\s*0\s*:?\s*(?:goto|jump to)\s+([A-Za-z_]\w*)')


def doc_zero_exits(m: Macro) -> List[Tuple[str, str]]:
    """(operand parameter, target parameter) of every contract line `if p[:n]==0: goto X` with both p and X parameters"""
    out: List[Tuple[str, str]] = []
    for line in m.doc:
        mm = _DOC_EXIT.match(line[2:].strip())
        if mm and mm.group(1) in m.params and mm.group(2) in m.params:
            out.append((mm.group(1), mm.group(2)))
    return out


def rule_exit_clean(rep: Report, stl: Stl, prop: str, files: List[str], floor: int, w: int = 64) -> None:
    rule = f'{prop}.EXIT-CLEAN'
    rep.rule(rule, 'a macro whose contract says `if p==0: goto X` for a label parameter X and that changes, in place, a parameter its own '
             'contract only reads (the sign handling of a signed division) leaves through X only while its inputs are untouched: every '
             'statement that hands X to a callee as a zero-exit is either not reachable after such an in-place change, or is dominated by '
             'an untouched-state zero-exit to X on the same operand, which only sign changes (`x = -x`: zero stays zero) have touched since', floor)
    dw = 2 * w
    n_inst = 0
    for key, m in sorted(stl.macros.items()):
        if m.file not in files:
            continue
        exits = doc_zero_exits(m)
        if not exits:
            continue
        eff_m = doc_effects(m)
        readonly = {q for q, c in eff_m.items() if c == 'read'} | {p_ for p_, _x in exits if eff_m.get(p_) in (None, 'read')}
        env: Dict[str, Any] = dict(base_env(w))
        for q in m.params:
            env[q] = {q: 1}
        cells = scratch_cells(m)
        entry, succ = macro_cfg(m, set(cells.values()))
        if entry is None:
            continue

        def arg_param(e: Any) -> Optional[str]:
            try:
                lf = ev(e, env)
            except (OpaqueValue, NeedConcrete, AnalysisError):
                return None
            syms = [k for k in lf if k != '' and lf[k] != 0]
            return syms[0] if len(syms) == 1 and syms[0] in m.params else None
        # per statement: which read-only parameters it updates in place (and whether only by a sign change), which zero-exits it makes
        upd: Dict[int, List[Tuple[str, bool]]] = {}
        zexit: Dict[int, List[Tuple[str, str]]] = {}
        for idx, op in enumerate(m.body):
            if op[0] not in ('call', 'rep'):
                continue
            name, args = (op[1], op[2]) if op[0] == 'call' else (op[3], op[4])
            cal = stl.macros.get((name, len(args)))
            if cal is None:
                continue
            eff = doc_effects(cal)
            sign_only = any(re.match(r'^\s*(\w+)(\[[^\]]*\])?\s*=\s*-\s*\1\b', ln[2:].strip()) for ln in cal.doc)
            for q, a in zip(cal.params, args):
                p_ = arg_param(a)
                if p_ in readonly and eff.get(q) in ('update', 'assign'):
                    upd.setdefault(idx, []).append((p_, sign_only))
            for operand, tgt in doc_zero_exits(cal):
                po = arg_param(args[cal.params.index(operand)])
                pt = arg_param(args[cal.params.index(tgt)])
                if po is not None and pt is not None:
                    zexit.setdefault(idx, []).append((po, pt))
        if not upd:
            continue
        for operand, X in exits:
            n_inst += 1
            # forward exploration with the state (dirty, guarded): dirty = a read-only parameter was changed in place on the way;
            # guarded = a clean zero-exit to X on `operand` was passed and `operand` has only been sign-changed since
            bad: List[str] = []
            seen: Set[Tuple[int, bool, bool]] = set()
            work: List[Tuple[int, bool, bool]] = [(entry, False, False)]
            n_exits = 0
            while work:
                i_, dirty, guarded = work.pop()
                if i_ == -1 or (i_, dirty, guarded) in seen:
                    continue
                seen.add((i_, dirty, guarded))
                for po, pt in zexit.get(i_, []):
                    if pt != X:
                        continue
                    n_exits += 1
                    if dirty and not (guarded and po == operand):
                        bad.append(f'line {m.body[i_][-1]} `{_stmt_name(m.body[i_])}` can leave through {X} after a parameter the contract only reads '
                                   f'was changed in place, and no untouched-state zero test of {po} towards {X} comes before it')
                    if not dirty and po == operand:
                        guarded = True
                for p_, sign_only in upd.get(i_, []):
                    dirty = True
                    if p_ == operand and not sign_only:
                        guarded = False
                for j_ in succ.get(i_, []):
                    work.append((j_, dirty, guarded))
            rep.check(not bad and n_exits > 0, rule, f'{key[0]}/{key[1]}:{operand}->{X}', bad[0] if bad else
                      (f'{n_exits} zero-exit(s) towards {X}: all taken with the inputs untouched or behind the entry test' if n_exits else f'no zero-exit towards {X} found in the body'),
                      f'{m.file}:{m.line} {m.name}', expected=f'the {operand}==0 test towards {X} before the first in-place change')
    if n_inst < floor:
        raise AnalysisError(f'{rule}: {n_inst} macros with a documented zero-exit and in-place sign handling (at least {floor} confirmed by hand: hex.idiv)')


_DOC_NOOP = re.compile(r'^if\s+([A-Za-z_]\w*)\s*(?:\[[^\]]*\])?\s*==\s*0\s*:?\s*(?:goto end\b.*do nothing|do nothing|goto end\s*\(do nothing\))', re.I)


def rule_zero_noop(rep: Report, stl: Stl, prop: str, files: List[str], floor: int, w: int = 64) -> None:
    rule = f'{prop}.ZERO-NOOP'
    rep.rule(rule, 'a macro whose contract says `if p==0: goto end (do nothing)` tests p towards its own end before the first statement that '
             'changes any of its parameters (per the callee contracts): a wrapper that leaves the test to an inner macro still runs its own '
             'before / after work (sign handling) around it', floor)
    n_inst = 0
    for key, m in sorted(stl.macros.items()):
        if m.file not in files:
            continue
        ops_ = [mm.group(1) for ln in m.doc for mm in [_DOC_NOOP.match(ln[2:].strip())] if mm and mm.group(1) in m.params]
        if not ops_:
            continue
        env: Dict[str, Any] = dict(base_env(w))
        for q in m.params:
            env[q] = {q: 1}
        cells = scratch_cells(m)
        entry, succ = macro_cfg(m, set(cells.values()))
        if entry is None:
            continue
        end_labels = {st[1].split('.')[-1] for i, st in enumerate(m.body) if st[0] == 'label' and all(x[0] == 'label' or j in cells.values() or (x[0] == 'call' and (x[1], len(x[2])) in SCRATCH_DECLS)
                                                                                                      for j, x in enumerate(m.body[i + 1:], i + 1))}
        for operand in ops_:
            n_inst += 1
            bad: List[str] = []
            seen: Set[int] = set()
            work = [entry]
            tested_first = False
            while work:
                i_ = work.pop()
                if i_ == -1 or i_ in seen:
                    continue
                seen.add(i_)
                op = m.body[i_]
                is_test = False
                if op[0] in ('call', 'rep'):
                    name, args = (op[1], op[2]) if op[0] == 'call' else (op[3], op[4])
                    cal = stl.macros.get((name, len(args)))
                    if cal is not None:
                        for po, pt in doc_zero_exits(cal):
                            try:
                                a_o = ev(args[cal.params.index(po)], env)
                                a_t = ev(args[cal.params.index(pt)], env)
                            except (NeedConcrete, OpaqueValue, AnalysisError):
                                continue
                            so = [k for k in a_o if k != '' and a_o[k]]
                            st_ = [k for k in a_t if k != '' and a_t[k]]
                            if so == [operand] and len(st_) == 1 and st_[0].split('.')[-1] in end_labels:
                                is_test = True
                        if not is_test:
                            cl = _effect_on(stl, op, set(m.params), env)
                            changed = sorted(p_ for p_, c_ in cl.items() if c_ in ('update', 'assign'))
                            if changed:
                                bad.append(f'line {op[-1]} `{_stmt_name(op)}` changes {changed} and is reachable from the entry before any `{operand} == 0` test towards the end')
                                continue
                if is_test:
                    tested_first = True
                    continue                      # beyond the test the operand is known non-zero (or the macro has ended)
                work.extend(succ.get(i_, []))
            rep.check(not bad, rule, f'{key[0]}/{key[1]}:{operand}', bad[0] if bad else 'the zero test comes before every change', f'{m.file}:{m.line} {m.name}',
                      expected=f'`if0 {operand}, end` first (the contract: do nothing when {operand} is 0)')
    if n_inst < floor:
        raise AnalysisError(f'{rule}: {n_inst} macros with a documented do-nothing case found (at least {floor} confirmed by hand)')


_SIBLING_WORDS = (('add', 'sub'), ('inc', 'dec'), ('shl', 'shr'), ('push', 'pop'), ('read', 'write'))


def rule_sibling_guards(rep: Report, stl: Stl, prop: str, files: List[str], floor: int) -> None:
    rule = f'{prop}.SIBLING-GUARDS'
    rep.rule(rule, 'mirror-image macros (add / sub, inc / dec, shl / shr, push / pop, read / write spelled alike, same arity) take the same '
             'compile-time guards on their constant parameters: a `rep(<condition on the parameters>, _)` that switches the body off for a '
             'degenerate constant (0) in one of the two is present, with the same condition, in the other - where one is a no-op for that '
             'constant the other must not fail to assemble', floor)

    def show(e: Any) -> str:
        if isinstance(e, int):
            return str(e)
        if e[0] == 'id':
            return e[1].split('.')[-1]
        if len(e) == 2:
            return f'{e[0]}({show(e[1])})'
        if len(e) == 3:
            return f'({show(e[1])}{e[0]}{show(e[2])})'
        return str(e)

    def guards(m: Macro) -> List[str]:
        return sorted(show(op[1]) for op in m.body if op[0] == 'rep' and not isinstance(op[1], int) and op[2] == '_')
    n = 0
    for (name, ar), m in sorted(stl.macros.items()):
        if m.file not in files:
            continue
        last = name.split('.')[-1]
        for a, b in _SIBLING_WORDS:
            if a not in last:
                continue
            sib = '.'.join(name.split('.')[:-1] + [last.replace(a, b)])
            m2 = stl.macros.get((sib, ar))
            if m2 is None or m2.params != m.params:
                continue
            n += 1
            g1, g2 = guards(m), guards(m2)
            if g1 == g2:
                rep.ok(rule, f'{name}/{ar} ~ {sib}/{ar}', f'guards {g1} / {g2}', f'{m2.file}:{m2.line} {m2.name}', nontrivial=bool(g1 or g2))
            else:
                rep.fail(rule, f'{name}/{ar} ~ {sib}/{ar}', f'guards {g1} / {g2}: one of the two is a no-op for the degenerate constant, the other evaluates its '
                         f'body with it (hex.sub_constant n, dst, 0: `#(0)-1` = -1 as a shift amount - does not assemble)', f'{m2.file}:{m2.line} {m2.name}',
                         expected='the same compile-time guards in both')
    if n < floor:
        raise AnalysisError(f'{rule}: {n} mirror-image pairs found (at least {floor} confirmed by hand)')


_DOC_MOD = re.compile(r'^([A-Za-z_]\w*)\s*(?:\[[^\]]*\])?\s*=\s*[A-Za-z_]\w*\s*(?:\[[^\]]*\])?\s*%\s*[A-Za-z_]\w*')


def rule_rem_fix(rep: Report, stl: Stl, prop: str, files: List[str], floor: int, w: int = 64) -> None:
    rule = f'{prop}.REM-FIX'
    rep.rule(rule, 'a macro whose contract defines a remainder `r = a % b` and that corrects r in place after computing it (adds or subtracts '
             'another parameter to move the remainder to the documented sign) applies the correction only behind a test that r is not zero: '
             'an exact division has remainder 0 in every sign convention - a correction chosen from the operand signs alone turns it into +-b '
             'and the quotient off by one', floor)
    n_inst = 0
    for key, m in sorted(stl.macros.items()):
        if m.file not in files:
            continue
        rems = [mm.group(1) for ln in m.doc for mm in [_DOC_MOD.match(ln[2:].strip())] if mm and mm.group(1) in m.params]
        if not rems:
            continue
        env: Dict[str, Any] = dict(base_env(w))
        for q in m.params:
            env[q] = {q: 1}
        cells = scratch_cells(m)
        entry, succ = macro_cfg(m, set(cells.values()))
        if entry is None:
            continue
        for r_ in rems:
            info: Dict[int, str] = {}
            for idx, op in enumerate(m.body):
                if op[0] not in ('call', 'rep'):
                    continue
                name, args = (op[1], op[2]) if op[0] == 'call' else (op[3], op[4])
                cal = stl.macros.get((name, len(args)))
                if cal is None:
                    continue
                cls = _effect_on(stl, op, {r_}, env).get(r_)
                sign_only = any(re.match(r'^\s*(\w+)(\[[^\]]*\])?\s*=\s*-\s*\1\b', ln[2:].strip()) for ln in cal.doc)
                others = set()
                for a in args:
                    try:
                        lf = ev(a, env)
                    except (NeedConcrete, OpaqueValue, AnalysisError):
                        continue
                    others |= {k for k in lf if k != '' and lf[k] and k in m.params and k != r_}
                if cls == 'assign' or (cls is None and r_ in {k for a in args for k in _expr_ids(a, set())} and name.split('.')[-1].startswith('div')):
                    info[idx] = 'assign'
                elif cls == 'update' and not sign_only and others:
                    info[idx] = 'correct'
                for po, pt in doc_zero_exits(cal):
                    try:
                        a_o = ev(args[cal.params.index(po)], env)
                    except (NeedConcrete, OpaqueValue, AnalysisError):
                        continue
                    if [k for k in a_o if k != '' and a_o[k]] == [r_]:
                        info[idx] = 'test'
            corrections = [i for i, c in info.items() if c == 'correct']
            if not corrections:
                continue
            n_inst += 1
            bad: List[str] = []
            seen: Set[Tuple[int, bool]] = set()
            work: List[Tuple[int, bool]] = [(entry, False)]
            while work:
                i_, tested = work.pop()
                if i_ == -1 or (i_, tested) in seen:
                    continue
                seen.add((i_, tested))
                c = info.get(i_)
                if c == 'assign':
                    tested = False
                elif c == 'test':
                    tested = True
                elif c == 'correct' and not tested:
                    bad.append(f'line {m.body[i_][-1]} `{_stmt_name(m.body[i_])}` corrects {r_} and is reachable without a `{r_} == 0` test since {r_} was computed')
                    continue
                work.extend((j_, tested) for j_ in succ.get(i_, []))
            rep.check(not bad, rule, f'{key[0]}/{key[1]}:{r_}', bad[0] if bad else f'{len(corrections)} in-place corrections of the remainder, all behind a zero test',
                      f'{m.file}:{m.line} {m.name}', expected=f'`if0 {r_}, end` before the sign-dependent correction')
    if n_inst < floor:
        raise AnalysisError(f'{rule}: {n_inst} macros that correct a documented remainder in place (at least {floor} confirmed by hand: hex.idiv)')


# ---------------------------------------------------------------- FJ.INPUT-PRESERVED (a cast does not change what it casts)

def rule_input_preserved(rep: Report, stl: Stl, prop: str, files: List[str], floor: int, w: int = 64) -> None:
    rule = f'{prop}.INPUT-PRESERVED'
    rep.rule(rule, 'a parameter the contract of a cast / input / print macro only LOOKS AT (it is named in a condition of the doc block, or only on '
             'right-hand sides, and never assigned or updated there) is not changed by the body: no statement whose callee contract updates or '
             'assigns its argument is applied to it (a caller that casts the same variable twice, or uses it afterwards, sees its own value)', floor)
    env0 = dict(base_env(w))
    n = 0
    for key, m in sorted(stl.macros.items()):
        if m.file not in files:
            continue
        eff = doc_effects(m)
        looks = doc_cond_reads(m)
        ro = {p for p in m.params if (eff.get(p) == 'read' or p in looks) and eff.get(p) not in ('assign', 'update')}
        if not ro:
            continue
        env = dict(env0)
        for p in m.params:
            env[p] = {p: 1}
        for p in sorted(ro):
            n += 1
            bad = []
            for op in m.body:
                cl = _effect_on(stl, op, {p}, env)
                if cl.get(p) in ('update', 'assign'):
                    bad.append(f'line {op[-1]} `{_stmt_name(op)}` {cl[p]}s {p} in place')
            rep.check(not bad, rule, f'{key[0]}/{key[1]}:{p}', bad[0] if bad else 'only looked at', f'{m.file}:{m.line} {m.name}',
                      expected=f'{p} keeps its value (the contract only tests / reads it)')
    if n < floor:
        raise AnalysisError(f'{rule}: {n} looked-at parameters found (at least {floor} confirmed by hand)')


# ---------------------------------------------------------------- FJ.ALIAS (documented aliasing hazards are respected by callers)

def doc_alias_hazards(m: Macro) -> List[Tuple[str, str, str]]:
    """(kind, p, q) from the doc block: ('equal', p, q) the macro breaks when p == q; ('overlap', p, q) it breaks when the
    documented extents of p and q overlap without being the same address."""
    out: List[Tuple[str, str, str]] = []
    text = ' '.join(l[2:].strip() for l in m.doc)
    for a, b in re.findall(r"(?:doesn't work if|[Uu]nsafe for|[Uu]nsafe if)\s+(\w+)\s*==\s*(\w+)", text):
        if a in m.params and b in m.params:
            out.append(('equal', a, b))
    for a, b in re.findall(r"(?:doesn't work if|[Uu]nsafe if)\s+(\w+) and (\w+) overlap", text):
        if a in m.params and b in m.params:
            out.append(('overlap', a, b))
    return out


ALIAS_SIZES = {'times': (0, 1, 4, 5)}


def rule_alias(rep: Report, stl: Stl, prop: str, files: List[str], floor: int, w: int = 64) -> None:
    rule = f'{prop}.ALIAS'
    rep.rule(rule, 'a macro whose documentation says it breaks when two operands coincide (or overlap) is never applied to operands '
             'that coincide for some allowed size: at every call site the two argument addresses are compared as linear forms over '
             'the caller\'s operands for sizes in {4,5,8}, shift counts including 0, and every rep index; a caller\'s own local label '
             'never aliases anything else; operands that are different parameters of the caller are the caller\'s contract (not judged)', floor)
    fpx = Footprints(stl, w)
    dw = 2 * w
    hazards = {k: h for k, m in stl.macros.items() for h in [doc_alias_hazards(m)] if h}
    for key, m in sorted(stl.macros.items()):
        if m.file not in files:
            continue
        sites = [(i, op) for i, op in enumerate(m.body) if op[0] in ('call', 'rep')
                 and ((op[1], len(op[2])) if op[0] == 'call' else (op[3], len(op[4]))) in hazards]
        if not sites:
            continue
        names = size_params(fpx, key)
        if names is None:
            rep.uncovered.append(f'{key[0]}/{key[1]}: call sites of hazard-documented macros (sizes not computable)')
            continue
        for i, op in sites:
            ck = (op[1], len(op[2])) if op[0] == 'call' else (op[3], len(op[4]))
            cal = stl.macros[ck]
            args = op[2] if op[0] == 'call' else op[4]
            for kind, pa, pb in hazards[ck]:
                bad: List[str] = []
                judged = 0
                for combo in itertools.product(*[ALIAS_SIZES.get(nm, EXTRA_SIZES.get(nm, SIZES)) for nm in names]):
                    sz = dict(zip(names, combo))
                    pre = PRECONDITIONS.get(key)
                    if pre is not None and not pre(sz):
                        continue
                    env: Dict[str, Any] = dict(fpx.base)
                    for q in m.params:
                        env[q] = {q: 1}
                    env.update(sz)
                    try:
                        reps = range(max(conc(ev(op[1], env)), 0)) if op[0] == 'rep' else [None]
                    except (NeedConcrete, OpaqueValue):
                        continue
                    for it in reps:
                        e2 = dict(env)
                        if it is not None:
                            e2[op[2]] = it
                        try:
                            la, lb = ev(args[cal.params.index(pa)], e2), ev(args[cal.params.index(pb)], e2)
                            ext = 1
                            if kind == 'overlap':
                                ce = dict(fpx.base)
                                for q, a in zip(cal.params, args):
                                    try:
                                        ce[q] = conc(ev(a, e2))
                                    except (NeedConcrete, OpaqueValue):
                                        pass
                                exts = doc_extents(cal).get(pa, set())
                                ext = max([conc(ev(parse_extent(E), ce)) for E in exts] or [1])
                        except (NeedConcrete, OpaqueValue, AnalysisError):
                            continue
                        d = lin_add(la, lb, -1)
                        if any(k != '' and v != 0 for k, v in d.items()):
                            continue            # different base symbols: the caller's own contract / a fresh local label
                        judged += 1
                        delta = d.get('', 0)
                        clash = (delta == 0) if kind == 'equal' else (delta != 0 and abs(delta) < ext * dw)
                        if clash:
                            bad.append(f'{sz}' + (f' i={it}' if it is not None else '') + f': {pa} - {pb} = {delta} bits')
                if not judged:
                    rep.ok(rule, f'{key[0]}/{key[1]}:line-order {sum(1 for j, _ in sites if j <= i)}:{cal.name}({pa},{pb}):{kind}',
                           'operands have different base symbols (the caller\'s own contract, or a fresh local label)',
                           f'{m.file}:{op[-1]} {m.name}', nontrivial=False)
                else:
                    rep.check(not bad, rule, f'{key[0]}/{key[1]}:line-order {sum(1 for j, _ in sites if j <= i)}:{cal.name}({pa},{pb}):{kind}',
                              bad[0] if bad else f'{judged} instantiations: never {"equal" if kind == "equal" else "partially overlapping"}',
                              f'{m.file}:{op[-1]} {m.name}', expected=f'{cal.name} is documented to break when {pa} and {pb} '
                              + ('are the same address' if kind == 'equal' else 'overlap'))


# ---------------------------------------------------------------- FJ.LUT (C04)

def _reps(m: Macro, count: int) -> List[Tuple[Any, ...]]:
    return [op for op in m.body if op[0] == 'rep' and op[1] == count]


def _lin_key(lf: Dict[str, int]) -> Tuple[Tuple[str, int], ...]:
    d = {k: v for k, v in lf.items() if v != 0}
    d.setdefault('', 0)
    return tuple(sorted(d.items()))


def rule_lut(rep: Report, stl: Stl, w: int = 64) -> None:
    rule = 'C04.LUT'
    rep.rule(rule, 'the leaf lookup tables are initialised by rep(256, d) with assembly-time constant expressions; for all 256 indices the '
             'result expression and the next-entry routing equal the documented function (dst = d & 0xf, src = d >> 4): or, and, add and '
             'sub with/without carry, cmp, mul low/high nibble. This is constant folding of table initialisers by fjfront - exhaustive '
             'over the table domain, without running FlipJump', 12)
    dw = 2 * w
    base = base_env(w)

    def table(key: Tuple[str, int], index: int) -> Tuple[Any, ...]:
        if key not in stl.macros:
            raise AnalysisError(f'{rule}: macro {key} missing')
        reps = _reps(stl.macros[key], 256)
        if index >= len(reps):
            raise AnalysisError(f'{rule}: {key} has only {len(reps)} rep(256) tables')
        return reps[index]

    def check_table(name: str, key: Tuple[str, int], index: int, callee: str, res_arg: int, next_arg: int,
                    ref_res: Any, ref_next: Any, res_base: Optional[str]) -> None:
        op = table(key, index)
        m = stl.macros[key]
        site = f'{m.file}:{op[5]} {m.name}'
        if op[3] != callee or op[2] != 'd':
            rep.fail(rule, name, f'table is rep(256, {op[2]}) {op[3]}', site, expected=f'rep(256, d) {callee}')
            return
        bad_res, bad_next = [], []
        roles: Dict[str, str] = {}
        for d in range(256):
            env = dict(base)
            env['d'] = d
            dst, src = d & 0xf, d >> 4
            try:
                got_res = ev(op[4][res_arg], env)
                got_next = ev(op[4][next_arg], env)
            except NeedConcrete as nc:
                raise AnalysisError(f'{rule}: {name}: table expression is not an assembly-time constant in d ({nc.name})')
            want_res = ref_res(dst, src)
            if isinstance(want_res, tuple):          # (symbol or None, offset)
                wl = ({want_res[0]: 1} if want_res[0] else {})
                wl[''] = want_res[1]
            else:
                wl = {'': want_res * dw}
                if res_base:
                    wl[res_base] = 1
            if _lin_key(got_res) != _lin_key(wl):
                bad_res.append((d, dict(got_res), wl))
            # the routing target is named by its ROLE; which local label of the init macro plays the role is read off the table
            # itself (the first entry that uses the role binds it) and must then be the same label for every entry - a consistent
            # renaming of the macro's local labels changes nothing
            wn_role, wn_off = ref_next(dst, src, d)
            syms = [k for k in got_next if k != '' and got_next[k] != 0]
            if len(syms) == 1 and got_next[syms[0]] == 1:
                bound = roles.setdefault(wn_role, syms[0])
                if bound != syms[0] or got_next.get('', 0) != wn_off * dw or list(roles.values()).count(bound) != 1:
                    bad_next.append((d, dict(got_next), {f'<{wn_role}={bound}>': 1, '': wn_off * dw}))
            else:
                bad_next.append((d, dict(got_next), {f'<{wn_role}>': 1, '': wn_off * dw}))
        rep.check(not bad_res, rule, f'{name}:result', 'all 256 entries equal the documented function' if not bad_res else
                  f'{len(bad_res)} entries differ, first d={bad_res[0][0]:#04x}: table {bad_res[0][1]} vs documented {bad_res[0][2]}', site,
                  expected='(dst OP src) ^ dst per entry')
        # what the roles are: the labels must be local labels of the init macro, and a role whose block is recognisable is checked:
        #   clean_table_entry  -> the label in front of the call of the shared `clean_table_entry__table` macro
        #   flip_carry         -> the label in front of `rep(256, i) stl.fj <dst>+dbit+8, <clean label>+i*dw` (flip bit 8, then clean)
        lab_next: Dict[str, Tuple[Any, ...]] = {}
        for i_, st_ in enumerate(m.body[:-1]):
            if st_[0] == 'label':
                lab_next[st_[1].split('.')[-1]] = m.body[i_ + 1]
        for role_, lab_ in roles.items():
            short = lab_.split('.')[-1]
            if short not in m.local:
                bad_next.append((-1, {lab_: 1}, {f'<{role_}: a local label of {m.name}>': 1}))
                continue
            nx = lab_next.get(short)
            if role_ == 'clean_table_entry' and not (nx is not None and nx[0] == 'call' and nx[1].endswith('clean_table_entry__table')):
                bad_next.append((-1, {lab_: 1}, {'<the label in front of clean_table_entry__table>': 1}))
            if role_ == 'flip_carry':
                benv = dict(base)
                if nx is not None and nx[0] == 'call':
                    # the table line moved into a helper macro invoked once: read the helper's single rep with its parameters bound to
                    # the arguments (the same ops are emitted in the same place)
                    hm = stl.macros.get((nx[1], len(nx[2])))
                    hbody = [x_ for x_ in (hm.body if hm else []) if x_[0] != 'label']
                    if hm is not None and len(hbody) == 1 and hbody[0][0] == 'rep':
                        try:
                            for p_, a_ in zip(hm.params, nx[2]):
                                benv[p_] = ev(a_, base)
                            nx = hbody[0]
                        except (NeedConcrete, OpaqueValue, AnalysisError):
                            pass
                okf = nx is not None and nx[0] == 'rep' and nx[3] == 'stl.fj' and len(nx[4]) == 2
                if okf:
                    try:
                        f0 = ev(nx[4][0], {**benv, nx[2]: 5})
                        j0 = ev(nx[4][1], {**benv, nx[2]: 5})
                        okf = f0.get('', 0) == base['dbit'] + 8 and len([k for k in f0 if k != '']) == 1 and \
                            j0.get(roles.get('clean_table_entry', '?'), 0) == 1 and j0.get('', 0) == 5 * dw and conc(ev(nx[1], base)) == 256
                    except (NeedConcrete, OpaqueValue, AnalysisError):
                        okf = False
                if not okf:
                    bad_next.append((-1, {lab_: 1}, {'<the label in front of the table that flips bit 8 of dst and goes on to the clean entry>': 1}))
        rep.check(not bad_next, rule, f'{name}:next', f'all 256 entries route as documented (roles {roles})' if not bad_next else
                  f'{len(bad_next)} entries differ, first d={bad_next[0][0]:#04x}: {bad_next[0][1]} vs {bad_next[0][2]}', site)

    X = lambda f: (lambda dst, src: f(dst, src) ^ dst)
    check_table('hex.or', ('hex.or.init', 0), 0, 'stl.wflip_macro', 1, 2, X(lambda a, b: a | b), lambda a, b, d: ('clean_table_entry', d), None)
    check_table('hex.and', ('hex.and.init', 0), 0, 'stl.wflip_macro', 1, 2, X(lambda a, b: a & b), lambda a, b, d: ('clean_table_entry', d), None)
    check_table('hex.add(carry=0)', ('hex.add.init', 0), 0, 'stl.wflip_macro', 1, 2, X(lambda a, b: (a + b) & 0xf),
                lambda a, b, d: ('flip_carry' if a + b > 0xf else 'clean_table_entry', d), None)
    check_table('hex.add(carry=1)', ('hex.add.init', 0), 1, 'stl.wflip_macro', 1, 2, X(lambda a, b: (a + b + 1) & 0xf),
                lambda a, b, d: ('clean_table_entry' if a + b + 1 > 0xf else 'flip_carry', d), None)
    check_table('hex.sub(borrow=0)', ('hex.sub.init', 0), 0, 'stl.wflip_macro', 1, 2, X(lambda a, b: (a - b) & 0xf),
                lambda a, b, d: ('flip_carry' if a - b < 0 else 'clean_table_entry', d), None)
    check_table('hex.sub(borrow=1)', ('hex.sub.init', 0), 1, 'stl.wflip_macro', 1, 2, X(lambda a, b: (a - b - 1) & 0xf),
                lambda a, b, d: ('clean_table_entry' if a - b - 1 < 0 else 'flip_carry', d), None)
    # cmp: flips ret+dbit+1 for >, ret+dbit for ==, nothing for <
    dbit = w + w.bit_length()
    check_table('hex.cmp', ('hex.cmp.init', 0), 0, 'stl.fj', 0, 1,
                lambda a, b: (('hex.tables.ret', dbit + 1) if a > b else (('hex.tables.ret', dbit) if a == b else (None, 0))),
                lambda a, b, d: ('clean_table_entry', d), None)
    # mul: product nibble routing
    check_table('hex.mul(low nibble)', ('hex.mul.init', 0), 0, 'stl.fj', 0, 1, lambda a, b: (None, 0),
                lambda a, b, d: ('switch_small_table', (a * b) & 0xf), None)
    check_table('hex.mul(high nibble)', ('hex.mul.init', 0), 1, 'stl.fj', 0, 1, lambda a, b: ('hex.mul.dst', dbit + 9),
                lambda a, b, d: ('set_carry_small_table', (a * b) >> 4), None)
    check_table('hex.mul(high nibble + 1)', ('hex.mul.init', 0), 2, 'stl.fj', 0, 1, lambda a, b: ('hex.mul.dst', dbit + 8),
                lambda a, b, d: ('set_carry_small_table', ((a * b) >> 4) + 1), None)
    # the one-bit shift switches: entry i of `rep(16, i) stl.fj FLIP, JUMP` hands the bit that falls out of the hex to the neighbour
    # (shl: bit 3 -> bit 0 of `next`; shr: bit 0 -> bit 3 of `next`) and continues at the clean-table entry for i ^ shifted(i)
    for nm_, key_, out_bit, in_bit, shifted in (('hex.shifts.shl_bit_once', ('hex.shifts.shl_bit_once', 2), 8, 0, lambda i: (i << 1) & 0xf),
                                                ('hex.shifts.shr_bit_once', ('hex.shifts.shr_bit_once', 2), 1, 3, lambda i: i >> 1)):
        m_ = stl.macros.get(key_)
        if m_ is None:
            raise AnalysisError(f'{rule}: macro {key_} missing')
        reps16 = _reps(m_, 16)
        site_ = f'{m_.file}:{m_.line} {m_.name}'
        if len(reps16) != 1 or reps16[0][3] != 'stl.fj' or len(reps16[0][4]) != 2:
            rep.fail(rule, f'{nm_}:switch', f'{len(reps16)} rep(16) stl.fj tables', site_, expected='one rep(16, i) stl.fj table')
            continue
        op_ = reps16[0]
        # the label the table continues at: the one in front of the clean-table call
        clean_lab = None
        for i_, st_ in enumerate(m_.body[:-1]):
            if st_[0] == 'label' and m_.body[i_ + 1][0] == 'call' and m_.body[i_ + 1][1].endswith('clean_table_entry__table'):
                clean_lab = st_[1].split('.')[-1]
        bad_ = []
        for i in range(16):
            env_ = dict(base)
            env_[op_[2]] = i
            for q_ in m_.params:
                env_[q_] = {q_: 1}
            try:
                gf, gj = ev(op_[4][0], env_), ev(op_[4][1], env_)
            except (NeedConcrete, OpaqueValue) as ex_:
                bad_.append(f'entry {i}: not an assembly-time constant ({ex_})')
                break
            want_f = {m_.params[1]: 1, '': base['dbit'] + in_bit} if i & out_bit else {'': 0}
            want_j = {clean_lab or '?': 1, '': (i ^ shifted(i)) * dw}
            if _lin_key(gf) != _lin_key(want_f):
                bad_.append(f'entry {i}: flips {dict(gf)}, documented {want_f}')
            if _lin_key(gj) != _lin_key(want_j):
                bad_.append(f'entry {i}: continues at {dict(gj)}, documented {want_j}')
        rep.check(not bad_, rule, f'{nm_}:switch', bad_[0] if bad_ else 'all 16 entries: carry bit to the neighbour, then clean entry i ^ shifted(i)', site_,
                  expected='{next(1bit), dst(1hex)} = dst shifted by one bit')
    # wflip_macro places flip value at tables.res + w: (value * dw) flips the data bits of the result hex
    wm = stl.macros.get(('stl.wflip_macro', 3))
    ok = wm is not None and [op[0] for op in wm.body] == ['wflip'] and wm.params == ['dst', 'val', 'jmp_addr']
    rep.check(bool(ok), rule, 'stl.wflip_macro', 'wflip dst, val, jmp_addr' if ok else str(wm.body if wm else None), 'flipjump/stl/runlib.fj')


# ---------------------------------------------------------------- FJ.CARRY (C04)

def rule_carry(rep: Report, stl: Stl) -> None:
    rule = 'C04.CARRY'
    rep.rule(rule, 'no stale carry leaks: every macro that applies the carry-chained single-hex hex.add / hex.sub / hex.add_mul (directly or in a rep) '
             'clears that namespace\'s carry before the first and after the last application', 5)
    n = 0
    for key, m in sorted(stl.macros.items()):
        calls = [(i, op) for i, op in enumerate(m.body) if op[0] in ('call', 'rep')]
        for kind in ('add', 'sub', 'mul'):
            target = 'hex.add_mul' if kind == 'mul' else f'hex.{kind}'      # the carry-chained single-hex step of each namespace
            idx = [i for i, op in calls if (op[1] if op[0] == 'call' else op[3]) == target and len(op[2] if op[0] == 'call' else op[4]) == 2]
            if not idx:
                continue
            n += 1
            names = [(i, (op[1] if op[0] == 'call' else op[3]), len(op[2] if op[0] == 'call' else op[4])) for i, op in calls]
            before = [nm for i, nm, a in names if i < idx[0]]
            after = [nm for i, nm, a in names if i > idx[-1]]
            clr = f'hex.{kind}.clear_carry'
            # statements between the bracket and the chain may set up operands (e.g. `.xor .mul.dst, b`), but are no chain steps
            ok = any(b in (clr, f'hex.{kind}.set_carry') for b in before) and clr in after
            rep.check(ok, rule, f'{key[0]}/{key[1]}:{kind}-chain', f'before: {before[-2:]}; after: {after[:2]}', f'{m.file}:{m.line} {m.name}',
                      expected=f'{clr} (or set_carry) before the first chain step and {clr} after the last one')
    if n < 5:
        raise AnalysisError(f'{rule}: only {n} carry chains found')
    # clear_carry really resets: both forms end with the carry/table state restored (structure check: they wflip tables.ret back)
    for kind in ('add', 'sub'):
        for ar in (0, 2):
            m = stl.macros.get((f'hex.{kind}.clear_carry', ar))
            if m is None:
                raise AnalysisError(f'{rule}: hex.{kind}.clear_carry/{ar} missing')


def _expr_ids(e: Any, out: Set[str]) -> Set[str]:
    if isinstance(e, tuple):
        if e and e[0] == 'id':
            out.add(e[1])
        for x in e[1:]:
            _expr_ids(x, out)
    elif isinstance(e, list):
        for x in e:
            _expr_ids(x, out)
    return out


def rule_ret_restore(rep: Report, stl: Stl, files: List[str]) -> None:
    rule = 'C04.RET-RESTORE'
    rep.rule(rule, 'the shared return registers of the table code (labels named *.ret that are not parameters or local labels of the '
             'macro) are left as found: every `wflip <reg>+w, <value>` that points such a register somewhere is matched in the same macro '
             'by a second wflip with the same address and value (xor twice restores it); a register left pointing into one macro '
             'sends the next table user to a stale return address', 6)
    for key, m in sorted(stl.macros.items()):
        if m.file not in files:
            continue
        own = set(m.params) | set(m.local)
        by_reg: Dict[Tuple[str, str], int] = {}
        for op in m.body:
            if op[0] != 'wflip':
                continue
            a = op[1]
            ids = _expr_ids(a[0], set()) - {'w', 'dw', 'dbit'}
            if len(ids) != 1 or ids & own:
                continue
            reg = next(iter(ids))
            if not reg.endswith('.ret'):
                continue
            k = (repr(a[0]), repr(a[1]))
            by_reg[k] = by_reg.get(k, 0) + 1
        for (addr, val), cnt in sorted(by_reg.items()):
            reg = re.search(r"'id', '([^']+)'", addr).group(1)        # type: ignore[union-attr]
            rep.check(cnt % 2 == 0, rule, f'{key[0]}/{key[1]}:{reg}', f'{cnt} wflip(s) with this address and value',
                      f'{m.file}:{m.line} {m.name}', expected='an even number: set, then restored')


# ---------------------------------------------------------------- FJ.JW-RESTORE (a borrowed jump word is given back on every path)

def rule_jumpword_restore(rep: Report, stl: Stl, prop: str, files: List[str], floor: int) -> None:
    rule = f'{prop}.JW-RESTORE'
    rep.rule(rule, 'a macro that points the jump word of an operand cell (`wflip <param>+w, <local label>`) into its own code - the '
             'switch-table idiom: jumping to the cell then lands in the table at the cell\'s value - gives the jump word back (the same '
             'wflip again) on EVERY path before control leaves the macro (a jump to a label parameter, or the end of the macro): '
             'typestate over the macro\'s own control-flow graph (raw ops, wflips, label arguments of calls and reps as branch '
             'targets, table entries as the successors of the indexed jump)', floor)
    for key, m in sorted(stl.macros.items()):
        if m.file not in files:
            continue
        body = m.body
        locs, params = set(m.local), set(m.params)
        sets = []
        for i, op in enumerate(body):
            if op[0] == 'wflip':
                a = op[1]
                ids = _expr_ids(a[0], set()) - {'w', 'dw', 'dbit'}
                vids = _expr_ids(a[1], set())
                if len(ids) == 1 and ids <= params and vids and vids <= locs:
                    sets.append((repr(a[0]), repr(a[1]), next(iter(ids)), next(iter(vids))))
        if not sets:
            continue
        jumped_to = set()
        for op in body:
            if op[0] == 'fj' and op[2] is not None:
                jumped_to |= _expr_ids(op[2], set())
            if op[0] == 'wflip' and len(op[1]) > 2:
                jumped_to |= _expr_ids(op[1][2], set())
        # only the switch-table idiom: the macro itself jumps to the cell. (stl.fcall points ret_reg at its return label and
        # leaves to the callee on purpose - the callee comes back through the cell.)
        borrowed = sorted({(a, v, p_, l) for a, v, p_, l in sets if p_ in jumped_to})
        if not borrowed:
            continue
        # statement graph
        stmt_idx = [i for i, op in enumerate(body) if op[0] != 'label']
        label_at: Dict[str, int] = {}
        for i, op in enumerate(body):
            if op[0] == 'label':
                nxt = [j for j in stmt_idx if j > i]
                label_at[op[1].split('.')[-1]] = nxt[0] if nxt else -1        # -1: the end of the macro
        END = -1

        def nxt_of(i: int) -> int:
            later = [j for j in stmt_idx if j > i]
            return later[0] if later else END

        def target(e: Any) -> List[Any]:
            return target_with(e, {})

        def target_with(e: Any, extra: Dict[str, int]) -> List[Any]:
            """successors named by a jump expression: statement indices, ('exit', param) or END"""
            ids = _expr_ids(e, set()) - {'w', 'dw', 'dbit'} - set(extra)
            if not ids:
                return [('exit', '<absolute>')]
            if ids & params:
                pl = sorted(ids & params)
                return [('exit', pl[0])]
            lab = [x for x in ids if x in label_at]
            if len(lab) == 1 and len(ids) == 1:
                base = label_at[lab[0]]
                if base == END:
                    return [END]
                # label + k*dw: the k-th following statement (table entries are one op each)
                try:
                    off = conc(lin_add(ev(e, {**base_env(64), **extra, lab[0]: 0}), {'': 0}, 1))
                    k = off // 128
                except Exception:
                    k = 0
                later = [j for j in stmt_idx if j >= base]
                # walk the following statements by their size in ops: a raw op / wflip is 1, a rep of stl.fj is its count, a
                # `*table*` macro call with a constant first argument is that many entries; k lands inside one of them
                pos = 0
                for j in later:
                    opj = body[j]
                    size = 1
                    try:
                        if opj[0] == 'rep':
                            size = max(conc(ev(opj[1], base_env(64))), 1)
                        elif opj[0] == 'call' and 'table' in opj[1] and opj[2]:
                            size = max(conc(ev(opj[2][0], base_env(64))), 1)
                    except Exception:
                        size = 1
                    if pos <= k < pos + size:
                        return [j]
                    pos += size
                return [later[-1]] if later and k >= 0 else [END]
            return [('exit', '<global>')]        # a jump to code outside the macro

        def table_nodes(label: str) -> List[int]:
            base = label_at.get(label, END)
            out: List[int] = []
            for j in [x for x in stmt_idx if x >= base and base != END][:16]:
                if body[j][0] == 'rep':
                    out.append(j)
                    break
                out.append(j)
            return out

        def succs(i: int, state: frozenset) -> List[Any]:
            op = body[i]
            if op[0] == 'fj':
                return target(op[2]) if op[2] is not None else [nxt_of(i)]
            if op[0] == 'wflip':
                a = op[1]
                if len(a) < 3:
                    return [nxt_of(i)]
                tids = _expr_ids(a[2], set())
                # the indexed jump: jumping to the operand cell whose jump word points at a table
                for (ad, v, p_, l) in borrowed:
                    if tids == {p_} and (ad, v) in state:
                        return table_nodes(l)
                return target(a[2])
            if op[0] in ('call', 'rep') and (op[1] if op[0] == 'call' else op[3]) == 'stl.fj' and len(op[2] if op[0] == 'call' else op[4]) == 2:
                # `stl.fj flip, jump` is a raw op: it always jumps (a rep of it is a table: one entry per index)
                jexpr = (op[2] if op[0] == 'call' else op[4])[1]
                if op[0] == 'call':
                    return target(jexpr)
                try:
                    cnt = conc(ev(op[1], base_env(64)))
                except Exception:
                    cnt = 1
                outs: List[Any] = []
                for it in range(max(cnt, 1)):
                    for t in target_with(jexpr, {op[2]: it}):
                        if t not in outs:
                            outs.append(t)
                return outs
            if op[0] in ('call', 'rep'):
                args = op[2] if op[0] == 'call' else op[4]
                out: List[Any] = [nxt_of(i)]
                for a in args:
                    ids = _expr_ids(a, set()) - {'w', 'dw', 'dbit'}
                    if len(ids) == 1 and next(iter(ids)) in label_at and not (ids & params):
                        out += target(a)
                    elif ids and ids <= params:
                        # a label parameter handed on to a callee is a possible way out - only when the macro's own parameter is used
                        # as a jump target somewhere (i.e. it IS a label parameter)
                        if next(iter(ids)) in label_params:
                            out.append(('exit', next(iter(ids))))
                    # jumping to a borrowed cell through a callee (rare): not modelled
                return out
            return [nxt_of(i)]
        label_params = set()
        for op in body:
            if op[0] == 'fj' and op[2] is not None:
                label_params |= _expr_ids(op[2], set()) & params
            if op[0] == 'wflip' and len(op[1]) > 2:
                label_params |= _expr_ids(op[1][2], set()) & params
        label_params -= {p_ for _, _, p_, _ in borrowed}
        start = stmt_idx[0] if stmt_idx else END
        seen: Set[Tuple[int, frozenset]] = set()
        work: List[Tuple[int, frozenset]] = [(start, frozenset())]
        bad: List[str] = []
        steps = 0
        while work and steps < 20000:
            steps += 1
            i, st = work.pop()
            if (i, st) in seen:
                continue
            seen.add((i, st))
            if i == END:
                if st:
                    bad.append(f'the end of the macro is reached with the jump word of {sorted(p_ for a, v, p_, l in borrowed if (a, v) in st)} still borrowed')
                continue
            op = body[i]
            st2 = st
            if op[0] == 'wflip':
                k = (repr(op[1][0]), repr(op[1][1]))
                if any(k == (a, v) for a, v, _, _ in borrowed):
                    st2 = st - {k} if k in st else st | {k}
            # the indexed jump is taken in the state AFTER this wflip toggled the borrow
            for t in succs(i, st2):
                if isinstance(t, tuple):
                    if st2:
                        bad.append(f'line {op[-1]}: control leaves to `{t[1]}` with the jump word of '
                                   f'{sorted(p_ for a, v, p_, l in borrowed if (a, v) in st2)} still pointing into the macro')
                else:
                    work.append((t, st2))
        for (a, v, p_, l) in borrowed:
            mine = sorted({b for b in bad if f"'{p_}'" in b or f'[{p_!r}]' in b or p_ in b})
            rep.check(not mine, rule, f'{key[0]}/{key[1]}:{p_}+w -> {l}', mine[0] if mine else f'restored on every path ({len(seen)} states explored)',
                      f'{m.file}:{m.line} {m.name}', expected='the same wflip again before any exit')


# ---------------------------------------------------------------- FJ.CARRY-TOP (in-place arithmetic reaches the top of the assigned extent)

CARRY_TOP_EXCEPTIONS: Dict[Tuple[str, int, str, str], str] = {
    ('bit.hex2ascii', 2, 'ascii', 'bit.dec'): 'the low three bits hold 1..6 here (hex in 0xA..0xF xor-ed in, bit 3 cleared by the branch): the decrement cannot borrow',
    # '#0': the first declared scratch cell of the macro (`R` today) - a local label is keyed by its declaration index
    ('bit.div', 5, '#0', 'bit.div.div_step'): 'long division over a sliding n-bit window of the 2n-bit remainder register: each step subtracts inside its window by design',
}
_ARITH_UPDATES = {'+=', '-=', '++', '--'}


def doc_update_ops(m: Macro) -> Dict[str, Set[str]]:
    """parameter -> the in-place operators (`+=`, `^=`, `++` ..) of the formula lines of the doc block that write it"""
    res: Dict[str, Set[str]] = {}
    for line in m.doc:
        body = line[2:]
        if not body.startswith('   '):
            continue
        text = re.sub(r'//.*$', '', body.strip()).rstrip(';')
        em = _EFFECT.match(text)
        if em:
            for q in set(re.findall(r'(?<![\w.])([A-Za-z_]\w*)', re.sub(r'\[[^\]]*\]', '', em.group('lhs')))) & set(m.params):
                res.setdefault(q, set()).add(em.group('op'))
    return res


def rule_carry_top(rep: Report, stl: Stl, prop: str, files: List[str], floor: int, w: int = 64) -> None:
    rule = f'{prop}.CARRY-TOP'
    rep.rule(rule, 'a vector that a macro first assigns over K cells (documented plain assignment: zero / mov / set) and then updates '
             'arithmetically in place (a callee documented `+=`, `-=`, `++`, `--`) is updated up to its top cell: the update '
             'extent ends where the assigned extent ends, so a carry / borrow out of the updated part is not lost inside the '
             'value (`zero K1, x` followed by `add K2, x, ..` with K2 < K1 drops the carry into the top cells). Footprints for size '
             'parameters in {4,5,8}; two reasoned exceptions', floor)
    fpx = Footprints(stl, w)
    dw = 2 * w
    used: Set[Tuple[str, int, str, str]] = set()
    for key, m in sorted(stl.macros.items()):
        if m.file not in files:
            continue
        names = size_params(fpx, key)
        if names is None:
            continue
        tracked = set(scratch_cells(m)) | {p for p in m.params if p not in names}
        if not tracked:
            continue
        verdict: Dict[Tuple[str, int, str], List[str]] = {}
        for combo in itertools.product(*[EXTRA_SIZES.get(nm, SIZES) for nm in names]):
            sz = tuple(zip(names, combo))
            pre = PRECONDITIONS.get(key)
            if pre is not None and not pre(dict(sz)):
                continue
            env: Dict[str, Any] = dict(fpx.base)
            for q in m.params:
                env[q] = {q: 1}
            env.update(dict(sz))
            try:
                touches = fpx.stmt_touches(key, sz, tracked)
            except (NeedConcrete, OpaqueValue, AnalysisError, ZeroDivisionError):
                continue
            top: Dict[str, int] = {}
            for idx, op in enumerate(m.body):
                if op[0] not in ('call', 'rep'):
                    continue
                name, args = (op[1], op[2]) if op[0] == 'call' else (op[3], op[4])
                cal = stl.macros.get((name, len(args)))
                if cal is None:
                    continue
                eff, ops = doc_effects(cal), doc_update_ops(cal)
                env2 = dict(env)
                if op[0] == 'rep':
                    env2[op[2]] = 0
                for q, a in zip(cal.params, args):
                    try:
                        lf = ev(a, env2)
                    except (NeedConcrete, OpaqueValue, AnalysisError):
                        continue
                    syms = [k for k in lf if k != '']
                    if len(syms) != 1 or syms[0] not in tracked or lf[syms[0]] != 1 or not touches[idx][syms[0]]:
                        continue
                    L = syms[0]
                    t = max(touches[idx][L]) // dw + 1
                    if eff.get(q) == 'assign':
                        top[L] = max(top.get(L, 0), t)
                    elif eff.get(q) == 'update' and (ops.get(q, set()) & _ARITH_UPDATES) and L in top:
                        bad = verdict.setdefault((L, op[-1], name), [])
                        if t < top[L]:
                            bad.append(f'{dict(sz)}: `{name}` updates {L} up to cell {t} of the {top[L]} cells assigned before it')
        for (L, line, name), bad in sorted(verdict.items()):
            order_ = [nm_ for nm_, _ in sorted(scratch_cells(m).items(), key=lambda t: t[1])]
            exc = (key[0], key[1], f'#{order_.index(L)}' if L in order_ else L, name)
            if bad and exc in CARRY_TOP_EXCEPTIONS:
                used.add(exc)
                rep.ok(rule, f'{key[0]}/{key[1]}:{L}:line {line} {name}', f'listed exception: {CARRY_TOP_EXCEPTIONS[exc]}', f'{m.file}:{line} {m.name}')
                continue
            rep.check(not bad, rule, f'{key[0]}/{key[1]}:{L}:line {line} {name}', bad[0] if bad else 'the update reaches the top of the assigned extent',
                      f'{m.file}:{line} {m.name}', expected='update extent ends at the top cell of the assigned extent')
    for exc in CARRY_TOP_EXCEPTIONS:
        mm_ = stl.macros.get((exc[0], exc[1]))
        if mm_ is not None and mm_.file in files and exc not in used:
            rep.notes.append(f'{rule}: the listed exception {exc} no longer applies (remove it after review)')


# ---------------------------------------------------------------- FJ.BYTE-CLASS (input parsers: which bytes go where)

_CHAR = r"'(\\?.)'"


def _char_value(c: str) -> Optional[int]:
    if len(c) == 1:
        return ord(c)
    return {'\\n': 10, '\\0': 0, '\\t': 9, '\\r': 13, '\\\\': 92, "\\'": 39}.get(c)


def doc_char_sets(m: Macro) -> List[Tuple[str, frozenset]]:
    """the character classes a macro's doc block names: quoted ranges `'0'..'9'` / `'0'-'9'`, quoted single characters `'-'`,
    `'\\n'`, and the unquoted `0-9,a-f,A-F` list after the word `supports`."""
    out: List[Tuple[str, frozenset]] = []
    for line in m.doc:
        rest = line
        for a, b in re.findall(_CHAR + r"\s*(?:\.\.|-)\s*" + _CHAR, line):
            va, vb = _char_value(a), _char_value(b)
            if va is not None and vb is not None and va <= vb:
                out.append((f"'{a}'..'{b}'", frozenset(range(va, vb + 1))))
        rest = re.sub(_CHAR + r"\s*(?:\.\.|-)\s*" + _CHAR, ' ', rest)
        for a in re.findall(_CHAR, rest):
            va = _char_value(a)
            if va is not None:
                out.append((f"'{a}'", frozenset([va])))
        sm = re.search(r'supports\s+([0-9A-Za-z,\- ]+)', line)
        if sm:
            for a, b in re.findall(r'([0-9A-Za-z])-([0-9A-Za-z])', sm.group(1)):
                if ord(a) <= ord(b):
                    out.append((f'{a}-{b}', frozenset(range(ord(a), ord(b) + 1))))
    seen: Set[frozenset] = set()
    uniq = []
    for t, v in out:
        if v not in seen:
            seen.add(v)
            uniq.append((t, v))
    return uniq


def rule_byte_class(rep: Report, stl: Stl, prop: str, files: List[str], floor: int, w: int = 64) -> None:
    rule = f'{prop}.BYTE-CLASS'
    rep.rule(rule, 'an input parser classifies each byte it reads by nibble tests (`hex.if_flags cell, mask, l0, l1` on the two hexes of '
             'the byte). Abstract interpretation of the macro\'s own control flow over the finite domain of the tested cells (16 values '
             'each; an input statement sets its cells to "any value", a nibble test splits the set by its mask): for every place a '
             'byte is read, the 256 byte values are partitioned by the first non-test statement (or exit) they reach. Every class '
             'other than the largest ("anything else") must be exactly a union of character classes the macro\'s doc block names '
             '(a class that continues in raw table code must contain every documented class it meets); no documented class is '
             'split; every documented range is accepted at some read of the macro or of a parser it calls', floor)
    dw = 2 * w
    accepted: Dict[Tuple[str, int], List[frozenset]] = {}
    docs: Dict[Tuple[str, int], List[Tuple[str, frozenset]]] = {}
    callees: Dict[Tuple[str, int], Set[Tuple[str, int]]] = {}
    for key, m in sorted(stl.macros.items()):
        if m.file not in files:
            continue
        body = m.body
        tests = [i for i, op in enumerate(body) if op[0] == 'call' and op[1] == 'hex.if_flags' and len(op[2]) == 4]
        if not tests:
            continue
        env: Dict[str, Any] = dict(base_env(w))
        for q in m.params:
            env[q] = {q: 1}

        def cell_of(e: Any) -> Optional[Tuple[str, int]]:
            try:
                lf = ev(e, env)
            except (OpaqueValue, NeedConcrete, AnalysisError):
                return None
            syms = [k for k in lf if k != '' and lf[k] != 0]
            if len(syms) != 1 or lf[syms[0]] != 1 or lf.get('', 0) % dw:
                return None
            return syms[0].split('.')[-1], lf.get('', 0) // dw
        cells = sorted({c for i in tests for c in [cell_of(body[i][2][0])] if c is not None})
        if not cells or len(cells) > 2:
            rep.uncovered.append(f'{key[0]}/{key[1]}: nibble tests on {len(cells)} cells (only one byte = two cells is modelled)')
            continue
        cidx = {c: k for k, c in enumerate(cells)}
        data_decl = set(scratch_cells(m).values())
        stmt_idx = [i for i, op in enumerate(body) if op[0] != 'label' and i not in data_decl]
        END = -1

        def nxt_of(i: int) -> int:
            later = [j for j in stmt_idx if j > i]
            return later[0] if later else END
        label_at: Dict[str, int] = {}
        for i, op in enumerate(body):
            if op[0] == 'label' and not (i + 1 in data_decl):
                label_at[op[1].split('.')[-1]] = nxt_of(i)

        def target(e: Any) -> Any:
            ids = {x.split('.')[-1] for x in _expr_ids(e, set())} - {'w', 'dw', 'dbit'}
            if len(ids) == 1:
                nm = next(iter(ids))
                if nm in m.params:
                    return ('exit', nm)
                if nm in label_at:
                    t = label_at[nm]
                    return ('exit', '<end>') if t == END else t
            return ('exit', '<elsewhere>')
        TOP = frozenset(itertools.product(range(16), repeat=len(cells)))

        def havoc(state: frozenset, which: List[int]) -> frozenset:
            keep = [k for k in range(len(cells)) if k not in which]
            proj = {tuple(t[k] for k in keep) for t in state}
            out = set()
            for pr in proj:
                for vals in itertools.product(range(16), repeat=len(which)):
                    t = [0] * len(cells)
                    for k, v in zip(keep, pr):
                        t[k] = v
                    for k, v in zip(which, vals):
                        t[k] = v
                    out.add(tuple(t))
            return frozenset(out)

        def written_cells(op: Tuple[Any, ...]) -> List[int]:
            """tracked cells a (non-test) statement may write, in the order the input arrives (low nibble first)"""
            if op[0] not in ('call', 'rep'):
                ids = set()
                for part in op[1:-1]:
                    if isinstance(part, (tuple, list)):
                        for e in (part if isinstance(part, list) else [part]):
                            ids |= {x.split('.')[-1] for x in _expr_ids(e, set())} if isinstance(e, tuple) else set()
                return [cidx[c] for c in cells if c[0] in ids]
            name, args = (op[1], op[2]) if op[0] == 'call' else (op[3], op[4])
            cal = stl.macros.get((name, len(args)))
            eff = doc_effects(cal) if cal is not None else {}
            out: List[int] = []
            for pos, a in enumerate(args):
                c0 = cell_of(a)
                if c0 is None:
                    continue
                q = cal.params[pos] if cal is not None and pos < len(cal.params) else None
                if q is not None and eff.get(q) == 'read':
                    continue
                if name == 'hex.input_hex' and len(args) == 1:
                    hit = [c for c in cells if c == c0]
                elif name == 'hex.input' and len(args) == 1:
                    hit = [c for c in cells if c[0] == c0[0] and c[1] in (c0[1], c0[1] + 1)]
                else:
                    hit = [c for c in cells if c[0] == c0[0]]
                out += [cidx[c] for c in sorted(hit, key=lambda c: c[1]) if cidx[c] not in out]
            return out
        # exploration: (statement, state, read tag). the tag (first input statement of the group, cells in arrival order) is set
        # by an input and cleared by the first statement that is neither an input nor a test: that statement is the byte's target
        sites: Dict[Tuple[int, Tuple[int, ...]], Dict[Any, Set[int]]] = {}
        seen: Set[Tuple[Any, frozenset, Any]] = set()
        work: List[Tuple[Any, frozenset, Any]] = [(stmt_idx[0] if stmt_idx else END, TOP, None)]
        steps = 0

        def record(tag: Any, tgt: Any, state: frozenset) -> None:
            # tag = ('open', cells in arrival order, first input statement)
            if tag is None or len(tag[1]) != 2:
                return
            lo, hi = tag[1]
            sites.setdefault((tag[2], tag[1]), {}).setdefault(tgt, set()).update(t[lo] | (t[hi] << 4) for t in state)
        while work and steps < 20000:
            steps += 1
            i, state, tag = work.pop()
            if not state or (i, state, tag) in seen:
                continue
            seen.add((i, state, tag))
            if isinstance(i, tuple) or i == END:
                record(tag, i if isinstance(i, tuple) else ('exit', '<end>'), state)
                continue
            op = body[i]
            if op[0] == 'call' and op[1] == 'hex.if_flags' and len(op[2]) == 4:
                c0 = cell_of(op[2][0])
                try:
                    mask = conc(ev(op[2][1], env))
                except (OpaqueValue, NeedConcrete, AnalysisError):
                    mask = None
                if c0 in cidx and mask is not None:
                    k = cidx[c0]
                    work.append((target(op[2][3]), frozenset(t for t in state if (mask >> t[k]) & 1), tag))
                    work.append((target(op[2][2]), frozenset(t for t in state if not (mask >> t[k]) & 1), tag))
                    continue
            if op[0] == 'fj' and op[1] in (0, None) and op[2] is not None:
                work.append((target(op[2]), state, tag))          # a plain jump
                continue
            wr = written_cells(op)
            if wr and op[0] in ('call', 'rep'):
                # consecutive inputs build one byte (low nibble first)
                if tag is not None:
                    tag2 = ('open', tuple(list(tag[1]) + [k for k in wr if k not in tag[1]]), tag[2])
                else:
                    tag2 = ('open', tuple(wr), i)
                work.append((nxt_of(i), havoc(state, wr), tag2))
                continue
            # an ordinary statement: the target of the byte read before it (if any)
            if tag is not None:
                record(tag, ('raw', i) if op[0] in ('fj', 'wflip', 'pad') else i, state)
            if op[0] in ('fj', 'wflip', 'pad'):
                continue                                    # raw table code: not followed
            nxt: List[Any] = [nxt_of(i)]
            if op[0] in ('call', 'rep'):
                for a in (op[2] if op[0] == 'call' else op[4]):
                    ids = {x.split('.')[-1] for x in _expr_ids(a, set())} - {'w', 'dw', 'dbit'}
                    if len(ids) == 1 and (next(iter(ids)) in label_at):
                        nxt.append(target(a))
            for t_ in nxt:
                work.append((t_, state, None))
        dsets = doc_char_sets(m)
        docs[key] = dsets
        callees[key] = {(op[1], len(op[2])) for op in body if op[0] == 'call'} | {(op[3], len(op[4])) for op in body if op[0] == 'rep'}
        for (site_stmt, order), cl in sorted(sites.items(), key=lambda t: t[0][0]):
            line = body[site_stmt][-1]
            inst = f'{key[0]}/{key[1]}:byte read at line {line}'
            if len(order) != 2:
                continue
            if not dsets:
                rep.uncovered.append(f'{inst}: the doc block names no character class')
                continue
            total = set().union(*cl.values())
            bad: List[str] = []
            if len(total) != 256 or sum(len(v) for v in cl.values()) != 256:
                bad.append(f'the classes do not partition the 256 byte values ({sum(len(v) for v in cl.values())} placed)')
            default = max(cl, key=lambda t: len(cl[t]))

            def show(vals: Set[int]) -> str:
                vs = sorted(vals)
                runs, a = [], None
                for v in vs + [None]:             # type: ignore[list-item]
                    if a is None:
                        a = b = v
                    elif v is not None and v == b + 1:
                        b = v
                    else:
                        runs.append(f'{a:#04x}' if a == b else f'{a:#04x}-{b:#04x}')
                        a = b = v
                return ','.join(runs[:6])

            def tname(t: Any) -> str:
                if isinstance(t, tuple):
                    return f'raw code at line {body[t[1]][-1]}' if t[0] == 'raw' else f'exit {t[1]}'
                return f'line {body[t][-1]} `{_stmt_name(body[t])}`'
            for tgt, vals in cl.items():
                if tgt == default:
                    continue
                inside = [d for _, d in dsets if d <= vals]
                meets = [(tx, d) for tx, d in dsets if d & vals]
                if isinstance(tgt, tuple) and tgt[0] == 'raw':
                    split = [tx for tx, d in meets if not d <= vals]
                    if split or not meets:
                        bad.append(f'bytes {show(vals)} continue in {tname(tgt)} but ' + (f'documented {split} is only partly among them' if split else 'no documented class is among them'))
                    else:
                        accepted.setdefault(key, []).extend(d for _, d in meets)
                    continue
                union = set().union(*inside) if inside else set()
                if union != vals:
                    bad.append(f'bytes {show(vals)} go to {tname(tgt)}: not a union of the documented classes {[tx for tx, _ in dsets]}'
                               + (f' (extra: {show(vals - union)})' if vals - union and union else ''))
                else:
                    accepted.setdefault(key, []).extend(inside)
            for tx, d in dsets:
                homes = [t for t, vals in cl.items() if d & vals]
                if len(homes) > 1:
                    bad.append(f'documented {tx} is split between {[tname(t) for t in homes]}')
            rep.check(not bad, rule, inst, bad[0] if bad else f'{len(cl)} classes: ' + '; '.join(f'{show(v)} -> {tname(t)}' for t, v in sorted(cl.items(), key=lambda t: len(t[1]))[:3]),
                      f'{m.file}:{line} {m.name}', expected=f'each class other than "anything else" is a union of {[tx for tx, _ in dsets]}')
    # every documented range is accepted somewhere: by the macro itself or by a parser it calls
    def reach(key: Tuple[str, int], seen: Set[Tuple[str, int]]) -> List[frozenset]:
        if key in seen:
            return []
        seen.add(key)
        out = list(accepted.get(key, []))
        for c in callees.get(key, set()):
            out += reach(c, seen)
        return out
    for key, dsets in sorted(docs.items()):
        m = stl.macros[key]
        for tx, d in dsets:
            if len(d) < 2:
                continue
            got = reach(key, set())
            rep.check(any(d == a or d <= a for a in got), rule, f'{key[0]}/{key[1]}:documented {tx} is accepted',
                      f'{tx} is a class of {"this macro or a parser it calls" if any(d <= a for a in got) else "no byte read"}',
                      f'{m.file}:{m.line} {m.name}', expected='some byte read sends exactly these bytes (or a documented union containing them) to one place')


# ---------------------------------------------------------------- FJ.ALIAS-SAFE (documented "works when both operands are the same variable")

def doc_alias_safe_claims(m: Macro) -> List[Tuple[str, str]]:
    """(p, q) for which the doc block promises correct behaviour when p and q are the same address."""
    text = ' '.join(l[2:].strip() for l in m.doc)
    out: List[Tuple[str, str]] = []
    for a, b in re.findall(r"[Ww]orks if\s+(\w+)\s*==\s*(\w+)", text):
        out.append((a, b))
    for a, b in re.findall(r"[Ss]afe (?:when|if)\s+(\w+) and (\w+) are (?:the )?(?:exact )?same address", text):
        out.append((a, b))
    if re.search(r"safe if they are the exact same address", text):
        for a, b in re.findall(r"[Uu]nsafe if\s+(\w+) and (\w+) overlap", text):
            out.append((a, b))
    return [(a, b) for a, b in out if a in m.params and b in m.params]


def rule_alias_safe(rep: Report, stl: Stl, prop: str, files: List[str], floor: int, w: int = 64) -> None:
    rule = f'{prop}.ALIAS-SAFE'
    rep.rule(rule, 'a macro whose documentation promises that it works when two operands are the SAME variable keeps that promise '
             'structurally: either a compile-time guard `comp_if1 p==q, <label after the body>` skips the body for that case, or - read '
             'with p and q as one variable - no statement destroys the variable (a documented plain assignment that does not read it) '
             'before a later statement reads it. Effects come from the callee doc formulas; statement order of the body', floor)
    for key, m in sorted(stl.macros.items()):
        if m.file not in files:
            continue
        claims = doc_alias_safe_claims(m)
        if not claims:
            continue
        ext = doc_extents(m)
        env: Dict[str, Any] = base_env(w)
        for prm in m.params:
            if prm not in ext:
                env[prm] = 4
        label_pos = {op[1].split('.')[-1]: i for i, op in enumerate(m.body) if op[0] == 'label'}
        for p_, q_ in claims:
            guarded = False
            destroyed_at: Optional[int] = None
            bad: Optional[str] = None
            unknown: List[str] = []
            last_effect = max([i for i, op in enumerate(m.body) if op[0] in ('call', 'rep', 'fj', 'wflip')] or [0])
            for i, op in enumerate(m.body):
                if op[0] == 'call' and op[1].split('.')[-1] in ('comp_if1', 'comp_if') and len(op[2]) >= 2:
                    c = op[2][0]
                    if isinstance(c, tuple) and c[0] == '==' and {repr(c[1]), repr(c[2])} == {repr(('id', p_)), repr(('id', q_))}:
                        tgt = op[2][1]
                        if isinstance(tgt, tuple) and tgt[0] == 'id' and label_pos.get(tgt[1], -1) > last_effect and destroyed_at is None:
                            guarded = True
                            break
                if op[0] not in ('call', 'rep'):
                    continue
                # read as one variable, an operand pair handed to a callee that documents "doesn't work if a == b" coincides
                cname, cargs = (op[1], op[2]) if op[0] == 'call' else (op[3], op[4])
                cal = stl.macros.get((cname, len(cargs)))
                if cal is not None and bad is None:
                    env_alias = dict(env)
                    env_alias[p_] = {'<same>': 1}
                    env_alias[q_] = {'<same>': 1}
                    if op[0] == 'rep':
                        env_alias[op[2]] = 0
                    for kind_, a_, b_ in doc_alias_hazards(cal):
                        if kind_ != 'equal':
                            continue
                        try:
                            fa = ev(cargs[cal.params.index(a_)], env_alias)
                            fb = ev(cargs[cal.params.index(b_)], env_alias)
                        except (NeedConcrete, OpaqueValue, AnalysisError, ValueError):
                            continue
                        if '<same>' in fa and _lin_key(fa) == _lin_key(fb):
                            bad = (f'with {p_} and {q_} the same variable, line {op[-1]} applies `{_stmt_name(op)}` - documented not to work when its '
                                   f'{a_} and {b_} coincide - to that one variable')
                try:
                    eff = _effect_on(stl, op, {p_, q_}, env)
                except (NeedConcrete, OpaqueValue, AnalysisError):
                    continue
                for v_ in (p_, q_):
                    if v_ in eff and eff[v_] is None:
                        unknown.append(f'line {op[-1]} `{_stmt_name(op)}`')
                reads = any(eff.get(v_) in ('read', 'update') for v_ in (p_, q_))
                if destroyed_at is not None and reads and bad is None:
                    bad = (f'with {p_} and {q_} the same variable, line {destroyed_at} overwrites it and line {op[-1]} `{_stmt_name(op)}` then reads it: '
                           'the documented "works when they are the same address" no longer holds')
                assigns = [v_ for v_ in (p_, q_) if eff.get(v_) == 'assign']
                if assigns and not any(eff.get(v_) in ('read', 'update') for v_ in (p_, q_)) and destroyed_at is None:
                    destroyed_at = op[-1]
            if guarded:
                rep.ok(rule, f'{key[0]}/{key[1]}:{p_}=={q_}', 'compile-time guard skips the body when both operands are the same address', f'{m.file}:{m.line} {m.name}')
            elif bad:
                rep.fail(rule, f'{key[0]}/{key[1]}:{p_}=={q_}', bad, f'{m.file}:{m.line} {m.name}', expected='a guard for the aliased case, or reads before the overwrite')
            elif unknown and destroyed_at is not None:
                rep.uncovered.append(f'{rule}: {key[0]}/{key[1]} ({p_}=={q_}): statements without a documented effect after the overwrite: {unknown[:2]}')
            else:
                rep.ok(rule, f'{key[0]}/{key[1]}:{p_}=={q_}', 'read as one variable: nothing reads it after a destroying assignment', f'{m.file}:{m.line} {m.name}')


# ---------------------------------------------------------------- FJ.SNAPSHOT (inputs are sampled before any input is modified in place)

def rule_snapshot_order(rep: Report, stl: Stl, prop: str, files: List[str], floor: int, w: int = 64) -> None:
    rule = f'{prop}.SNAPSHOT'
    rep.rule(rule, 'a macro that temporarily modifies its INPUT operands in place (an operand its documentation only reads, e.g. the sign '
             'normalisation `neg n, a` ... `neg n, a` of the signed divisions) and keeps samples of input cells in local cells (a statement '
             'whose documented effect assigns a local label from a parameter) takes every sample before the first in-place write of any '
             'OTHER input of the same documented extent: nothing in the documentation forbids passing one variable for both, and a sample '
             'taken after the write would then see the modified value. Statement order of the macro body; effects from the callee doc formulas', floor)
    for key, m in sorted(stl.macros.items()):
        if m.file not in files:
            continue
        ext = doc_extents(m)
        env: Dict[str, Any] = base_env(w)
        for p in m.params:
            if p not in ext:
                env[p] = 4
        de = doc_effects(m)
        dests = {k for k, c in de.items() if c in ('assign', 'update')}
        hazards = {frozenset((a, b)) for _, a, b in doc_alias_hazards(m)}
        labels = set(m.local) | set(m.params)
        written: List[Tuple[str, int]] = []
        samples: List[Tuple[str, str, int, List[Tuple[str, int]]]] = []
        for op in m.body:
            if op[0] not in ('call', 'rep'):
                continue
            try:
                eff = _effect_on(stl, op, labels, env)
            except (NeedConcrete, OpaqueValue, AnalysisError):
                continue
            locs = [L for L, c in eff.items() if L in m.local and c == 'assign']
            reads = [L for L, c in eff.items() if L in m.params and c == 'read' and L not in dests and L in ext]
            for p in reads if locs else []:
                prior = [(q, l) for q, l in written if q != p and ext.get(q) == ext.get(p) and frozenset((p, q)) not in hazards]
                samples.append((locs[0], p, op[-1], prior))
            for L, c in eff.items():
                if L in m.params and c in ('assign', 'update') and L not in dests and L in ext:
                    written.append((L, op[-1]))
        if not written:
            continue
        for loc, p, line, prior in samples:
            rep.check(not prior, rule, f'{key[0]}/{key[1]}:{loc} <- {p}',
                      (f'line {line} samples `{p}` into `{loc}` after line {prior[0][1]} already modified the input `{prior[0][0]}` in place: '
                       f'with {p} and {prior[0][0]} the same variable the sample reads the modified value') if prior
                      else f'sampled at line {line}, before the first in-place write of another input (line {written[0][1]})',
                      f'{m.file}:{line} {m.name}', expected='all samples precede the first in-place write of an input')


# ---------------------------------------------------------------- FJ.CONST-FITS (constants written into fixed-width vectors)

# (macro, arity) -> (radix, index of the width argument or None for one cell, index of the value argument)
CONST_WRITERS = {('hex.set', 3): (16, 0, 2), ('hex.set', 2): (16, None, 1), ('hex.vec', 2): (16, 0, 1), ('hex.hex', 1): (16, None, 0),
                 ('bit.vec', 2): (2, 0, 1), ('bit.bit', 1): (2, None, 0)}
SIGN_TESTS = {('hex.sign', 4): (16, 0, 1)}
DECREMENTS = {('hex.dec', 2): 1, ('bit.dec', 2): 1}
FIT_SAMPLES = tuple(range(1, 70)) + (100, 127, 128, 129, 200, 255, 256, 257)


def rule_const_fits(rep: Report, stl: Stl, prop: str, files: List[str], floor: int, w: int = 64) -> None:
    rule = f'{prop}.CONST-FITS'
    rep.rule(rule, 'the library writes an assembly-time constant V into a K-digit vector by emitting digit i as (V >> (i*bits)) & mask, which '
             'silently drops what does not fit. Every such site (hex.set / hex.vec / hex.hex / bit.vec / bit.bit with both K and V '
             f'assembly-time values of the enclosing macro\'s size parameters) satisfies -radix^K/2 <= V < radix^K for every sampled size '
             f'(1..69, 100, 127..129, 200, 255..257); when the same local vector is later tested with `sign` - a loop counter counting down to '
             '-1 - the value additionally leaves the sign bit free: V (minus one when every sign test directly follows a `dec` of that vector) '
             '< radix^K/2', floor)
    for key in list(CONST_WRITERS) + list(SIGN_TESTS) + list(DECREMENTS):
        if key not in stl.macros:
            raise AnalysisError(f'{rule}: the library no longer defines {key[0]}/{key[1]}; the writer table of this rule is stale')
    for key, m in sorted(stl.macros.items()):
        if m.file not in files:
            continue
        body = m.body
        stmts = [op for op in body if op[0] != 'label']
        for si, op in enumerate(body):
            if op[0] == 'call':
                name, args, it = op[1], op[2], None
            elif op[0] == 'rep':
                name, args, it = op[3], op[4], op[2]
            else:
                continue
            tab = CONST_WRITERS.get((name, len(args)))
            if tab is None:
                continue
            radix, ki, vi = tab
            names = sorted((_expr_ids(args[vi], set()) | (_expr_ids(args[ki], set()) if ki is not None else set())) & set(m.params))
            if len(names) > 2:
                continue
            vparams = _expr_ids(args[vi], set()) & set(m.params)
            kparams = (_expr_ids(args[ki], set()) if ki is not None else set()) & set(m.params)
            if vparams - kparams:
                continue            # the value is the caller's data (an operand, not a size): nothing to judge at this site
            # is the target a local vector that the macro sign-tests ?
            target = None
            if (name, len(args)) in (('hex.set', 3), ('hex.set', 2)):
                ids = _expr_ids(args[1 if len(args) == 3 else 0], set())
                if len(ids) == 1 and next(iter(ids)) in m.local:
                    target = next(iter(ids))
            else:
                # a declaration: the label directly in front of it
                if si > 0 and body[si - 1][0] == 'label':
                    target = body[si - 1][1].split('.')[-1]
            signed, slack = False, 1
            if target is not None:
                for sj, op2 in enumerate(stmts):
                    if op2[0] == 'call' and (op2[1], len(op2[2])) in SIGN_TESTS and _expr_ids(op2[2][1], set()) == {target}:
                        signed = True
                        prev = stmts[sj - 1] if sj else None
                        pj = body.index(op2)
                        after_dec = (prev is not None and prev[0] == 'call' and (prev[1], len(prev[2])) in DECREMENTS
                                     and _expr_ids(prev[2][1], set()) == {target} and body[pj - 1] is prev)
                        if not after_dec:
                            slack = 0
            evaluated, bad = 0, []
            for combo in itertools.product(*[FIT_SAMPLES for _ in names]):
                env: Dict[str, Any] = base_env(w)
                env.update(dict(zip(names, combo)))
                if it is not None:
                    env[it] = 0
                try:
                    K = conc(ev(args[ki], env)) if ki is not None else 1
                    V = conc(ev(args[vi], env))
                except (NeedConcrete, OpaqueValue, AnalysisError, ZeroDivisionError):
                    continue
                if K <= 0:
                    continue
                evaluated += 1
                top = radix ** K
                if not (-(top // 2) <= V < top):
                    bad.append(f'{dict(zip(names, combo))}: value {V} does not fit {K} radix-{radix} digit(s)')
                elif signed and not (V - slack < top // 2):
                    bad.append(f'{dict(zip(names, combo))}: counter `{target}` starts at {V} in {K} radix-{radix} digit(s) and is tested with '
                               f'`sign`: {V - slack} already reads as negative, so the loop leaves early')
                if len(bad) >= 3:
                    break
            if not evaluated:
                continue
            rep.check(not bad, rule, f'{key[0]}/{key[1]}:{name}/{len(args)}@{target or "-"}',
                      bad[0] if bad else f'{evaluated} instantiations fit' + (' with the sign bit free' if signed else ''),
                      f'{m.file}:{op[-1]} {m.name}', expected='the constant fits the declared width')


# ---------------------------------------------------------------- FJ.SP / FJ.PTR-STRIDE (C08)

SP = 'hex.pointers.sp'


def sp_delta(stl: Stl, key: Tuple[str, int], env: Dict[str, Any], depth: int = 0) -> Dict[str, int]:
    """net stack-pointer change of a macro, as a linear form (in cells)."""
    if depth > 30:
        raise AnalysisError(f'sp_delta recursion at {key}')
    m = stl.macros[key]
    total: Dict[str, int] = {'': 0}
    for op in m.body:
        if op[0] == 'call':
            name, args, iters = op[1], op[2], [None]
        elif op[0] == 'rep':
            name, args = op[3], op[4]
            iters = list(range(max(conc(ev(op[1], env)), 0)))
        else:
            continue
        ck = (name, len(args))
        if ck not in stl.macros:
            continue
        for i in iters:
            e1 = dict(env)
            if i is not None:
                e1[op[2]] = i
            d: Dict[str, int] = {'': 0}
            try:
                first = ev(args[0], e1) if args else {}
            except NeedConcrete:
                first = {}
            if name in ('hex.ptr_inc', 'hex.ptr_dec', 'hex.ptr_add', 'hex.ptr_sub') and _lin_key(first) == _lin_key({SP: 1, '': 0}):
                if name == 'hex.ptr_inc':
                    d = {'': 1}
                elif name == 'hex.ptr_dec':
                    d = {'': -1}
                elif name == 'hex.ptr_add':
                    d = ev(args[1], e1)
                else:
                    d = {k: -v for k, v in ev(args[1], e1).items()}
            else:
                cal = stl.macros[ck]
                env2 = dict(base_env(env['w']))
                for p, a in zip(cal.params, args):
                    try:
                        env2[p] = ev(a, e1)
                    except NeedConcrete:
                        env2[p] = {p: 1}
                try:
                    d = sp_delta(stl, ck, env2, depth + 1)
                except NeedConcrete:
                    d = {'': 0} if not _mentions_sp(stl, ck, set()) else (_ for _ in ()).throw(AnalysisError(f'sp effect of {ck} needs a concrete size'))
            total = lin_add(total, d, 1)
    return total


def _mentions_sp(stl: Stl, key: Tuple[str, int], seen: Set[Tuple[str, int]]) -> bool:
    if key in seen or key not in stl.macros:
        return False
    seen.add(key)
    m = stl.macros[key]
    if SP in m.glob:
        return True
    for op in m.body:
        if op[0] == 'call' and _mentions_sp(stl, (op[1], len(op[2])), seen):
            return True
        if op[0] == 'rep' and _mentions_sp(stl, (op[3], len(op[4])), seen):
            return True
    return False


def rule_sp(rep: Report, stl: Stl, w: int = 64) -> None:
    rule = 'C08.SP'
    rep.rule(rule, 'stack-pointer effect summaries (sp_inc +1, sp_dec -1, sp_add/sub +-v, composed over calls, multiplied by rep counts): '
             'push_* = +1 with the write after the increment, pop_* = -1 with the read before the decrement, push n / pop n have opposite '
             'deltas (n+1)/2 for n = 0..8, stl.call nets 0 around the jump (and -k with an argument count) using one return label', 14)
    env = dict(base_env(w))

    def delta(name: str, ar: int, extra: Optional[Dict[str, Any]] = None) -> Dict[str, int]:
        e = dict(env)
        m = stl.macros[(name, ar)]
        for p in m.params:
            e[p] = {p: 1}
        e.update(extra or {})
        return sp_delta(stl, (name, ar), e)

    for name, want in (('hex.sp_inc', 1), ('hex.sp_dec', -1), ('hex.push_hex', 1), ('hex.push_byte', 1), ('hex.push_ret_address', 1),
                       ('hex.pop_hex', -1), ('hex.pop_byte', -1), ('hex.pop_ret_address', -1)):
        ar = [a for (n, a) in stl.macros if n == name][0]
        d = delta(name, ar)
        m = stl.macros[(name, ar)]
        rep.check(_lin_key(d) == _lin_key({'': want}), rule, f'{name}:delta', f'net sp change {d}', f'{m.file}:{m.line}', expected=f'{want:+d}')
    for name, first, last in (('hex.push_hex', 'hex.sp_inc', 'hex.write_hex'), ('hex.push_byte', 'hex.sp_inc', 'hex.write_byte'),
                              ('hex.push_ret_address', 'hex.sp_inc', 'hex.ptr_wflip_2nd_word'), ('hex.pop_hex', 'hex.read_hex', 'hex.sp_dec'),
                              ('hex.pop_byte', 'hex.read_byte', 'hex.sp_dec'), ('hex.pop_ret_address', 'hex.ptr_wflip_2nd_word', 'hex.sp_dec')):
        m = stl.macros[(name, 1)]
        seq = [op[1] for op in m.body if op[0] == 'call']
        rep.check(seq[0] == first and seq[-1] == last, rule, f'{name}:order', str(seq), f'{m.file}:{m.line}',
                  expected=f'{first} ... {last} (the cell accessed is the one sp points at)')
    bad = []
    for n in range(0, 9):
        dp = delta('hex.push', 2, {'n': n})
        dq = delta('hex.pop', 2, {'n': n})
        if conc(dp) != (n + 1) // 2 or conc(dq) != -((n + 1) // 2):
            bad.append((n, dp, dq))
    m = stl.macros[('hex.push', 2)]
    rep.check(not bad, rule, 'hex.push/pop n:balanced', 'push n = +(n+1)/2 and pop n = -(n+1)/2 for n = 0..8' if not bad else str(bad[:2]), f'{m.file}:{m.line}')
    # pop n reads the cells in the reverse order of push n (same cell sequence reversed), for n = 1..8
    badc = []
    for n in range(1, 9):
        push_cells = _stack_cell_sequence(stl, ('hex.push', 2), n, w)
        pop_cells = _stack_cell_sequence(stl, ('hex.pop', 2), n, w)
        if push_cells != pop_cells[::-1]:
            badc.append((n, push_cells, pop_cells))
    rep.check(not badc, rule, 'hex.push/pop n:lifo-order', 'pop n visits the operand cells of push n in reverse order' if not badc else str(badc[:1]),
              f'{m.file}:{m.line}')
    for ar, want in ((1, {'': 0}), (2, None)):
        m = stl.macros[('stl.call', ar)]
        seq = [(op[1], op[2]) for op in m.body if op[0] == 'call']
        labels = [a[0] for n_, a in seq if n_ in ('hex.push_ret_address', 'hex.pop_ret_address')]
        same = len(labels) == 2 and labels[0] == labels[1]
        d = delta('stl.call', ar)
        okd = _lin_key(d) == _lin_key({'': 0}) if ar == 1 else _lin_key(d) == _lin_key({m.params[1]: -1, '': 0})
        rep.check(same and okd, rule, f'stl.call/{ar}', f'net sp change {d}; return label used by push/pop: {labels}', f'{m.file}:{m.line}',
                  expected='0 (and minus the argument count), one shared return label')
    ret = stl.macros[('stl.return', 0)]
    rep.check([op[1] for op in ret.body if op[0] == 'call'] == ['hex.ptr_jump'], rule, 'stl.return', str([op[1] for op in ret.body]), f'{ret.file}:{ret.line}')


def _stack_cell_sequence(stl: Stl, key: Tuple[str, int], n: int, w: int) -> List[int]:
    """operand cell offsets (in units of dw) visited by push n / pop n, in program order."""
    m = stl.macros[key]
    env = dict(base_env(w))
    env['n'] = n
    env[m.params[1]] = {m.params[1]: 1}
    out: List[int] = []
    for op in m.body:
        if op[0] != 'rep':
            continue
        times = conc(ev(op[1], env))
        width = 2 if 'byte' in op[3] else 1
        for i in range(times):
            e2 = dict(env)
            e2[op[2]] = i
            lf = ev(op[4][0], e2)
            off = lf.get('', 0) // (2 * w)
            out.extend(range(off, off + width) if 'push' in key[0] else range(off + width - 1, off - 1, -1))
    return out


def ptr_lanes(stl: Stl, key: Tuple[str, int], env: Dict[str, Any], depth: int = 0) -> Set[int]:
    """hex lanes (0 = low nibble, 1 = high nibble, ..) of the pointed cell that a macro xors into through to_flip."""
    if depth > 12:
        raise AnalysisError(f'ptr_lanes recursion at {key}')
    m = stl.macros[key]
    if key == ('hex.pointers.xor_hex_to_flip_ptr', 2):
        sh = conc(ev(('id', 'bit_shift'), env))
        if sh % 4:
            raise AnalysisError(f'xor_hex_to_flip_ptr with bit_shift {sh}')
        return {sh // 4}
    lanes: Set[int] = set()
    for op in m.body:
        if op[0] == 'call':
            items = [(op[1], op[2], env)]
        elif op[0] == 'rep':
            try:
                cnt = conc(ev(op[1], env))
            except (NeedConcrete, OpaqueValue):
                continue
            items = [(op[3], op[4], {**env, op[2]: i}) for i in range(max(cnt, 0))]
        else:
            continue
        for name, args, e2 in items:
            ck = (name, len(args))
            cal = stl.macros.get(ck)
            if cal is None or not (cal.file.endswith('xor_to_pointer.fj') or cal.file.endswith('write_pointers.fj')):
                continue
            ce = dict(base_env(env['w']))
            for q, a in zip(cal.params, args):
                try:
                    ce[q] = conc(ev(a, e2))
                except (NeedConcrete, OpaqueValue):
                    ce[q] = {q: 1}
            lanes |= ptr_lanes(stl, ck, ce, depth + 1)
    return lanes


def rule_cell_width(rep: Report, stl: Stl, w: int = 64) -> None:
    rule = 'C08.CELL-WIDTH'
    rep.rule(rule, 'read-modify-write through a pointer: the hex lanes a write macro xors back into the pointed cell are exactly the lanes '
             'of the value it combined with the fetched byte (`xor k, read_byte, src` <-> lanes 0..k-1), and hex.zero_ptr - which the '
             'return-address push relies on to clean a reused stack cell - clears every lane that any single-cell write macro can set', 4)
    env = dict(base_env(w))
    lanes: Dict[str, Set[int]] = {}
    for name in ('hex.write_hex', 'hex.write_byte'):
        key = (name, 2)
        m = stl.macros.get(key)
        if m is None:
            raise AnalysisError(f'{rule}: {name}/2 missing')
        lanes[name] = ptr_lanes(stl, key, env)
        k = None
        for op in m.body:
            if op[0] == 'call' and op[1] == 'hex.xor' and any(_expr_ids(a, set()) & {'hex.pointers.read_byte'} for a in op[2]):
                k = 1 if len(op[2]) == 2 else conc(ev(op[2][0], env))
        rep.check(k is not None and lanes[name] == set(range(k)), rule, f'{name}/2:rmw-width', f'value width {k} hex; lanes xor-ed back {sorted(lanes[name])}',
                  f'{m.file}:{m.line} {m.name}', expected='lanes 0..k-1')
    z = stl.macros.get(('hex.zero_ptr', 1))
    if z is None:
        raise AnalysisError(f'{rule}: hex.zero_ptr/1 missing')
    zl = ptr_lanes(stl, ('hex.zero_ptr', 1), env)
    need = set().union(*lanes.values())
    rep.check(zl >= need, rule, 'hex.zero_ptr/1:clears-all-lanes', f'clears lanes {sorted(zl)}; writers set lanes {sorted(need)}', f'{z.file}:{z.line} {z.name}',
              expected='a superset of every lane a write macro can set')
    users = [k for k, m in stl.macros.items() if any(op[0] == 'call' and op[1] == 'hex.zero_ptr' for op in m.body)]
    rep.check(('hex.push_ret_address', 1) in users, rule, 'hex.zero_ptr/1:users', str(sorted(users)), f'{z.file}:{z.line}',
              expected='used by the return-address push before the address is xor-ed in')


def rule_ptr_stride(rep: Report, stl: Stl) -> None:
    rule = 'C08.PTR-STRIDE'
    rep.rule(rule, 'pointer arithmetic moves by whole cells: ptr_inc/dec add/subtract exactly dw, ptr_add/sub exactly value*dw, all over '
             'w/4 hexes; ptr_index scales the index by 2w: net left shift 4 + 4 - (8 - #w) = #w = log2(2w) bits for w in {16,32,64}', 6)
    for name, callee, amount in (('hex.ptr_inc', 'hex.add_constant', 'dw'), ('hex.ptr_dec', 'hex.sub_constant', 'dw'),
                                 ('hex.ptr_add', 'hex.add_constant', 'value*dw'), ('hex.ptr_sub', 'hex.sub_constant', 'value*dw')):
        ar = 1 if amount == 'dw' else 2
        m = stl.macros[(name, ar)]
        ops = [op for op in m.body if op[0] == 'call']
        ok = len(ops) == 1 and ops[0][1] == callee and len(ops[0][2]) == 3
        detail = ''
        if ok:
            for w in (16, 32, 64):
                env = dict(base_env(w))
                for p in m.params:
                    env[p] = {p: 1}
                n_l, p_l, c_l = ev(ops[0][2][0], env), ev(ops[0][2][1], env), ev(ops[0][2][2], env)
                want_c = {'': 2 * w} if amount == 'dw' else {'value': 2 * w}
                if _lin_key(n_l) != _lin_key({'': w // 4}) or _lin_key(p_l) != _lin_key({'ptr': 1, '': 0}) or _lin_key(c_l) != _lin_key({**want_c, '': want_c.get('', 0)}):
                    ok = False
                    detail = f'w={w}: n={n_l} ptr={p_l} amount={c_l}'
        rep.check(ok, rule, name, detail or f'{callee} w/4, ptr, {amount}', f'{m.file}:{m.line}', expected=f'{callee} w/4, ptr, {amount}')
    # the bit-vector pointers: +-1 applied at the bit whose weight is 2w (cell #w = log2(2w)), with a carry chain that reaches
    # the pointer's top bit (start cell + length == w), for every width
    for name, callee in (('bit.ptr_inc', 'bit.inc'), ('bit.ptr_dec', 'bit.dec')):
        m = stl.macros[(name, 1)]
        ops = [op for op in m.body if op[0] == 'call']
        ok = len(ops) == 1 and ops[0][1] == callee and len(ops[0][2]) == 2
        detail = ''
        if ok:
            for w in (16, 32, 64):
                env = dict(base_env(w))
                env['ptr'] = {'ptr': 1}
                try:
                    n_v = conc(ev(ops[0][2][0], env))
                    p_l = ev(ops[0][2][1], env)
                except (NeedConcrete, OpaqueValue, AnalysisError) as ex:
                    ok, detail = False, f'w={w}: {ex}'
                    break
                cell = p_l.get('', 0) // (2 * w)
                if p_l.get('ptr') != 1 or p_l.get('', 0) % (2 * w) or (1 << cell) != 2 * w or cell + n_v != w:
                    ok = False
                    detail = f'w={w}: {callee} over {n_v} bits from cell {cell} (want cell {(2 * w).bit_length() - 1}, reaching bit w-1: {w - ((2 * w).bit_length() - 1)} bits)'
                    break
        rep.check(ok, rule, name, detail or f'{callee} from the 2w-weight bit up to the top bit, at w = 16, 32, 64', f'{m.file}:{m.line}',
                  expected='+-1 at bit log2(2w), carry chain up to bit w-1')
    m = stl.macros[('hex.ptr_index', 3)]
    seq = [(op[0], op[1] if op[0] == 'call' else op[3]) for op in m.body if op[0] in ('call', 'rep')]
    ok_shape = seq == [('call', 'hex.mov'), ('call', 'hex.shl_hex'), ('rep', 'hex.shr_bit'), ('call', 'hex.shl_hex'), ('call', 'hex.add')]
    bad = []
    if ok_shape:
        for w in (16, 32, 64):
            env = dict(base_env(w))
            for p in m.params:
                env[p] = {p: 1}
            shr = conc(ev([op for op in m.body if op[0] == 'rep'][0][1], env))
            net = 4 + 4 - shr
            if (1 << net) != 2 * w:
                bad.append((w, net))
            for op in m.body:
                args = op[2] if op[0] == 'call' else op[4] if op[0] == 'rep' else []
                if args and _lin_key(ev(args[0], env)) != _lin_key({'': w // 4}):
                    bad.append((w, 'length', op[1] if op[0] == 'call' else op[3]))
    rep.check(ok_shape and not bad, rule, 'hex.ptr_index', f'ops {seq}; problems {bad}', f'{m.file}:{m.line}', expected='index << log2(2w), then + ptr')
    last = [op for op in m.body if op[0] == 'call'][-1]
    rep.check([a if isinstance(a, int) else a for a in last[2]][1:] == [('id', 'dst'), ('id', 'ptr')], rule, 'hex.ptr_index:add', str(last[2]), f'{m.file}:{m.line}')


# ---------------------------------------------------------------- FJ.BITORDER (C09)

BITORDER_SITES = [
    # (macro, arity, callee, kind)   kind: 'addr' = x + i*k*dw ascending ; 'value' = (v >> k*i) & mask ascending
    ('stl.output_char', 1, 'stl.output_bit', 'value', 1),
    ('stl.output', 1, 'stl.output_char', 'value', 8),
    ('bit.print', 1, 'bit.output', 'addr', 1),
    ('bit.print', 2, 'bit.print', 'addr', 8),
    ('bit.input', 1, 'bit.input_bit', 'addr', 1),
    ('hex.print', 2, 'hex.print', 'addr', 2),
    ('hex.input', 2, 'hex.input', 'addr', 2),
]


def _call_sequence(m: Macro, env: Dict[str, Any]) -> List[Tuple[str, List[Lin], int]]:
    """the macro applications of a body in emission order, reps unrolled for the concrete sizes of env: (callee, linear forms of
    the arguments that evaluate, line). `rep(2, i) .output x+i*dw` and `.output x` / `.output x+dw` give the same sequence."""
    out: List[Tuple[str, List[Lin], int]] = []

    def args_of(args: List[Any], e: Dict[str, Any]) -> List[Lin]:
        res = []
        for a in args:
            try:
                res.append(ev(a, e))
            except (NeedConcrete, OpaqueValue, AnalysisError):
                res.append({'?': 1})
        return res
    for op in m.body:
        if op[0] == 'call':
            out.append((op[1], args_of(op[2], env), op[-1]))
        elif op[0] == 'rep':
            try:
                cnt = conc(ev(op[1], env))
            except (NeedConcrete, OpaqueValue, AnalysisError):
                continue
            for i in range(max(cnt, 0)):
                e2 = dict(env)
                e2[op[2]] = i
                out.append((op[3], args_of(op[4], e2), op[-1]))
    return out


def rule_bitorder(rep: Report, stl: Stl, w: int = 64) -> None:
    rule = 'C09.BITORDER'
    rep.rule(rule, 'the raw IO macros documented "lsb first" walk bits/bytes in ascending order: the i-th emitted/consumed unit is unit i '
             '(address + i*k*dw, or (value >> k*i) & mask) - the order C17 pins for the devices; hex.print/hex.input handle the low hex first', 9)
    for name, ar, callee, kind, k in BITORDER_SITES:
        m = stl.macros.get((name, ar))
        if m is None:
            raise AnalysisError(f'{rule}: {name}/{ar} missing')
        ok, detail = False, ''
        if kind == 'addr':
            # the units in emission order, however the macro spells the walk (a rep, or the calls written out)
            env = dict(base_env(w))
            for p in m.params:
                env[p] = {p: 1}
            env['n'] = 3
            seq = [(nm, a) for nm, a, _ in _call_sequence(m, env) if nm == callee]
            site = f'{m.file}:{m.line} {m.name}'
            if len(seq) < 2:
                raise AnalysisError(f'{rule}: {name}/{ar} no longer applies {callee} to at least two units')
            offs = [a[-1].get('', 0) if a else None for _, a in seq]
            ok = offs == [i * k * 2 * w for i in range(len(seq))]
            detail = f'offsets of the {len(seq)} units in order: {offs}'
        else:
            reps = [op for op in m.body if op[0] == 'rep' and op[3] == callee]
            if len(reps) != 1:
                raise AnalysisError(f'{rule}: {name}/{ar} no longer has exactly one rep of {callee}')
            op = reps[0]
            it = op[2]
            site = f'{m.file}:{op[5]} {m.name}'
            e = op[4][0]
            # (v >> (k*i)) & mask
            ok = isinstance(e, tuple) and e[0] == '&' and isinstance(e[1], tuple) and e[1][0] == '>>' and e[1][1][0] == 'id'
            if ok:
                sh = e[1][2]
                env = {it: 1}
                try:
                    ok = conc(ev(sh, {it: 1})) == k and conc(ev(sh, {it: 0})) == 0 and e[2] == (1 << k) - 1
                except NeedConcrete:
                    ok = False
            detail = f'argument {e}'
        doc = ' '.join(m.doc).lower()
        rep.check(ok, rule, f'{name}/{ar}', detail, site, expected='ascending (lsb / low byte first)')
    for name in ('hex.print', 'hex.input'):
        m = stl.macros[(name, 1)]
        seq = [(nm, a[0].get('', 0)) for nm, a, _ in _call_sequence(m, {**base_env(w), m.params[0]: {m.params[0]: 1}}) if a]
        rep.check([o for _, o in seq] == [0, 2 * w], rule, f'{name}/1', str(seq), f'{m.file}:{m.line}', expected='low hex (offset 0) then high hex (offset dw)')
    # the multi-byte bit input is documented little endian but walks the cells in descending order
    m = stl.macros[('bit.input', 2)]
    op = [o for o in m.body if o[0] == 'rep'][0]
    env = dict(base_env(w))
    env.update({m.params[0]: 2, m.params[1]: {m.params[1]: 1}})
    offs = [ev(op[4][0], {**env, op[2]: i}).get('', 0) // (2 * w) for i in range(2)]
    doc = ' '.join(m.doc).lower()
    says_le = 'little endian' in doc
    rep.check(not (says_le and offs[0] > offs[1]), rule, 'bit.input/2', f'documented "{[l for l in m.doc if "endian" in l.lower()]}"; byte i=0 is stored at cell {offs[0]}, '
              f'byte i=1 at cell {offs[1]}: the FIRST input byte becomes the MOST significant (bytes 34 12 read as 0x3412; hex.input 2 reads 0x1234)',
              f'{m.file}:{op[5]} {m.name}', expected='little endian = first byte least significant (ascending), as documented')
    # the same contradiction anywhere else in the io files: a contract that says "lsb first" / "little endian" over a single rep that
    # walks its units in DESCENDING address order
    for key, m2 in sorted(stl.macros.items()):
        if key == ('bit.input', 2) or not any(m2.file.endswith(f_) for f_ in ('bit/input.fj', 'bit/output.fj', 'hex/input.fj', 'hex/output.fj')):
            continue
        doc2 = ' '.join(m2.doc).lower()
        if 'lsb first' not in doc2 and 'little endian' not in doc2:
            continue
        reps2 = [o for o in m2.body if o[0] == 'rep' and o[4]]
        if len(reps2) != 1 or not m2.params:
            continue
        env2 = dict(base_env(w))
        for p_ in m2.params:
            env2[p_] = {p_: 1}
        for p_ in m2.params[:-1]:
            env2[p_] = 3
        try:
            o0 = ev(reps2[0][4][0], {**env2, reps2[0][2]: 0}).get('', 0)
            o1 = ev(reps2[0][4][0], {**env2, reps2[0][2]: 1}).get('', 0)
        except (NeedConcrete, OpaqueValue, AnalysisError):
            continue
        said = [l_.strip() for l_ in m2.doc if 'lsb first' in l_.lower() or 'little endian' in l_.lower()]
        rep.check(o0 <= o1, rule, f'{key[0]}/{key[1]}:documented order', f'documented "{said[0][:90]}"; unit i=0 is at offset {o0 // (2 * w)}, unit i=1 at offset {o1 // (2 * w)}'
                  + ('' if o0 <= o1 else ': the FIRST unit handled is the MOST significant one'), f'{m2.file}:{reps2[0][5]} {m2.name}',
                  expected='ascending, as documented')
