"""linexpr: a small expression IR shared by Python ast and clang JSON, a linear-form
normaliser, and a closed list of comparison idioms turned into integer intervals.

IR:  ('num', int) | ('sym', name) | ('bin', op, a, b) | ('un', op, a) | ('call', name, [args])
     | ('idx', base, index) | ('attr', base, name) | ('cmp', [ops], [operands]) | ('bool', 'and'|'or', [xs])
     | ('cond', test, a, b) | ('other', text)
Lin: dict atom -> coefficient, '' -> constant term. Atoms are canonical strings.
"""
from __future__ import annotations

import ast
from typing import Any, Callable, Dict, List, Optional, Tuple, Union

from .core import AnalysisError

IR = Tuple[Any, ...]
Lin = Dict[str, int]


class Unrecognised(AnalysisError):
    pass


# ---------------------------------------------------------------- IR from Python ast

_PY_BIN = {ast.Add: '+', ast.Sub: '-', ast.Mult: '*', ast.FloorDiv: '//', ast.Mod: '%', ast.LShift: '<<',
           ast.RShift: '>>', ast.BitOr: '|', ast.BitAnd: '&', ast.BitXor: '^', ast.Pow: '**', ast.Div: '/'}
_PY_CMP = {ast.Lt: '<', ast.LtE: '<=', ast.Gt: '>', ast.GtE: '>=', ast.Eq: '==', ast.NotEq: '!=',
           ast.In: 'in', ast.NotIn: 'not in', ast.Is: 'is', ast.IsNot: 'is not'}


def py_ir(n: ast.AST) -> IR:
    if isinstance(n, ast.Constant):
        if isinstance(n.value, bool):
            return ('num', int(n.value))
        if isinstance(n.value, int):
            return ('num', n.value)
        return ('other', repr(n.value))
    if isinstance(n, ast.Name):
        return ('sym', n.id)
    if isinstance(n, ast.Attribute):
        return ('attr', py_ir(n.value), n.attr)
    if isinstance(n, ast.BinOp):
        return ('bin', _PY_BIN.get(type(n.op), '?'), py_ir(n.left), py_ir(n.right))
    if isinstance(n, ast.UnaryOp):
        op = {ast.USub: '-', ast.Invert: '~', ast.Not: '!', ast.UAdd: '+'}[type(n.op)]
        return ('un', op, py_ir(n.operand))
    if isinstance(n, ast.Compare):
        return ('cmp', [_PY_CMP[type(o)] for o in n.ops], [py_ir(n.left)] + [py_ir(c) for c in n.comparators])
    if isinstance(n, ast.BoolOp):
        return ('bool', 'and' if isinstance(n.op, ast.And) else 'or', [py_ir(v) for v in n.values])
    if isinstance(n, ast.Call):
        return ('call', py_ir(n.func), [py_ir(a) for a in n.args])
    if isinstance(n, ast.Subscript):
        return ('idx', py_ir(n.value), py_ir(n.slice))
    if isinstance(n, ast.IfExp):
        return ('cond', py_ir(n.test), py_ir(n.body), py_ir(n.orelse))
    return ('other', ast.unparse(n))


# ---------------------------------------------------------------- IR from clang JSON

def c_ir(n: Dict[str, Any], src_of: Optional[Callable[[Dict[str, Any]], str]] = None) -> IR:
    k = n.get('kind')
    if k in ('ImplicitCastExpr', 'ParenExpr', 'ConstantExpr'):
        return c_ir(n['inner'][0], src_of)
    if k == 'CStyleCastExpr':
        return c_ir(n['inner'][-1], src_of)
    if k == 'IntegerLiteral':
        return ('num', int(n['value']))
    if k == 'DeclRefExpr':
        return ('sym', n['referencedDecl']['name'])
    if k == 'MemberExpr':
        base = c_ir(n['inner'][0], src_of)
        if n.get('isArrow') and base[0] == 'un' and base[1] == 'addr':
            base = base[2]                       # (&x)->f is x.f
        return ('attr', base, n['name'])
    if k == 'ArraySubscriptExpr':
        return ('idx', c_ir(n['inner'][0], src_of), c_ir(n['inner'][1], src_of))
    if k == 'UnaryOperator':
        op = n.get('opcode')
        if op == '*':
            inner_ = c_ir(n['inner'][0], src_of)
            if inner_[0] == 'un' and inner_[1] == 'addr':
                return inner_[2]                 # *&x is x
            return ('idx', inner_, ('num', 0))
        if op == '&':
            return ('un', 'addr', c_ir(n['inner'][0], src_of))
        if op in ('++', '--'):
            return ('un', ('post' if n.get('isPostfix') else 'pre') + op, c_ir(n['inner'][0], src_of))
        return ('un', op, c_ir(n['inner'][0], src_of))
    if k == 'BinaryOperator':
        op = n.get('opcode')
        a, b = c_ir(n['inner'][0], src_of), c_ir(n['inner'][1], src_of)
        if op in ('<', '<=', '>', '>=', '==', '!='):
            return ('cmp', [op], [a, b])
        if op == '&&':
            return ('bool', 'and', [a, b])
        if op == '||':
            return ('bool', 'or', [a, b])
        # constant sub-expressions (expanded macros such as (1 << PAGE_BITS)) are folded
        if a[0] == 'num' and b[0] == 'num' and op in ('+', '-', '*', '<<', '>>', '&', '|', '^'):
            try:
                v = {'+': a[1] + b[1], '-': a[1] - b[1], '*': a[1] * b[1], '<<': a[1] << b[1] if 0 <= b[1] < 128 else None,
                     '>>': a[1] >> b[1] if b[1] >= 0 else None, '&': a[1] & b[1], '|': a[1] | b[1], '^': a[1] ^ b[1]}[op]
            except Exception:
                v = None
            if v is not None:
                return ('num', v)
        # on unsigned operands, x / 2^k is x >> k and x % 2^k is x & (2^k - 1): one spelling for the page arithmetic
        qt = n.get('type', {}).get('qualType', '')
        if op in ('/', '%') and b[0] == 'num' and b[1] > 0 and b[1] & (b[1] - 1) == 0 and ('unsigned' in qt or 'uint' in qt or 'size_t' in qt):
            return ('bin', '>>', a, ('num', b[1].bit_length() - 1)) if op == '/' else ('bin', '&', a, ('num', b[1] - 1))
        return ('bin', op, a, b)
    if k == 'CompoundAssignOperator':
        return ('bin', n.get('opcode'), c_ir(n['inner'][0], src_of), c_ir(n['inner'][1], src_of))
    if k == 'ConditionalOperator':
        return ('cond', c_ir(n['inner'][0], src_of), c_ir(n['inner'][1], src_of), c_ir(n['inner'][2], src_of))
    if k == 'CallExpr':
        return ('call', c_ir(n['inner'][0], src_of), [c_ir(a, src_of) for a in n['inner'][1:]])
    if k == 'UnaryExprOrTypeTraitExpr':
        # sizeof reads as the type it measures, however it is spelled: sizeof(T), sizeof(*p), sizeof(a[0]), sizeof x
        t = n.get('argType', {}).get('qualType')
        if t is None and n.get('inner'):
            x = n['inner'][0]
            while x.get('kind') in ('ParenExpr', 'ImplicitCastExpr') and x.get('inner'):
                x = x['inner'][0]
            t = x.get('type', {}).get('qualType')
        return ('other', f'sizeof({(t or "?").replace("const ", "").strip()})' if n.get('name', 'sizeof') == 'sizeof' else n.get('name'))
    return ('other', src_of(n) if src_of else str(k))


def ir_subst(e: Any, binding: Dict[str, IR]) -> Any:
    """e with every ('sym', name) of the binding replaced by its IR"""
    if isinstance(e, tuple):
        if e and e[0] == 'sym' and e[1] in binding:
            return binding[e[1]]
        return tuple(ir_subst(x, binding) for x in e)
    if isinstance(e, list):
        return [ir_subst(x, binding) for x in e]
    return e


def c_fn_value_ir(body: Dict[str, Any], src_of: Optional[Callable[[Dict[str, Any]], str]] = None) -> Optional[IR]:
    """the value of a side-effect-free C function as ONE expression over its parameters. the body may be made of `return E;`,
    `if (C) ... [else ...]`, declarations of locals, plain assignments to locals and `(void)x;`; locals are substituted forward
    on every path, so `if (c) v = A; else v = B; return f(v);` reads `c ? f(A) : f(B)`. None when the body has any other
    statement (a loop, a call statement, a store through a pointer / member)."""
    def unwrap(n: Dict[str, Any]) -> Dict[str, Any]:
        while n.get('kind') in ('ParenExpr', 'ImplicitCastExpr') and n.get('inner'):
            n = n['inner'][0]
        return n

    def of(stmts: List[Dict[str, Any]], env: Dict[str, IR], fuel: List[int]) -> Optional[IR]:
        fuel[0] -= 1
        if not stmts or fuel[0] < 0:
            return None
        st = stmts[0]
        k = st.get('kind')
        if k == 'CompoundStmt':
            return of([x for x in st.get('inner', []) if isinstance(x, dict)] + stmts[1:], env, fuel)
        if k == 'ReturnStmt' and st.get('inner'):
            return ir_subst(c_ir(st['inner'][0], src_of), env)
        if k == 'IfStmt':
            inner = st['inner']
            then = of([inner[1]] + stmts[1:], dict(env), fuel)
            if then is None:
                return None
            other = of(([inner[2]] if len(inner) > 2 else []) + stmts[1:], dict(env), fuel)
            if other is None:
                return None
            return ('cond', ir_subst(c_ir(inner[0], src_of), env), then, other)
        if k == 'DeclStmt':
            for d in st.get('inner', []):
                if d.get('kind') != 'VarDecl':
                    return None
                init = [c for c in d.get('inner', []) if isinstance(c, dict) and c.get('kind')]
                if init:
                    env = dict(env)
                    env[d['name']] = ir_subst(c_ir(init[-1], src_of), env)
            return of(stmts[1:], env, fuel)
        if k == 'CStyleCastExpr' and st.get('type', {}).get('qualType') == 'void':
            return of(stmts[1:], env, fuel)
        if k == 'NullStmt':
            return of(stmts[1:], env, fuel)
        if k == 'BinaryOperator' and st.get('opcode') == '=':
            l0 = unwrap(st['inner'][0])
            if l0.get('kind') == 'DeclRefExpr' and l0.get('referencedDecl', {}).get('kind') == 'VarDecl':
                env = dict(env)
                env[l0['referencedDecl']['name']] = ir_subst(c_ir(st['inner'][1], src_of), env)
                return of(stmts[1:], env, fuel)
        return None
    return of([body], {}, [400])


def eval_ir(e: IR, env: Dict[str, int]) -> int:
    """fold an IR expression for given integer values of its symbols (keys: show() of a symbol / attribute); comparisons and
    boolean operators give 0 / 1. Constant folding on a grid of operand values - no repository code runs."""
    t = e[0]
    if t == 'num':
        return int(e[1])
    if t in ('sym', 'attr'):
        k = show(e)
        if k not in env:
            raise Unrecognised(f'eval_ir: unbound {k}')
        return env[k]
    if t == 'un':
        v = eval_ir(e[2], env)
        if e[1] == '-':
            return -v
        if e[1] == '~':
            return ~v
        if e[1] in ('!', 'not'):
            return int(not v)
        if e[1] == '+':
            return v
        raise Unrecognised(f'eval_ir: unary {e[1]}')
    if t == 'bin':
        a, b = eval_ir(e[2], env), eval_ir(e[3], env)
        ops = {'+': lambda: a + b, '-': lambda: a - b, '*': lambda: a * b, '<<': lambda: a << b, '>>': lambda: a >> b, '&': lambda: a & b,
               '|': lambda: a | b, '^': lambda: a ^ b, '//': lambda: a // b, '/': lambda: a // b, '%': lambda: a % b, '**': lambda: a ** b}
        if e[1] not in ops:
            raise Unrecognised(f'eval_ir: operator {e[1]}')
        return ops[e[1]]()
    if t == 'cmp':
        vals = [eval_ir(x, env) for x in e[2]]
        for op, (a, b) in zip(e[1], zip(vals, vals[1:])):
            r = {'<': a < b, '<=': a <= b, '>': a > b, '>=': a >= b, '==': a == b, '!=': a != b}.get(op)
            if r is None:
                raise Unrecognised(f'eval_ir: comparison {op}')
            if not r:
                return 0
        return 1
    if t == 'bool':
        vals = [eval_ir(x, env) for x in e[2]]
        return int(all(vals)) if e[1] == 'and' else int(any(vals))
    if t == 'cond':
        return eval_ir(e[2] if eval_ir(e[1], env) else e[3], env)
    if t == 'call' and e[1][0] == 'attr' and e[1][2] == 'bit_length' and not e[2]:
        return eval_ir(e[1][1], env).bit_length()
    raise Unrecognised(f'eval_ir: {t}')


def expand_pure_calls(ir: IR, value_of: Callable[[str], Optional[Tuple[List[str], IR]]], depth: int = 0) -> IR:
    """ir with every call of a side-effect-free unit-local function (value_of(name) -> (parameters, value expression) or None)
    replaced by that function's value on the actual arguments: `mem_width_log2(w)` reads as the conditional it computes."""
    if depth > 4:
        return ir
    if isinstance(ir, tuple):
        if ir and ir[0] == 'call' and ir[1][0] == 'sym':
            got = value_of(ir[1][1])
            args = [expand_pure_calls(a, value_of, depth) for a in ir[2]]
            if got is not None and len(got[0]) == len(args):
                return expand_pure_calls(ir_subst(got[1], dict(zip(got[0], args))), value_of, depth + 1)
            return ('call', ir[1], args)
        return tuple(expand_pure_calls(x, value_of, depth) for x in ir)
    if isinstance(ir, list):
        return [expand_pure_calls(x, value_of, depth) for x in ir]
    return ir


# ---------------------------------------------------------------- propositional reading of conditions

def bool_form(ir: IR) -> Any:
    """a condition as a propositional formula over canonical atoms: ('and'|'or', [..]), ('not', f), ('atom', text).
    comparisons are reduced to `a < b` and `a == b` atoms (a >= b is not(a < b), a > b is b < a, ...); `x != 0`, `x != NULL`
    and a bare `x` are the truthiness atom of x."""
    t = ir[0]
    if t == 'bool':
        return (ir[1], [bool_form(x) for x in ir[2]])
    if t == 'un' and ir[1] == '!':
        return ('not', bool_form(ir[2]))
    if t == 'cmp' and len(ir[1]) == 1:
        op, a, b = ir[1][0], ir[2][0], ir[2][1]
        zero = lambda x: x == ('num', 0) or x == ('sym', 'NULL') or show(x) in ('NULL', '((void *)0)')  # noqa: E731
        if op in ('==', '!='):
            if zero(b) or zero(a):
                f = bool_form(a if zero(b) else b)
                return ('not', f) if op == '==' else f
            x, y = sorted((show(a), show(b)))
            f = ('atom', f'{x} == {y}')
            return f if op == '==' else ('not', f)
        if op == '<':
            return ('atom', f'{show(a)} < {show(b)}')
        if op == '>':
            return ('atom', f'{show(b)} < {show(a)}')
        if op == '>=':
            return ('not', ('atom', f'{show(a)} < {show(b)}'))
        if op == '<=':
            return ('not', ('atom', f'{show(b)} < {show(a)}'))
    return ('atom', show(ir))


def bf_equiv(a: Any, b: Any) -> bool:
    return bf_implies([a], b) and bf_implies([b], a)


def py_bool_function(body: Any, label: str = '<fn>') -> Any:
    """the truth value a side-effect-free Python predicate returns, as ONE propositional formula over canonical atoms: the
    disjunction over its paths of (path conditions and returned expression) - `return a or b`, `if a: return True; return b` and
    `if not a: return b; return True` read alike. (forward substitution, then bool_form of each path)"""
    import ast as _ast
    from .pysubst import block_outcomes
    paths = []
    for o in block_outcomes(list(body), {}, label):
        if o.result[0] != 'return' or o.result[1] is None:
            raise Unrecognised(f'{label}: a path does not return a value')
        conj = [bool_form(py_ir(_ast.parse(c, mode='eval').body)) for c in o.conds]
        r = _ast.parse(o.result[1], mode='eval').body
        if isinstance(r, _ast.Constant) and isinstance(r.value, bool):
            if not r.value:
                continue
        else:
            conj.append(bool_form(py_ir(r)))
        paths.append(('and', conj))
    return ('or', paths)


def _bf_atoms(f: Any, out: set) -> set:
    if f[0] == 'atom':
        out.add(f[1])
    elif f[0] == 'not':
        _bf_atoms(f[1], out)
    else:
        for x in f[1]:
            _bf_atoms(x, out)
    return out


def _bf_eval(f: Any, a: Dict[str, bool]) -> bool:
    if f[0] == 'atom':
        return a[f[1]]
    if f[0] == 'not':
        return not _bf_eval(f[1], a)
    vals = [_bf_eval(x, a) for x in f[1]]
    return all(vals) if f[0] == 'and' else any(vals)


def bf_implies(facts: List[Any], goal: Any) -> bool:
    """do the facts (formulas) together imply the goal, for every truth assignment of the atoms (at most 12 atoms)"""
    import itertools
    atoms = sorted(_bf_atoms(goal, set()).union(*[_bf_atoms(f, set()) for f in facts]) if facts else _bf_atoms(goal, set()))
    if len(atoms) > 12:
        raise Unrecognised(f'too many atoms for a truth table: {atoms}')
    for vals in itertools.product((False, True), repeat=len(atoms)):
        a = dict(zip(atoms, vals))
        if all(_bf_eval(f, a) for f in facts) and not _bf_eval(goal, a):
            return False
    return True


# ---------------------------------------------------------------- printing (canonical)

def show(e: IR) -> str:
    t = e[0]
    if t == 'num':
        return str(e[1])
    if t == 'sym':
        return e[1]
    if t == 'attr':
        return f'{show(e[1])}.{e[2]}'
    if t == 'bin':
        return f'({show(e[2])}{e[1]}{show(e[3])})'
    if t == 'un':
        return f'({e[1]}{show(e[2])})'
    if t == 'idx':
        return f'{show(e[1])}[{show(e[2])}]'
    if t == 'call':
        return f'{show(e[1])}({",".join(show(a) for a in e[2])})'
    if t == 'cmp':
        out = show(e[2][0])
        for op, x in zip(e[1], e[2][1:]):
            out += f' {op} {show(x)}'
        return f'({out})'
    if t == 'bool':
        return '(' + f' {e[1]} '.join(show(x) for x in e[2]) + ')'
    if t == 'cond':
        return f'({show(e[1])}?{show(e[2])}:{show(e[3])})'
    return str(e[1])


def syms(e: IR) -> set:
    out = set()

    def rec(x: Any) -> None:
        if isinstance(x, tuple):
            if x and x[0] == 'sym':
                out.add(x[1])
            elif x and x[0] == 'attr':
                out.add(show(x))
                rec(x[1])
            else:
                for y in x[1:]:
                    rec(y)
        elif isinstance(x, list):
            for y in x:
                rec(y)
    rec(e)
    return out


# ---------------------------------------------------------------- linear forms

def lin_const(c: int) -> Lin:
    return {'': c}


def lin_add(a: Lin, b: Lin, s: int = 1) -> Lin:
    r = dict(a)
    for k, v in b.items():
        r[k] = r.get(k, 0) + s * v
    return {k: v for k, v in r.items() if v != 0 or k == ''}


def lin_scale(a: Lin, c: int) -> Lin:
    return {k: v * c for k, v in a.items() if v * c != 0 or k == ''}


def lin_is_const(a: Lin) -> bool:
    return all(k == '' for k, v in a.items() if v != 0)


def lin_eq(a: Lin, b: Lin) -> bool:
    d = lin_add(a, b, -1)
    return all(v == 0 for v in d.values())


def lin_show(a: Optional[Lin]) -> str:
    if a is None:
        return 'inf'
    parts = []
    for k in sorted(a):
        v = a[k]
        if k == '':
            continue
        if v == 0:
            continue
        parts.append(f'{"" if v == 1 else ("-" if v == -1 else str(v) + "*")}{k}')
    c = a.get('', 0)
    if c or not parts:
        parts.append(str(c))
    return ' + '.join(parts).replace('+ -', '- ')


class Env:
    """symbol environment: name -> int | IR (definition to substitute) | Lin (already normalised)."""

    def __init__(self, table: Optional[Dict[str, Any]] = None):
        self.table: Dict[str, Any] = dict(table or {})
        self._stack: List[str] = []

    def child(self, extra: Dict[str, Any]) -> 'Env':
        t = dict(self.table)
        t.update(extra)
        return Env(t)


def to_lin(e: IR, env: Env) -> Lin:
    """normalise an integer expression to a linear form; non-linear sub-terms become opaque atoms
    (their children are normalised first so equivalent spellings produce the same atom)."""
    t = e[0]
    if t == 'num':
        return {'': e[1]}
    if t in ('sym', 'attr'):
        name = show(e)
        if name in env.table:
            v = env.table[name]
            if isinstance(v, int):
                return {'': v}
            if isinstance(v, dict):
                return dict(v)
            if name in env._stack:
                return {name: 1}
            env._stack.append(name)
            try:
                return to_lin(v, env)
            finally:
                env._stack.pop()
        return {name: 1, '': 0}
    if t == 'un':
        if e[1] == '-':
            return lin_scale(to_lin(e[2], env), -1)
        if e[1] == '+':
            return to_lin(e[2], env)
        return {atom(e, env): 1, '': 0}
    if t == 'bin':
        op = e[1]
        if op == '+':
            return lin_add(to_lin(e[2], env), to_lin(e[3], env))
        if op == '-':
            return lin_add(to_lin(e[2], env), to_lin(e[3], env), -1)
        if op == '*':
            a, b = to_lin(e[2], env), to_lin(e[3], env)
            if lin_is_const(a):
                return lin_scale(b, a.get('', 0))
            if lin_is_const(b):
                return lin_scale(a, b.get('', 0))
        if op == '<<':
            a, b = to_lin(e[2], env), to_lin(e[3], env)
            if lin_is_const(b) and 0 <= b.get('', 0) < 70:
                return lin_scale(a, 1 << b.get('', 0))
        if op in ('>>', '//', '%', '&', '|', '^', '<<', '*', '/', '**'):
            a, b = to_lin(e[2], env), to_lin(e[3], env)
            if lin_is_const(a) and lin_is_const(b):
                x, y = a.get('', 0), b.get('', 0)
                try:
                    return {'': {'>>': lambda: x >> y, '//': lambda: x // y, '%': lambda: x % y, '&': lambda: x & y,
                                 '|': lambda: x | y, '^': lambda: x ^ y, '<<': lambda: x << y, '*': lambda: x * y,
                                 '/': lambda: x // y, '**': lambda: x ** y}[op]()}
                except Exception:  # noqa: BLE001
                    pass
        return {atom(e, env): 1, '': 0}
    if t == 'call':
        # w.bit_length() -> L + 1   (L = log2 w, w a power of two)
        fn = e[1]
        if fn[0] == 'attr' and fn[2] == 'bit_length' and not e[2]:
            inner = to_lin(fn[1], env)
            if lin_eq(inner, {'w': 1}):
                return {'L': 1, '': 1}
        return {atom(e, env): 1, '': 0}
    return {atom(e, env): 1, '': 0}


def atom(e: IR, env: Env) -> str:
    """canonical text of a non-linear term with linear-normalised children."""
    t = e[0]
    if t == 'bin':
        a, b = lin_show(to_lin(e[2], env)), lin_show(to_lin(e[3], env))
        if e[1] in ('&', '|', '^', '*') and b < a:
            a, b = b, a
        return f'({a}){e[1]}({b})'
    if t == 'un':
        return f'{e[1]}({lin_show(to_lin(e[2], env))})'
    if t == 'idx':
        return f'{canon(e[1], env)}[{lin_show(to_lin(e[2], env))}]'
    if t == 'call':
        return f'{canon(e[1], env)}({",".join(lin_show(to_lin(a, env)) for a in e[2])})'
    if t == 'cond':
        return f'({canon(e[1], env)}?{lin_show(to_lin(e[2], env))}:{lin_show(to_lin(e[3], env))})'
    return show(e)


def canon(e: IR, env: Env) -> str:
    if e[0] in ('num', 'bin', 'un'):
        return lin_show(to_lin(e, env))
    if e[0] in ('sym', 'attr'):
        name = show(e)
        v = env.table.get(name)
        if v is not None and not isinstance(v, (int, dict)) and name not in env._stack:
            env._stack.append(name)
            try:
                return canon(v, env)
            finally:
                env._stack.pop()
        return lin_show(to_lin(e, env))
    if e[0] == 'cmp':
        out = canon(e[2][0], env)
        for op, x in zip(e[1], e[2][1:]):
            out += f' {op} {canon(x, env)}'
        return f'({out})'
    if e[0] == 'bool':
        flat: List[IR] = []

        def fl(x: IR) -> None:
            if x[0] == 'bool' and x[1] == e[1]:
                for y in x[2]:
                    fl(y)
            else:
                flat.append(x)
        fl(e)
        return '(' + f' {e[1]} '.join(canon(x, env) for x in flat) + ')'
    return atom(e, env)


# ---------------------------------------------------------------- predicates -> intervals

class Interval:
    """integer interval [lo, hi] of one variable; bounds are Lin or None (unbounded).
    neg=True means the complement of the interval."""

    def __init__(self, var: str, lo: Optional[Lin], hi: Optional[Lin], neg: bool = False):
        self.var, self.lo, self.hi, self.neg = var, lo, hi, neg

    def __repr__(self) -> str:
        s = f'{self.var} in [{lin_show(self.lo) if self.lo is not None else "-inf"}, ' \
            f'{lin_show(self.hi) if self.hi is not None else "+inf"}]'
        return ('not ' + s) if self.neg else s

    def same(self, other: 'Interval') -> bool:
        def beq(a: Optional[Lin], b: Optional[Lin]) -> bool:
            if a is None or b is None:
                return a is None and b is None
            return lin_eq(a, b)
        return self.var == other.var and self.neg == other.neg and beq(self.lo, other.lo) and beq(self.hi, other.hi)


def _max_lo(a: Optional[Lin], b: Optional[Lin]) -> Optional[Lin]:
    if a is None:
        return b
    if b is None:
        return a
    d = lin_add(a, b, -1)
    if lin_is_const(d):
        return a if d.get('', 0) >= 0 else b
    raise Unrecognised(f'cannot order lower bounds {lin_show(a)} and {lin_show(b)}')


def _min_hi(a: Optional[Lin], b: Optional[Lin]) -> Optional[Lin]:
    if a is None:
        return b
    if b is None:
        return a
    d = lin_add(a, b, -1)
    if lin_is_const(d):
        return a if d.get('', 0) <= 0 else b
    raise Unrecognised(f'cannot order upper bounds {lin_show(a)} and {lin_show(b)}')


def _atomic(op: str, lhs: IR, rhs: IR, var: str, env: Env, unsigned: bool) -> Optional[Interval]:
    """one comparison lhs OP rhs -> interval of var, or None when var does not occur."""
    # (X >> k) OP R with X = var + rest:  the floor shift compares X against multiples of 2^k
    #   == R  <=>  R*2^k <= X <= R*2^k + 2^k - 1 ;  < R <=> X < R*2^k ;  <= R <=> X < (R+1)*2^k ;  > R <=> X >= (R+1)*2^k ;  >= R <=> X >= R*2^k
    for a_, b_, flip in ((lhs, rhs, False), (rhs, lhs, True)):
        if a_[0] == 'bin' and a_[1] == '>>' and a_[3][0] == 'num' and 0 <= a_[3][1] < 64:
            X, Rl = to_lin(a_[2], env), to_lin(b_, env)
            if X.get(var, 0) == 1 and Rl.get(var, 0) == 0:
                k2 = 1 << a_[3][1]
                restX = {kk: v for kk, v in X.items() if kk != var}
                op2 = op if not flip else {'<': '>', '<=': '>=', '>': '<', '>=': '<=', '==': '==', '!=': '!='}[op]
                base = lin_add(lin_scale(Rl, k2), restX, -1)                     # value of var at X == R*2^k
                nxt = lin_add(base, {'': k2})                                    # value of var at X == (R+1)*2^k
                if op2 == '==':
                    return Interval(var, base, lin_add(nxt, {'': 1}, -1))
                if op2 == '!=':
                    return Interval(var, base, lin_add(nxt, {'': 1}, -1), neg=True)
                if op2 == '<':
                    return Interval(var, None, lin_add(base, {'': 1}, -1))
                if op2 == '<=':
                    return Interval(var, None, lin_add(nxt, {'': 1}, -1))
                if op2 == '>':
                    return Interval(var, nxt, None)
                if op2 == '>=':
                    return Interval(var, base, None)
    L, R = to_lin(lhs, env), to_lin(rhs, env)
    cl, cr = L.get(var, 0), R.get(var, 0)
    if cl == 0 and cr == 0:
        return None
    # unsigned wrap idioms (C, uint64_t operands):   x - A [- 1] <(=) c   with c a non-negative constant/Lin
    if unsigned and cr == 0 and cl == 1 and op in ('<', '<='):
        rest = dict(L)
        rest.pop(var)
        # rest = -(A) - k  ;  x - A - k < c   =>  A + k <= x <= A + k + c - 1   (no wrap of A+k+c assumed)
        neg_rest = lin_scale(rest, -1)           # A + k
        if any(v != 0 for kk, v in rest.items() if kk != ''):   # genuinely "x - something symbolic"
            hi = lin_add(neg_rest, R)
            if op == '<':
                hi = lin_add(hi, {'': 1}, -1)
            return Interval(var, neg_rest, hi)
    d = lin_add(L, R, -1)            # d OP 0
    c = d.get(var, 0)
    if c not in (1, -1):
        raise Unrecognised(f'coefficient {c} of {var} in comparison')
    rest = {k: v for k, v in d.items() if k != var}
    bound = lin_scale(rest, -1) if c == 1 else rest           # var OP' bound
    if c == -1:
        op = {'<': '>', '<=': '>=', '>': '<', '>=': '<=', '==': '==', '!=': '!='}[op]
    if op == '<':
        return Interval(var, None, lin_add(bound, {'': 1}, -1))
    if op == '<=':
        return Interval(var, None, bound)
    if op == '>':
        return Interval(var, lin_add(bound, {'': 1}), None)
    if op == '>=':
        return Interval(var, bound, None)
    if op == '==':
        return Interval(var, bound, dict(bound))
    if op == '!=':
        return Interval(var, bound, dict(bound), neg=True)
    raise Unrecognised(f'comparison operator {op}')


def solve(pred: IR, var: str, env: Env, *, unsigned: bool = False) -> Optional[Interval]:
    """predicate -> interval of var (conjunctions intersect). Returns None if var does not occur.
    Raises Unrecognised for shapes outside the closed idiom list."""
    t = pred[0]
    if t in ('sym', 'attr'):
        name = show(pred)
        v = env.table.get(name)
        if v is not None and not isinstance(v, (int, dict)):
            return solve(v, var, env, unsigned=unsigned)
        return None
    if t == 'cmp':
        res: Optional[Interval] = None
        ops, xs = pred[1], pred[2]
        for i, op in enumerate(ops):
            if op not in ('<', '<=', '>', '>=', '==', '!='):
                raise Unrecognised(f'comparison {op}')
            iv = _atomic(op, xs[i], xs[i + 1], var, env, unsigned)
            res = _intersect(res, iv)
        return res
    if t == 'bool' and pred[1] == 'and':
        res = None
        for x in pred[2]:
            res = _intersect(res, solve(x, var, env, unsigned=unsigned))
        return res
    if t == 'bool' and pred[1] == 'or':
        # A or B  ==  not (not A and not B): a union of two one-sided ranges becomes a complemented interval
        return solve(('un', '!', ('bool', 'and', [('un', '!', x) for x in pred[2]])), var, env, unsigned=unsigned)
    if t == 'un' and pred[1] == '!':
        iv = solve(pred[2], var, env, unsigned=unsigned)
        if iv is None:
            return None
        if iv.neg:
            return Interval(iv.var, iv.lo, iv.hi, False)
        # not (x <= b)  ==  x >= b+1 ;  not (x >= a) == x <= a-1 ; not [a,b] stays a complement
        if iv.lo is None and iv.hi is not None:
            return Interval(var, lin_add(iv.hi, {'': 1}), None)
        if iv.hi is None and iv.lo is not None:
            return Interval(var, None, lin_add(iv.lo, {'': 1}, -1))
        return Interval(iv.var, iv.lo, iv.hi, True)
    if t == 'num':
        return None
    raise Unrecognised(f'predicate shape {show(pred)[:80]}')


def _intersect(a: Optional[Interval], b: Optional[Interval]) -> Optional[Interval]:
    if a is None:
        return b
    if b is None:
        return a
    if a.neg or b.neg:
        raise Unrecognised('intersection with a complemented interval')
    return Interval(a.var, _max_lo(a.lo, b.lo), _min_hi(a.hi, b.hi))


def conjuncts(pred: IR) -> List[IR]:
    if pred[0] == 'bool' and pred[1] == 'and':
        out: List[IR] = []
        for x in pred[2]:
            out.extend(conjuncts(x))
        return out
    return [pred]
