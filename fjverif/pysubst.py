"""Forward substitution over acyclic Python method bodies (a value-numbering style dataflow, no solver, nothing is run).

`method_outcomes` walks the statements of a small method in order, keeps for every local name and every `self.<attr>` the
expression it currently holds *in terms of the values at entry*, forks at `if`, inlines calls of private helper methods of the
same class, and returns one Outcome per path:

    conds    the branch conditions taken (entry-value expressions, canonical text, see pyfacts.canon_cond)
    state    final value of every assigned `self.<attr>` (canonical text)
    effects  calls / stores to anything that is not a plain attribute of self, in order, with substituted arguments
    result   ('return', text | None) | ('raise', class name) | ('fall', None)

Rules compare these outcomes with a reference transfer function, so the spelling of the body (temporaries, helper
extraction, operand order of == and of commutative &,|, statement order of independent updates) does not matter.
Loops, try, with, comprehensions with side effects and calls of non-private methods are not interpreted: a body that contains
a construct outside the subset raises AnalysisError (the rule then fails closed instead of guessing)."""
from __future__ import annotations

import ast
import copy
from dataclasses import dataclass, field
from typing import Any, Dict, List, Optional, Sequence, Tuple

from .core import AnalysisError
from .pyfacts import Repo, canon_cond, clone, dotted, norm, push_not


@dataclass
class Outcome:
    conds: List[str] = field(default_factory=list)
    state: Dict[str, str] = field(default_factory=dict)
    effects: List[str] = field(default_factory=list)
    result: Tuple[str, Optional[str]] = ('fall', None)

    def key(self) -> str:
        return f'{sorted(self.conds)} | {sorted(self.state.items())} | {self.effects} | {self.result}'


_BITWISE = (ast.BitOr, ast.BitAnd, ast.BitXor)
_COMMUTATIVE = (ast.Add, ast.Mult)       # only when an operand is an int literal (`+` also concatenates)


def simplify(e: ast.expr) -> ast.expr:
    """constant folding of integer arithmetic, removal of neutral elements, canonical operand order of commutative operators."""
    class S(ast.NodeTransformer):
        def visit_BinOp(self, node: ast.BinOp) -> ast.AST:
            self.generic_visit(node)
            a, b = node.left, node.right
            if isinstance(a, ast.Constant) and isinstance(b, ast.Constant) and isinstance(a.value, int) and isinstance(b.value, int) \
                    and not isinstance(a.value, bool) and not isinstance(b.value, bool):
                try:
                    v = {ast.Add: a.value + b.value, ast.Sub: a.value - b.value, ast.Mult: a.value * b.value,
                         ast.BitOr: a.value | b.value, ast.BitAnd: a.value & b.value, ast.BitXor: a.value ^ b.value,
                         ast.LShift: a.value << b.value if 0 <= b.value < 256 else None,
                         ast.RShift: a.value >> b.value if b.value >= 0 else None}.get(type(node.op))
                except Exception:
                    v = None
                if v is not None:
                    return ast.copy_location(ast.Constant(v), node)
            # neutral elements
            if isinstance(node.op, (ast.BitOr, ast.BitXor, ast.Add, ast.LShift, ast.RShift, ast.Sub)) and isinstance(b, ast.Constant) and b.value == 0:
                return a
            if isinstance(node.op, (ast.BitOr, ast.BitXor, ast.Add)) and isinstance(a, ast.Constant) and a.value == 0:
                return b
            # (x + c1) - c2 / (x + c1) + c2 with constants
            if isinstance(node.op, (ast.Add, ast.Sub)) and isinstance(b, ast.Constant) and isinstance(b.value, int) \
                    and isinstance(a, ast.BinOp) and isinstance(a.op, (ast.Add, ast.Sub)) and isinstance(a.right, ast.Constant) \
                    and isinstance(a.right.value, int):
                c1 = a.right.value if isinstance(a.op, ast.Add) else -a.right.value
                c2 = b.value if isinstance(node.op, ast.Add) else -b.value
                c = c1 + c2
                if c == 0:
                    return a.left
                return ast.BinOp(left=a.left, op=ast.Add() if c > 0 else ast.Sub(), right=ast.Constant(abs(c)))
            numeric = isinstance(a, ast.Constant) and isinstance(a.value, int) or isinstance(b, ast.Constant) and isinstance(b.value, int)
            if (isinstance(node.op, _BITWISE) or (isinstance(node.op, _COMMUTATIVE) and numeric)) and norm(b) < norm(a):
                return ast.BinOp(left=b, op=node.op, right=a)
            return node
    return ast.fix_missing_locations(S().visit(clone(e)))


def _text(e: Optional[ast.expr]) -> Optional[str]:
    return None if e is None else norm(simplify(e))


class _Subst(ast.NodeTransformer):
    def __init__(self, env: Dict[str, ast.expr]):
        self.env = env

    def visit_Name(self, node: ast.Name) -> ast.AST:
        if isinstance(node.ctx, ast.Load) and node.id in self.env:
            return clone(self.env[node.id])
        return node

    def visit_Attribute(self, node: ast.Attribute) -> ast.AST:
        if isinstance(node.ctx, ast.Load):
            k = norm(node)
            if k in self.env:
                return clone(self.env[k])
        return self.generic_visit(node)


def _sub(e: ast.expr, env: Dict[str, ast.expr]) -> ast.expr:
    return simplify(ast.fix_missing_locations(_Subst(env).visit(clone(e))))


PURE_CALLS = {'len', 'int', 'bool', 'min', 'max', 'abs', 'hex', 'bin', 'oct', 'isinstance', 'tuple', 'frozenset', 'range', 'ord', 'chr'}
PURE_METHODS = {'bit_length', 'get', 'startswith', 'endswith', 'to_bytes', 'encode', 'decode', 'items', 'keys', 'values', 'count', 'index'}


def _has_effectful_call(e: ast.AST) -> bool:
    for c in ast.walk(e):
        if isinstance(c, ast.Call):
            d = dotted(c.func)
            if d in PURE_CALLS:
                continue
            if isinstance(c.func, ast.Attribute) and c.func.attr in PURE_METHODS:
                continue
            return True
    return False


def _in_subset(stmts: Sequence[ast.stmt]) -> bool:
    for st in stmts:
        if isinstance(st, ast.If):
            if not (_in_subset(st.body) and _in_subset(st.orelse)):
                return False
        elif not isinstance(st, (ast.Assign, ast.AnnAssign, ast.AugAssign, ast.Return, ast.Raise, ast.Pass, ast.Expr, ast.Continue, ast.Break)):
            return False
    return True


def _size(stmts: Sequence[ast.stmt]) -> int:
    return sum(1 for st in stmts for n in ast.walk(st) if isinstance(n, ast.stmt))


def method_outcomes(repo: Repo, rel: str, cls: str, method: str, *, max_paths: int = 64, inline_public: bool = False) -> List[Outcome]:
    """inline_public: also inline small PUBLIC methods of the same class (by default only `_private` helpers are read through)"""
    from .pyfacts import hoist_value_helpers
    fn = hoist_value_helpers(repo, rel, repo.func(rel, f'{cls}.{method}'), cls)        # `f(self._advance(n))` reads as `advance; f(self.cursor)`
    own = {n: fs[-1] for n, fs in repo.methods(rel, cls).items()}
    return block_outcomes(list(fn.body), own, f'{cls}.{method}', max_paths=max_paths, env0=module_constants(repo, rel), inline_public=inline_public)


def module_constants(repo: Repo, rel: str) -> Dict[str, ast.expr]:
    """private module-level names bound exactly once to a call-free expression (lifted literals): they read like their value."""
    binds: Dict[str, ast.expr] = {}
    counts: Dict[str, int] = {}
    for st in repo.mod(rel).body:
        tg = st.targets if isinstance(st, ast.Assign) else [st.target] if isinstance(st, ast.AnnAssign) and st.value is not None else []
        for t in tg:
            if isinstance(t, ast.Name):
                counts[t.id] = counts.get(t.id, 0) + 1
                if not any(isinstance(x, ast.Call) for x in ast.walk(st.value)):       # type: ignore[arg-type]
                    binds[t.id] = st.value          # type: ignore[assignment]
    return {k: v for k, v in binds.items() if counts.get(k) == 1 and k.startswith('_')}


def _conj(test: ast.expr, positive: bool) -> List[str]:
    """the condition of a branch as a list of conjuncts (a taken `a and b` gives [a, b]; a refused `a or b` gives [not a, not b])."""
    t = push_not(test, not positive)
    parts: List[ast.expr] = []

    def split(x: ast.expr) -> None:
        if isinstance(x, ast.BoolOp) and isinstance(x.op, ast.And):
            for v in x.values:
                split(v)
        else:
            parts.append(x)
    split(t)
    return [canon_cond(x) for x in parts]


def block_outcomes(body: Sequence[ast.stmt], own: Optional[Dict[str, Any]] = None, label: str = '<block>', *,
                   max_paths: int = 64, env0: Optional[Dict[str, ast.expr]] = None, inline_public: bool = False) -> List[Outcome]:
    """outcomes of a statement list (e.g. a loop body): results are return / raise / continue / break / fall."""
    own = own or {}
    cls, method = label, ''
    outcomes: List[Outcome] = []
    counter = [0]

    def run(stmts: Sequence[ast.stmt], env: Dict[str, ast.expr], conds: List[str], effects: List[str], depth: int,
            cont: Any) -> None:
        """cont(env, conds, effects, result) is called at the end of the block or at a return/raise."""
        if len(outcomes) > max_paths:
            raise AnalysisError(f'{cls}.{method}: more than {max_paths} paths')
        for i, st in enumerate(stmts):
            rest = stmts[i + 1:]
            if isinstance(st, ast.Expr) and isinstance(st.value, ast.Constant):
                continue
            if isinstance(st, ast.Pass):
                continue
            if isinstance(st, (ast.Assign, ast.AnnAssign)):
                if isinstance(st, ast.AnnAssign):
                    if st.value is None:
                        continue
                    targets, value = [st.target], st.value
                else:
                    targets, value = st.targets, st.value
                # a call of a private helper on the right-hand side is not supported (keep the subset small)
                val = _sub(value, env)
                if _has_effectful_call(val) and all(isinstance(t, ast.Name) for t in targets):
                    # the value is computed ONCE: bind it to a canonical symbol ($1, $2, .. in binding order) instead of
                    # substituting the call text into every use (which would hide a call made twice, or made once where two were meant)
                    counter[0] += 1
                    sym = f'_v{counter[0]}'
                    effects = effects + [f'{sym} := {_text(val)}']
                    val = ast.Name(id=sym, ctx=ast.Load())
                for t in targets:
                    pairs = list(zip(t.elts, val.elts)) if isinstance(t, ast.Tuple) and isinstance(val, ast.Tuple) and len(t.elts) == len(val.elts) else [(t, val)]
                    new_env = dict(env)
                    for tt, vv in pairs:
                        if isinstance(tt, ast.Name):
                            new_env[tt.id] = vv
                        elif isinstance(tt, ast.Attribute) and norm(tt.value) == 'self':
                            new_env[norm(tt)] = vv
                        else:
                            effects = effects + [f'{_text(_sub(tt, env)) if not isinstance(tt, ast.Subscript) else norm(_sub(tt, env))} = {_text(vv)}']
                    env = new_env
                continue
            if isinstance(st, ast.AugAssign):
                cur = ast.BinOp(left=clone(st.target), op=st.op, right=st.value)
                for n in ast.walk(cur.left):
                    if hasattr(n, 'ctx'):
                        n.ctx = ast.Load()          # type: ignore[attr-defined]
                val = _sub(cur, env)
                t = st.target
                env = dict(env)
                if isinstance(t, ast.Name):
                    env[t.id] = val
                elif isinstance(t, ast.Attribute) and norm(t.value) == 'self':
                    env[norm(t)] = val
                else:
                    effects = effects + [f'{norm(t)} {type(st.op).__name__}= {_text(_sub(st.value, env))}']
                continue
            if isinstance(st, ast.If):
                test = _sub(st.test, env)
                c_true = _conj(test, True)
                c_false = _conj(test, False)
                # decided by constants?
                if isinstance(test, ast.Constant):
                    branch = st.body if test.value else st.orelse
                    run(list(branch) + list(rest), env, conds, effects, depth, cont)
                    return
                run(list(st.body) + list(rest), dict(env), conds + c_true, list(effects), depth, cont)
                run(list(st.orelse) + list(rest), dict(env), conds + c_false, list(effects), depth, cont)
                return
            if isinstance(st, ast.Return):
                cont(env, conds, effects, ('return', _text(_sub(st.value, env)) if st.value is not None else None))
                return
            if isinstance(st, (ast.Continue, ast.Break)):
                cont(env, conds, effects, ('continue' if isinstance(st, ast.Continue) else 'break', None))
                return
            if isinstance(st, ast.Raise):
                name = dotted(st.exc.func) if isinstance(st.exc, ast.Call) else (norm(st.exc) if st.exc is not None else 're-raise')
                cont(env, conds, effects, ('raise', name))
                return
            if isinstance(st, ast.Expr) and isinstance(st.value, ast.Call):
                c = st.value
                d = dotted(c.func)
                if d.startswith('self.') and d.count('.') == 1 and d.split('.')[1] in own and (d.split('.')[1].startswith('_') or inline_public) and depth < 4 \
                        and _in_subset(own[d.split('.')[1]].body) and _size(own[d.split('.')[1]].body) <= 14:
                    # inline the private helper: bind its parameters, run its body, continue with the rest of this block
                    h = own[d.split('.')[1]]
                    params = [a.arg for a in h.args.args[1:]]
                    if len(c.args) != len(params) or c.keywords:
                        raise AnalysisError(f'{cls}.{method}: helper call {norm(c)} with an unsupported argument shape')
                    henv = dict(env)
                    saved = {p: env.get(p) for p in params}
                    for p_, a in zip(params, c.args):
                        henv[p_] = _sub(a, env)

                    def after(e2: Dict[str, ast.expr], c2: List[str], f2: List[str], res: Tuple[str, Optional[str]],
                              rest: Sequence[ast.stmt] = rest, saved: Dict[str, Any] = saved) -> None:
                        if res[0] in ('raise', 'continue', 'break'):
                            cont(e2, c2, f2, res)
                            return
                        e3 = dict(e2)
                        for p2, v in saved.items():         # the helper's parameters go out of scope
                            if v is None:
                                e3.pop(p2, None)
                            else:
                                e3[p2] = v
                        run(list(rest), e3, c2, f2, depth, cont)
                    run(list(h.body), henv, conds, effects, depth + 1, after)
                    return
                effects = effects + [norm(_sub(c, env))]
                continue
            raise AnalysisError(f'{cls}.{method}: statement outside the forward-substitution subset: {norm(st)[:60]}')
        cont(env, conds, effects, ('fall', None))

    def done(env: Dict[str, ast.expr], conds: List[str], effects: List[str], result: Tuple[str, Optional[str]]) -> None:
        st = {k: _text(v) or '' for k, v in env.items() if k.startswith('self.') and _text(v) != k}
        outcomes.append(Outcome(list(conds), st, list(effects), result))

    run(list(body), dict(env0 or {}), [], [], 0, done)
    return outcomes
