"""steps: role-based event classification of the five FlipJump step implementations
(_run_featured, _run_fast, run_measured_loop, run_flat_loop_impl, run_paged_loop_impl).

A statement is classified by what it does to the role variables (ip, f, j, ops) and to program
memory, never by its text: addresses are normalised with linexpr (local definitions substituted,
w/L symbols) and compared with the reference deltas (flip word = the op's word + 0, jump word =
+1 word / +w bits).
"""
from __future__ import annotations

import ast
from typing import Any, Callable, Dict, List, Optional, Set, Tuple

from . import linexpr as lx
from .cfacts import CUnit, call_args, callee, is_assign, strip, walk
from .ccfg import build_c_cfg, loop_heads
from .core import AnalysisError
from .linexpr import Env, IR, Lin, c_ir, py_ir, to_lin
from .pycfg import Graph, Node, build_py_cfg
from .pyfacts import Repo, dotted, inline_optional_classifiers, inline_tail_return_helpers, norm, walk_no_nested

RUN_REL = 'flipjump/interpreter/fjm_run.py'
READER_REL = 'flipjump/fjm/fjm_reader.py'

# atoms that denote "the word holding bit address ip" in the three address spaces
def _ip_spaces(ip: str) -> Dict[str, str]:
    return {
        f'{ip}': 'bit',
        f'({ip})>>(L)': 'word',
        f'(({ip})>>(L))&(16383)': 'page',     # page-local offset of the op's word
        f'(16383)&(({ip})>>(L))': 'page',
    }


# ================================================================ Python side

def discover_roles_py(fn: ast.AST) -> Dict[str, str]:
    """the same discovery for the Python run loops: `j == ip` in the halt test with `ip = j` at the jump; f = the third name."""
    out: Dict[str, str] = {}
    var_assigns = {(st.targets[0].id, st.value.id) for st in ast.walk(fn) if isinstance(st, ast.Assign) and len(st.targets) == 1
                   and isinstance(st.targets[0], ast.Name) and isinstance(st.value, ast.Name)}
    for n in ast.walk(fn):
        if not isinstance(n, ast.If):
            continue
        conj = n.test.values if isinstance(n.test, ast.BoolOp) and isinstance(n.test.op, ast.And) else [n.test]
        for c in conj:
            if isinstance(c, ast.Compare) and len(c.ops) == 1 and isinstance(c.ops[0], ast.Eq) and isinstance(c.left, ast.Name) \
                    and isinstance(c.comparators[0], ast.Name):
                a, b = c.left.id, c.comparators[0].id
                pair = (a, b) if (a, b) in var_assigns else (b, a) if (b, a) in var_assigns else None
                if pair is None:
                    continue
                from .pyfacts import resolve_names as _rn
                try:
                    test_ = _rn(fn, n.test, keep=tuple(pair) + ('w', 'dw'))          # type: ignore[arg-type]   # a named condition reads as what it names
                except Exception:          # noqa: BLE001
                    test_ = n.test
                others = {x.id for x in ast.walk(test_) if isinstance(x, ast.Name)} - set(pair) - {'w', 'dw', 'memory_width'}
                if len(others) == 1:
                    out.update(ip=pair[0], j=pair[1], f=others.pop())
    for st in ast.walk(fn):
        if isinstance(st, ast.Assign) and norm(st.targets[0]) == 'statistics.op_counter' and isinstance(st.value, ast.Name):
            out['ops'] = st.value.id
    return out


class PyLoop:
    def __init__(self, repo: Repo, fname: str, roles: Dict[str, str]):
        # an extracted "finished? which cause, or None" helper reads like the tests it was extracted from
        self.fn = inline_optional_classifiers(repo, RUN_REL, repo.func(RUN_REL, fname))
        self.fn = inline_tail_return_helpers(repo, RUN_REL, self.fn)          # an extracted `read the word, or fall back` helper reads like its block
        found = discover_roles_py(self.fn)
        roles = {**roles, **{k: v for k, v in found.items() if k in roles}}
        self.repo, self.fname, self.roles = repo, fname, roles
        self.g = build_py_cfg(self.fn)
        self.loop = self._find_loop()
        self.aliases = self._aliases()
        self.env = self._env()
        self.helper_cache: Dict[str, List[str]] = {}
        self.unrecognised: List[str] = []

    def _find_loop(self) -> ast.While:
        loops = [n for n in walk_no_nested(self.fn) if isinstance(n, ast.While)]
        if len(loops) != 1:
            raise AnalysisError(f'{self.fname}: expected exactly one run loop, found {len(loops)}')
        return loops[0]

    def head(self) -> int:
        for n in self.g.nodes:
            if n.kind == 'cond' and n.extra is self.loop:
                return n.id
        raise AnalysisError(f'{self.fname}: loop head not in CFG')

    def _aliases(self) -> Dict[str, str]:
        """local name -> dotted attribute chain it was bound to before the loop (get_word = mem.get_word)."""
        out: Dict[str, str] = {}
        for st in self.fn.body:
            if isinstance(st, ast.Assign) and len(st.targets) == 1 and isinstance(st.targets[0], ast.Name):
                d = dotted(st.value)
                if d and isinstance(st.value, ast.Attribute):
                    out[st.targets[0].id] = d
                if isinstance(st.value, ast.IfExp):        # append_last_op = last_ops.append if ... else None
                    d = dotted(st.value.body)
                    if d:
                        out[st.targets[0].id] = d
        # second hop: last_ops = statistics.last_ops_addresses ; append = last_ops.append
        for k, v in list(out.items()):
            base = v.split('.')[0]
            if base in out:
                out[k] = out[base] + v[len(base):]
        return out

    def _env(self) -> Env:
        """single-definition locals become substitutable definitions; role variables stay symbolic."""
        defs: Dict[str, List[ast.expr]] = {}
        for n in walk_no_nested(self.fn):
            if isinstance(n, ast.Assign) and len(n.targets) == 1 and isinstance(n.targets[0], ast.Name):
                defs.setdefault(n.targets[0].id, []).append(n.value)
            elif isinstance(n, ast.AugAssign) and isinstance(n.target, ast.Name):
                defs.setdefault(n.target.id, []).append(n)        # type: ignore[arg-type]
        table: Dict[str, Any] = {'mem.memory_width': {'w': 1}, 'self.memory_width': {'w': 1}}
        role_names = set(self.roles.values())
        for name, vals in defs.items():
            if name in role_names or len(vals) != 1 or not isinstance(vals[0], ast.expr):
                continue
            if name == 'w':
                table['w'] = {'w': 1}
                continue
            table[name] = py_ir(vals[0])
        table.setdefault('w', {'w': 1})
        return Env(table)

    # -- address classification
    def _call_name(self, c: ast.Call) -> str:
        d = dotted(c.func)
        if d in self.aliases:
            return self.aliases[d]
        return d

    def classify_addr(self, e: ast.AST, space: str) -> Tuple[str, int]:
        """-> (root, delta): root in {'ip','f','in','other'}; delta in words (word space) or bits."""
        lin = to_lin(py_ir(e), self.env)
        return classify_lin(lin, self.roles, space)

    def events(self, node: Node) -> List[str]:
        a = node.ast
        if a is None or node.kind in ('entry', 'exit', 'except', 'join'):
            return []
        if node.kind == 'with':
            scan: List[ast.AST] = [i.context_expr for i in a.items]
        elif node.kind == 'iter':
            scan = [a.iter]
        elif node.kind == 'cond':
            scan = [a]
        else:
            scan = [a]
        ev: List[str] = []
        for root in scan:
            ev.extend(self._events_of_ast(root, node))
        return ev

    def _events_of_ast(self, root: ast.AST, node: Node) -> List[str]:
        R = self.roles
        ev: List[str] = []
        # cond nodes: halt tests reference j
        if node.kind == 'cond':
            nm = {n.id for n in ast.walk(root) if isinstance(n, ast.Name)}
            if R['j'] in nm:
                ev.append(self._halt_kind(root))
            for c in [n for n in ast.walk(root) if isinstance(n, ast.Call)]:
                ev.extend(self._call_events(c, None))
            return ev
        if isinstance(root, (ast.FunctionDef, ast.ClassDef)):
            return ev
        target = None
        value: Optional[ast.AST] = root
        if isinstance(root, ast.Assign) and len(root.targets) == 1:
            target, value = root.targets[0], root.value
        elif isinstance(root, ast.AugAssign):
            target, value = root.target, root.value
            if isinstance(target, ast.Name) and target.id == R.get('ops') and isinstance(root.op, ast.Add):
                return ['COUNT']
        # reads / calls inside the value (evaluation order: value first)
        if value is not None:
            for n in _eval_order(value):
                if isinstance(n, ast.Call):
                    ev.extend(self._call_events(n, target))
                elif isinstance(n, ast.Subscript) and isinstance(n.ctx, ast.Load) and self._is_memory(n.value):
                    root_, delta = self.classify_addr(n.slice, 'word')
                    ev.extend(self._read_event(root_, delta, 'word', target, n))
        if target is not None:
            if isinstance(target, ast.Subscript) and self._is_memory(target.value):
                root_, delta = self.classify_addr(target.slice, 'word')
                if root_ == 'f' and delta == 0:
                    ev.append('FLIP')
                else:
                    self.unrecognised.append(f'store into program memory at {ast.unparse(target)}')
            elif isinstance(target, ast.Name) and target.id == R['ip'] and isinstance(value, ast.Name) \
                    and value.id == R['j']:
                ev.append('JUMP')
        return ev

    def _is_memory(self, base: ast.AST) -> bool:
        d = dotted(base)
        d = self.aliases.get(d, d)
        return d in ('mem.memory', 'memory') or d.endswith('.memory')

    def _read_event(self, root: str, delta: int, space: str, target: Optional[ast.AST], where: ast.AST) -> List[str]:
        R = self.roles
        tname = target.id if isinstance(target, ast.Name) else None
        unit = 1 if space in ('word', 'page') else None
        if root == 'ip':
            if delta == 0:
                if tname != R['f']:
                    self.unrecognised.append(f'flip-word read not bound to {R["f"]}: {ast.unparse(where)}')
                return ['FETCH_FLIP']
            if (unit == 1 and delta == 1) or (unit is None and delta == 'w'):
                if tname != R['j']:
                    self.unrecognised.append(f'jump-word read not bound to {R["j"]}: {ast.unparse(where)}')
                return ['FETCH_JUMP']
            self.unrecognised.append(f'read at ip+{delta} ({space} space): {ast.unparse(where)}')
            return []
        if root == 'f':
            return ['READ_TARGET'] if delta == 0 and space == 'word' else []          # read half of the flip's read-modify-write
        if root == 'in':
            return []
        self.unrecognised.append(f'program-memory read with unclassified address: {ast.unparse(where)}')
        return []

    def _call_events(self, c: ast.Call, target: Optional[ast.AST]) -> List[str]:
        name = self._call_name(c)
        R = self.roles
        last = name.split('.')[-1]
        if name in ('statistics.register_op_address',) or name.endswith('last_ops_addresses.append'):
            return ['RECORD_IP'] if c.args and isinstance(c.args[0], ast.Name) and c.args[0].id == R['ip'] else []
        if last == 'should_break' or name == 'handle_breakpoint':
            return ['PAUSE']
        if name in ('mem.get_word',):
            root, delta = self.classify_addr(c.args[0], 'bit')
            return self._read_event(root, delta, 'bit', target, c)
        if name in ('mem._get_memory_word',):
            root, delta = self.classify_addr(c.args[0], 'word')
            return self._read_event(root, delta, 'word', target, c)
        if name == 'io_device.write_bit':
            return ['OUTPUT']
        if name == 'io_device.read_bit':
            return ['INPUT']
        if name == 'mem.write_bit':
            root, delta = self.classify_addr(c.args[0], 'bit')
            if root == 'f' and delta == 0:
                return ['FLIP']
            if (root == 'in' and delta == 0) or self._is_input_bit(c.args[1]):
                return ['INPUT_STORE']       # the address itself is judged by C01.GUARDS (INPUT_ADDR)
            self.unrecognised.append(f'write_bit at unclassified address: {ast.unparse(c)}')
            return []
        if name == 'mem.read_bit':
            root, delta = self.classify_addr(c.args[0], 'bit')
            return ['READ_TARGET'] if root == 'f' and delta == 0 else []         # read half of write_bit(f, not read_bit(f))
        if name == 'statistics.register_op':
            return ['COUNT']
        if name in ('_handle_output', '_handle_input'):
            return self._helper_summary(name, c)
        return []

    def _is_input_bit(self, v: ast.AST) -> bool:
        """v is a local that is assigned from the device's read_bit call."""
        if not isinstance(v, ast.Name):
            return False
        for n in walk_no_nested(self.fn):
            if isinstance(n, ast.Assign) and isinstance(n.targets[0], ast.Name) and n.targets[0].id == v.id \
                    and isinstance(n.value, ast.Call) and self._call_name(n.value) == 'io_device.read_bit':
                return True
        return False

    def _helper_summary(self, name: str, call: ast.Call) -> List[str]:
        """one level of inlining: classify the helper's own statements in source order."""
        if name in self.helper_cache:
            return self.helper_cache[name]
        fn = self.repo.func(RUN_REL, name)
        params = [a.arg for a in fn.args.args]
        amap: Dict[str, str] = {}
        for p, a in zip(params, call.args):
            if isinstance(a, ast.Name):
                amap[p] = a.id
        inv = {v: k for k, v in self.roles.items()}
        roles = dict(self.roles)
        for p, a in amap.items():
            if a in inv:
                roles[inv[a]] = p
        sub = PyLoop.__new__(PyLoop)
        sub.repo, sub.fname, sub.roles, sub.fn = self.repo, name, roles, fn
        sub.aliases = {}
        sub.helper_cache = {}
        sub.unrecognised = self.unrecognised
        sub.env = PyLoop._env(sub)
        ev: List[str] = []
        for st in walk_no_nested(fn):
            if isinstance(st, (ast.Assign, ast.Expr, ast.AugAssign)):
                n = Node(0, 'stmt', st)
                ev.extend(sub._events_of_ast(st.value if isinstance(st, ast.Expr) else st, n))
        self.helper_cache[name] = ev
        return ev

    def _halt_kind(self, test: ast.AST) -> str:
        R = self.roles
        nm = {n.id for n in ast.walk(test) if isinstance(n, ast.Name)}
        if R['ip'] in nm:
            return 'LOOPTEST'
        return 'NULLTEST'


def _eval_order(e: ast.AST) -> List[ast.AST]:
    """sub-expressions in (approximate) evaluation order: children before parents."""
    out: List[ast.AST] = []

    def rec(n: ast.AST) -> None:
        if isinstance(n, (ast.Lambda, ast.FunctionDef)):
            return
        for c in ast.iter_child_nodes(n):
            rec(c)
        out.append(n)
    rec(e)
    return out


def classify_lin(lin: Lin, roles: Dict[str, str], space: str) -> Tuple[str, Any]:
    """address linear form -> (root, delta). delta is an int (words) or 'w' (one word in bit space)."""
    ip, f = roles['ip'], roles['f']
    atoms = {k: v for k, v in lin.items() if k != '' and v != 0}
    const = lin.get('', 0)
    ipsp = _ip_spaces(ip)
    fsp = _ip_spaces(f)
    # in_addr = 3w + L + 1
    if atoms == {'w': 3, 'L': 1} and const == 1:
        return 'in', 0
    for a, sp in ipsp.items():
        if atoms.get(a) == 1:
            rest = {k: v for k, v in atoms.items() if k != a}
            if not rest:
                return 'ip', const
            if sp == 'bit' and rest == {'w': 1} and const == 0:
                return 'ip', 'w'
            return 'ip', f'+{lx.lin_show({**rest, "": const})}'
    for a, sp in fsp.items():
        if atoms.get(a) == 1:
            rest = {k: v for k, v in atoms.items() if k != a}
            if not rest and const == 0:
                return 'f', 0
            return 'f', f'+{lx.lin_show({**rest, "": const})}'
    return 'other', lx.lin_show(lin)


# ================================================================ C side

MEM_BASE_MARKERS = ('.flat', 'op_words', '.page_cache_words', '.words', 'flat')


def discover_roles_c(cu: CUnit, fname: str) -> Dict[str, str]:
    """the step variables of a C run loop found by what they do (so a consistent rename changes nothing):
    ops  - the local copied into self->last_run_op_count;
    ip,j - the two locals of the self-loop halt test `j == ip` (a conjunct comparing two plain locals for equality), ip being
           the one that is assigned from the other at the jump (`ip = j`);
    f    - the remaining non-const local of that halt test (the flip address of the self-flip exception)."""
    body = cu.body(fname)
    out: Dict[str, str] = {}
    for n in walk(body):
        if is_assign(n):
            l0, r0 = strip(n['inner'][0]), strip(n['inner'][1])
            if l0.get('kind') == 'MemberExpr' and l0.get('name') == 'last_run_op_count' and r0.get('kind') == 'DeclRefExpr':
                out['ops'] = r0['referencedDecl']['name']
    var_assigns = set()
    for n in walk(body):
        if is_assign(n):
            l0, r0 = strip(n['inner'][0]), strip(n['inner'][1])
            if l0.get('kind') == 'DeclRefExpr' and r0.get('kind') == 'DeclRefExpr':
                var_assigns.add((l0['referencedDecl']['name'], r0['referencedDecl']['name']))
    consts = {d['name'] for d in walk(body) if d.get('kind') == 'VarDecl' and 'const' in d.get('type', {}).get('qualType', '').split('*')[-1]}
    params = set(cu.params(fname))
    for n in walk(body):
        if n.get('kind') != 'IfStmt':
            continue
        cond = n['inner'][0]
        for c in lx.conjuncts(c_ir(cond, cu.src_of)):
            if c[0] == 'cmp' and list(c[1]) == ['=='] and c[2][0][0] == 'sym' and c[2][1][0] == 'sym':
                a, b = c[2][0][1], c[2][1][1]
                pair = (a, b) if (a, b) in var_assigns else (b, a) if (b, a) in var_assigns else None
                if pair is None:
                    continue
                ipv, jv = pair
                out.update(ip=ipv, j=jv)
    if 'ip' in out:
        # f: the local V of the self-flip exception `V - ip < 2w` (in the halt test itself or in the cold block it jumps to)
        cands = set()
        for n in walk(body):
            if n.get('kind') in ('IfStmt',):
                for x in walk(n['inner'][0]):
                    if x.get('kind') == 'BinaryOperator' and x.get('opcode') == '-':
                        l0, r0 = strip(x['inner'][0]), strip(x['inner'][1])
                        if l0.get('kind') == 'DeclRefExpr' and r0.get('kind') == 'DeclRefExpr' and r0['referencedDecl']['name'] == out['ip']:
                            cands.add(l0['referencedDecl']['name'])
        cands -= consts | params | {out['j']}
        if len(cands) == 1:
            out['f'] = cands.pop()
    return out


class CLoop:
    def __init__(self, cu: CUnit, fname: str, roles: Dict[str, str], consts: Optional[Dict[str, int]] = None):
        found = discover_roles_c(cu, fname) if fname in cu.funcs and set(roles) >= {'ip', 'j'} and roles.get('ip') != '__none__' else {}
        roles = {**roles, **{k: v for k, v in found.items() if k in roles}}
        self.cu, self.fname, self.roles = cu, fname, roles
        self.consts = dict(consts or {})
        self.g = build_c_cfg(cu, fname, self.consts)
        self.env = self._env()
        self.unrecognised: List[str] = []

    def clone_name(self) -> str:
        if not self.consts:
            return self.fname
        return self.fname + '[' + ','.join(f'{k}={v}' for k, v in sorted(self.consts.items())) + ']'

    def head(self) -> int:
        """the head of the per-op loop: the loop head (do / for join, or while condition) closest after the jump `ip = j` -
        whatever statement kind spells the loop."""
        heads = [n.id for n in self.g.nodes if (n.kind == 'join' and n.name in ('do-head', 'for-head')) or (n.kind == 'cond' and n.name == 'while')]
        if not heads:
            raise AnalysisError(f'{self.fname}: per-op loop head not found')
        ipn, jn = self.roles.get('ip'), self.roles.get('j')
        jumps = [n.id for n in self.g.nodes if n.kind == 'stmt' and isinstance(n.ast, dict) and is_assign(n.ast)
                 and self.cu.src_of(n.ast['inner'][0]) == ipn and self.cu.src_of(strip(n.ast['inner'][1])) == jn]
        if jumps:
            dist = {jumps[0]: 0}
            work = [jumps[0]]
            while work:
                cur = work.pop(0)
                for m, _lab in self.g.succ[cur]:
                    if m not in dist:
                        dist[m] = dist[cur] + 1
                        work.append(m)
            reach = [h for h in heads if h in dist]
            if reach:
                return min(reach, key=lambda h: dist[h])
        hs = loop_heads(self.g, 'do-head') or loop_heads(self.g, 'for-head')
        return hs[0]

    def _env(self) -> Env:
        table: Dict[str, Any] = {'width': {'w': 1}, 'ww': {'L': 1}, 'self.w': {'w': 1}, 'self.ww': {'L': 1},
                                 'm.w': {'w': 1}, 'm.ww': {'L': 1}}
        for k, v in self.consts.items():
            if k not in ('width', 'ww'):      # width stays symbolic in addresses; only branches fold
                table[k] = v
        defs: Dict[str, List[IR]] = {}
        role_names = set(self.roles.values())
        src = self.cu.src_of
        for n in walk(self.cu.body(self.fname)):
            k = n.get('kind')
            if k == 'VarDecl' and n.get('inner'):
                init = [c for c in n['inner'] if isinstance(c, dict) and c.get('kind')]
                if init:
                    defs.setdefault(n['name'], []).append(c_ir(init[-1], src))
            elif is_assign(n):
                lhs = strip(n['inner'][0])
                if lhs.get('kind') == 'DeclRefExpr':
                    defs.setdefault(lhs['referencedDecl']['name'], []).append(c_ir(n['inner'][1], src))
        for name, vals in defs.items():
            if name in role_names or name in table:
                continue
            # constants-only definitions (NULL, (uint64_t)-2 markers) are ignored
            real = [v for v in vals if lx.syms(v)]
            canon = {lx.show(v) for v in real}
            if len(canon) == 1:
                table[name] = real[0]
        return Env(table)

    # -- memory expressions
    def mem_address(self, e: Dict[str, Any]) -> Optional[Lin]:
        """for an lvalue/rvalue expression denoting a program-memory word: linear address
        (base marker atom + index), else None."""
        e = strip(e)
        k = e.get('kind')
        if k == 'ArraySubscriptExpr':
            base, idx = e['inner']
        elif k == 'UnaryOperator' and e.get('opcode') == '*':
            base, idx = e['inner'][0], None
        else:
            return None
        if e.get('type', {}).get('qualType', '').rstrip().endswith('*'):
            return None        # a pointer load (op_words = cache[slot]), not a program-memory word
        lin = to_lin(c_ir(base, self.cu.src_of), self.env)
        if idx is not None:
            lin = lx.lin_add(lin, to_lin(c_ir(idx, self.cu.src_of), self.env))
        markers = [a for a in lin if a and any(a.endswith(m) or m + '[' in a for m in MEM_BASE_MARKERS)
                   and 'valid' not in a and 'key_plus1' not in a]
        if not markers:
            return None
        return lin

    def halt_kind(self, cond: Dict[str, Any]) -> Optional[str]:
        """a halt test compares the jump word j directly with ip (self-loop) or with 2w (null jump)."""
        ir = c_ir(cond, self.cu.src_of)
        R = self.roles
        for c in lx.conjuncts(ir):
            if c[0] != 'cmp' or len(c[2]) != 2:
                continue
            a, b = c[2]
            other = b if a == ('sym', R['j']) else a if b == ('sym', R['j']) else None
            if other is None:
                continue
            lin = to_lin(other, self.env)
            atoms = {k for k, v in lin.items() if k and v}
            if atoms == {R['ip']}:
                return 'LOOPTEST'
            if atoms <= {'w'} and atoms:
                return 'NULLTEST'
        return None

    def classify_mem(self, lin: Lin) -> Tuple[str, Any]:
        rest = {k: v for k, v in lin.items()
                if not (k and any(k.endswith(m) or m + '[' in k for m in MEM_BASE_MARKERS))}
        rest.setdefault('', 0)
        return classify_lin(rest, self.roles, 'word')

    def events(self, node: Node) -> List[str]:
        a = node.ast
        if a is None or node.kind not in ('stmt', 'cond', 'return', 'switch'):
            return []
        R = self.roles
        ev: List[str] = []
        if node.kind == 'cond':
            hk = self.halt_kind(a)
            if hk:
                ev.append(hk)
        for n in _c_eval_order(a):
            k = n.get('kind')
            if k == 'CallExpr':
                ev.extend(self._call_events(n))
            elif k == 'VarDecl' and n.get('inner'):
                pass
            elif is_assign(n):
                ev.extend(self._assign_events(n['inner'][0], n['inner'][1]))
            elif k == 'CompoundAssignOperator':
                lin = self.mem_address(n['inner'][0])
                if lin is not None:
                    root, delta = self.classify_mem(lin)
                    if n.get('opcode') == '^=' and root == 'f' and delta == 0:
                        ev.append('FLIP')
                    else:
                        self.unrecognised.append(f'{self.cu.site(n)}: compound store to program memory '
                                                 f'{self.cu.src_of(n)}')
            elif k == 'UnaryOperator' and n.get('opcode') == '++':
                t = strip(n['inner'][0])
                if t.get('kind') == 'DeclRefExpr' and t['referencedDecl']['name'] == R['ops']:
                    ev.append('COUNT')
        return ev

    def _assign_events(self, lhs: Dict[str, Any], rhs: Dict[str, Any]) -> List[str]:
        R = self.roles
        ev: List[str] = []
        l0 = strip(lhs)
        lname = l0['referencedDecl']['name'] if l0.get('kind') == 'DeclRefExpr' else None
        # reads of program memory in the rhs
        for sub in walk(rhs):
            lin = self.mem_address(sub) if sub.get('kind') in ('ArraySubscriptExpr', 'UnaryOperator') else None
            if lin is None:
                continue
            root, delta = self.classify_mem(lin)
            if root == 'ip' and delta == 0:
                if lname != R['f']:
                    self.unrecognised.append(f'{self.cu.site(sub)}: flip-word read not bound to f')
                ev.append('FETCH_FLIP')
            elif root == 'ip' and delta == 1:
                if lname != R['j']:
                    self.unrecognised.append(f'{self.cu.site(sub)}: jump-word read not bound to j')
                ev.append('FETCH_JUMP')
            elif root == 'f' and delta == 0:
                pass       # read half of the flip
            else:
                self.unrecognised.append(f'{self.cu.site(sub)}: program-memory read at unclassified address '
                                         f'{self.cu.src_of(sub)} ({root},{delta})')
        # stores
        lin = self.mem_address(lhs)
        if lin is not None:
            root, delta = self.classify_mem(lin)
            if root == 'f' and delta == 0:
                ev.append('FLIP')
            else:
                self.unrecognised.append(f'{self.cu.site(lhs)}: store to program memory at unclassified address '
                                         f'{self.cu.src_of(lhs)}')
        elif l0.get('kind') == 'ArraySubscriptExpr':
            b = strip(l0['inner'][0])
            if b.get('kind') == 'DeclRefExpr' and b['referencedDecl']['name'] == 'last_ops_ring':
                r0 = strip(rhs)
                if r0.get('kind') == 'DeclRefExpr' and r0['referencedDecl']['name'] == R['ip']:
                    ev.append('RECORD_IP')
                else:
                    self.unrecognised.append(f'{self.cu.site(lhs)}: ring write of a non-ip value')
        elif lname == R['ip']:
            r0 = strip(rhs)
            if r0.get('kind') == 'DeclRefExpr' and r0['referencedDecl']['name'] == R['j']:
                ev.append('JUMP')
        return ev

    def _call_events(self, c: Dict[str, Any]) -> List[str]:
        cn = callee(c)
        args = call_args(c)
        R = self.roles
        if cn in ('mem_get_word_unaligned', 'mem_read_word'):
            space = 'bit' if cn == 'mem_get_word_unaligned' else 'word'
            lin = to_lin(c_ir(args[1], self.cu.src_of), self.env)
            root, delta = classify_lin(lin, self.roles, space)
            if root == 'ip' and delta == 0:
                return ['FETCH_FLIP']
            if root == 'ip' and ((space == 'bit' and delta == 'w') or (space == 'word' and delta == 1)):
                return ['FETCH_JUMP']
            self.unrecognised.append(f'{self.cu.site(c)}: {cn} at unclassified address {self.cu.src_of(args[1])}')
            return []
        if cn == 'PyObject_CallFunctionObjArgs':
            a0 = strip(args[0])
            if a0.get('kind') == 'DeclRefExpr' and a0['referencedDecl']['name'] == 'write_bit':
                return ['OUTPUT']
            return []
        if cn == 'PyObject_CallNoArgs':
            a0 = strip(args[0])
            if a0.get('kind') == 'DeclRefExpr' and a0['referencedDecl']['name'] == 'read_bit':
                return ['INPUT']
            return []
        if cn == 'mem_write_bit':
            return ['INPUT_STORE']           # the address is judged by C01.GUARDS (INPUT_ADDR)
        if cn == 'mem_flip_bit':
            lin = to_lin(c_ir(args[1], self.cu.src_of), self.env)
            root, delta = classify_lin(lin, self.roles, 'bit')
            if root == 'f' and delta == 0:
                return ['FLIP']
            self.unrecognised.append(f'{self.cu.site(c)}: mem_flip_bit at {self.cu.src_of(args[1])}')
            return []
        return []


def _c_eval_order(n: Dict[str, Any]) -> List[Dict[str, Any]]:
    out: List[Dict[str, Any]] = []

    def rec(x: Dict[str, Any]) -> None:
        if not isinstance(x, dict):
            return
        kids = x.get('inner', [])
        if is_assign(x) and len(kids) == 2:
            rec(kids[1])
            rec(kids[0])
        else:
            for c in kids:
                rec(c)
        out.append(x)
    rec(n)
    return out


# ================================================================ path conditions (must-facts)

def path_conditions(g: Graph, head: int, assigned: Callable[[Node], Set[str]],
                    mentions: Callable[[Node], Set[str]]) -> Dict[int, Optional[frozenset]]:
    """Forward MUST analysis from the loop head: fact (cond node id, 'T'|'F') holds at a node when
    every path from the head to it passed that edge of the condition and no variable the condition
    mentions was assigned since. Facts are dropped at the loop head (a new op starts)."""
    from collections import deque
    IN: Dict[int, Optional[frozenset]] = {}
    IN[head] = frozenset()
    work = deque([head])
    while work:
        n = work.popleft()
        node = g.nodes[n]
        cur = IN[n]
        assert cur is not None
        if n == head:
            cur = frozenset()
        killed_vars = assigned(node)
        if killed_vars:
            cur = frozenset(f for f in cur if not (mentions(g.nodes[f[0]]) & killed_vars))
        for m, lab in g.succ[n]:
            out = cur
            if node.kind == 'cond' and lab in ('T', 'F'):
                out = cur | {(n, lab)}
            if m == head:
                out = frozenset()
            old = IN.get(m)
            new = out if old is None else (old & out)
            if new != old:
                IN[m] = new
                work.append(m)
    return IN


def py_assigned(node: Node) -> Set[str]:
    a = node.ast
    out: Set[str] = set()
    if a is None or node.kind in ('cond', 'except'):
        return out
    if isinstance(a, ast.Assign):
        for t in a.targets:
            for n in ast.walk(t):
                if isinstance(n, ast.Name) and isinstance(n.ctx, ast.Store):
                    out.add(n.id)
    elif isinstance(a, ast.AugAssign) and isinstance(a.target, ast.Name):
        out.add(a.target.id)
    return out


def py_mentions(node: Node) -> Set[str]:
    a = node.ast
    if a is None or not isinstance(a, ast.AST):
        return set()
    return {n.id for n in ast.walk(a) if isinstance(n, ast.Name)}


def c_assigned(node: Node) -> Set[str]:
    a = node.ast
    out: Set[str] = set()
    if not isinstance(a, dict) or node.kind not in ('stmt', 'cond', 'return', 'switch'):
        return out
    for n in walk(a):
        k = n.get('kind')
        if is_assign(n) or k == 'CompoundAssignOperator':
            l0 = strip(n['inner'][0])
            if l0.get('kind') == 'DeclRefExpr':
                out.add(l0['referencedDecl']['name'])
        elif k == 'UnaryOperator' and n.get('opcode') in ('++', '--'):
            l0 = strip(n['inner'][0])
            if l0.get('kind') == 'DeclRefExpr':
                out.add(l0['referencedDecl']['name'])
        elif k == 'UnaryOperator' and n.get('opcode') == '&':
            l0 = strip(n['inner'][0])
            if l0.get('kind') == 'DeclRefExpr':
                out.add(l0['referencedDecl']['name'])      # out-parameter
        elif k == 'VarDecl' and n.get('inner'):
            out.add(n['name'])
    return out


def c_mentions(node: Node) -> Set[str]:
    a = node.ast
    if not isinstance(a, dict) or node.kind not in ('stmt', 'cond', 'return', 'switch'):
        return set()
    return {x['referencedDecl']['name'] for x in walk(a) if x.get('kind') == 'DeclRefExpr'}


# ================================================================ guards of events

def event_nodes(loop: Any, event: str) -> List[int]:
    return [n.id for n in loop.g.nodes if event in loop.events(n)]


def facts_as_ir(loop: Any, facts: frozenset) -> List[IR]:
    out: List[IR] = []
    is_c = isinstance(loop, CLoop)
    for nid, pol in sorted(facts):
        a = loop.g.nodes[nid].ast
        ir = c_ir(a, loop.cu.src_of) if is_c else py_ir(a)
        out.append(ir if pol == 'T' else ('un', '!', ir))
    return out


def role_deps(loop: Any, ir: IR) -> Set[str]:
    """role variables (ip/f/j) an expression depends on, through single-definition locals."""
    inv = {v: k for k, v in loop.roles.items()}
    seen: Set[str] = set()
    out: Set[str] = set()
    work = list(lx.syms(ir))
    while work:
        s = work.pop()
        if s in seen:
            continue
        seen.add(s)
        if s in inv:
            out.add(inv[s])
            continue
        v = loop.env.table.get(s)
        if v is not None and not isinstance(v, (int, dict)):
            work.extend(lx.syms(v))
    return out


def guard_interval(loop: Any, node_id: int, IN: Dict[int, Optional[frozenset]], role: str,
                   *, pure: bool = True, only_with: Optional[Set[str]] = None) -> Tuple[Optional[lx.Interval], List[str]]:
    """interval of the role variable implied by the must-path-conditions at node_id.
    pure=True: only conditions that depend on that role variable alone."""
    facts = IN.get(node_id)
    if facts is None:
        raise AnalysisError(f'{loop.fname}: guard node unreachable from the loop head')
    var = loop.roles[role]
    unsigned = isinstance(loop, CLoop)
    res: Optional[lx.Interval] = None
    used: List[str] = []
    for ir in facts_as_ir(loop, facts):
        deps = role_deps(loop, ir)
        if role not in deps:
            continue
        if pure and deps != {role}:
            continue
        if only_with is not None and not only_with <= deps:
            continue            # e.g. the self-loop test relates j to ip: facts about j alone (the null test) are not part of it
        # only conditions on the variable's value itself (not on derived quantities like ip & mask)
        try:
            iv = lx.solve(ir, var, loop.env, unsigned=unsigned)
        except lx.Unrecognised:
            iv = None
            lin_ok = False
        if iv is None:
            continue
        used.append(lx.show(ir))
        res = iv if res is None else lx._intersect(res, iv)
    return res, used
