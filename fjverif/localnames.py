"""Alpha-normalisation of function locals to the vocabulary the rules were written against.

The rules name some locals of the analysed functions (`cache_key`, `ops_to_pad`, `lo` / `hi` ..). A consistent renaming of a local is
the most common behaviour-preserving edit there is, so before any rule looks at a function its locals are renamed BACK to the
reference names whenever that can be decided from structure alone: every local gets a signature made of how it is bound (the
defining expressions, positions in unpackings, loop / with / comprehension bindings) and how it is used (callee and argument position,
attribute read, operator, ..), computed with the other locals masked (sig0) and then with the other locals replaced by their own
sig0 (sig1). A local of the current tree whose signature equals - uniquely on both sides - the signature recorded for a local of the
reference tree (spec/local_sigs.json, generated from the tree the rules were developed on) and whose name differs is renamed to the
reference name, function by function, all at once and only when the mapping is injective and collides with nothing.

This only undoes renames; it cannot create a violation, and where nothing matches (the function changed in more than names) the
function is left as it is. Python: applied to the parsed module (Repo.mod). C: applied to the source text before clang sees it
(cfacts.CUnit), with the signatures taken from a first parse.
"""
from __future__ import annotations

import ast
import hashlib
import json
from pathlib import Path
from typing import Any, Dict, List, Optional, Set, Tuple

SPEC = Path(__file__).parent / 'spec' / 'local_sigs.json'
_TABLE: Optional[Dict[str, Any]] = None


def table() -> Dict[str, Any]:
    global _TABLE
    if _TABLE is None:
        _TABLE = json.loads(SPEC.read_text()) if SPEC.exists() else {}
    return _TABLE


_FAM = {ast.Lt: ('lt', 0), ast.Gt: ('lt', 1), ast.LtE: ('le', 0), ast.GtE: ('le', 1), ast.Eq: ('eq', 0), ast.NotEq: ('ne', 0)}


def _strip_not(e: ast.expr) -> Tuple[ast.expr, int]:
    k = 0
    while isinstance(e, ast.UnaryOp) and isinstance(e.op, ast.Not):
        e, k = e.operand, k + 1
    return e, k % 2


def _commutes(n: ast.AST) -> bool:
    """a binary operation whose operands may be exchanged whatever their types: `*`, `&`, `^` (numbers, sets, sequence repetition), and
    `+` / `|` when one operand is an integer literal (then it is integer arithmetic)"""
    if not isinstance(n, ast.BinOp):
        return False
    lit = lambda e: isinstance(e, ast.Constant) and isinstance(e.value, int) and not isinstance(e.value, bool)
    return isinstance(n.op, (ast.Mult, ast.BitAnd, ast.BitXor)) or (isinstance(n.op, (ast.Add, ast.BitOr)) and (lit(n.left) or lit(n.right)))


def _h(x: Any) -> str:
    return hashlib.sha1(repr(x).encode()).hexdigest()[:12]


# ---------------------------------------------------------------- python

def py_locals(fn: ast.AST) -> Set[str]:
    a = fn.args                                     # type: ignore[attr-defined]
    params = {x.arg for x in a.args + a.kwonlyargs + a.posonlyargs} | ({a.vararg.arg} if a.vararg else set()) | ({a.kwarg.arg} if a.kwarg else set())
    skip, stores, nested_params = set(params), set(), set()
    for n in ast.walk(fn):
        if isinstance(n, (ast.Global, ast.Nonlocal)):
            skip |= set(n.names)
        if isinstance(n, ast.ExceptHandler) and n.name:
            skip.add(n.name)
        if isinstance(n, (ast.Import, ast.ImportFrom)):
            skip |= {(al.asname or al.name).split('.')[0] for al in n.names}
        if isinstance(n, (ast.FunctionDef, ast.AsyncFunctionDef, ast.Lambda)) and n is not fn:
            b = n.args
            nested_params |= {x.arg for x in b.args + b.kwonlyargs + b.posonlyargs}
            if not isinstance(n, ast.Lambda):
                skip.add(n.name)
        if isinstance(n, ast.ClassDef):
            skip.add(n.name)
        if isinstance(n, ast.Name) and isinstance(n.ctx, ast.Store):
            stores.add(n.id)
        if isinstance(n, ast.MatchAs) and n.name:
            skip.add(n.name)
    return {x for x in stores - skip - nested_params if not (x.startswith('__') and x.endswith('__'))}


def _dump(e: Optional[ast.AST], mask: Dict[str, str]) -> Any:
    if e is None:
        return None
    if isinstance(e, ast.Name):
        return ('N', mask.get(e.id, e.id))
    if isinstance(e, ast.Constant):
        return ('C', repr(e.value))
    if isinstance(e, ast.Compare) and len(e.ops) == 1 and type(e.ops[0]) in _FAM:
        fam, rev = _FAM[type(e.ops[0])]
        a, b = _dump(e.left, mask), _dump(e.comparators[0], mask)
        if fam in ('lt', 'le'):
            return ('cmp', fam) + ((b, a) if rev else (a, b))
        return ('cmp', fam) + tuple(sorted((repr(a), repr(b))))
    if isinstance(e, ast.IfExp):
        t, par = _strip_not(e.test)
        x, y = (e.body, e.orelse) if par == 0 else (e.orelse, e.body)
        return ('ifexp', _dump(t, mask), _dump(x, mask), _dump(y, mask))
    if _commutes(e):
        return ('comm', type(e.op).__name__) + tuple(sorted((repr(_dump(e.left, mask)), repr(_dump(e.right, mask)))))
    if isinstance(e, ast.AST):
        out: List[Any] = [type(e).__name__]
        for f, v in ast.iter_fields(e):
            if f in ('ctx', 'type_comment', 'lineno', 'col_offset', 'end_lineno', 'end_col_offset'):
                continue
            out.append((f, _dump(v, mask) if isinstance(v, ast.AST) else [_dump(x, mask) for x in v] if isinstance(v, list) else v))
        return tuple(out)
    return e


def _items(fn: ast.AST, locs: Set[str], mask: Dict[str, str]) -> Dict[str, List[Any]]:
    items: Dict[str, List[Any]] = {v: [] for v in locs}
    parent: Dict[int, Tuple[ast.AST, str, Optional[int]]] = {}
    for p in ast.walk(fn):
        for f, v in ast.iter_fields(p):
            if isinstance(v, ast.AST):
                parent[id(v)] = (p, f, None)
            elif isinstance(v, list):
                for i, x in enumerate(v):
                    if isinstance(x, ast.AST):
                        parent[id(x)] = (p, f, i)

    def targets(t: ast.AST, path: Tuple[int, ...] = ()) -> List[Tuple[str, Tuple[int, ...]]]:
        if isinstance(t, ast.Name):
            return [(t.id, path)]
        if isinstance(t, (ast.Tuple, ast.List)):
            out = []
            for i, x in enumerate(t.elts):
                out += targets(x, path + (i,))
            return out
        if isinstance(t, ast.Starred):
            return targets(t.value, path + (-1,))
        return []
    for n in ast.walk(fn):
        if isinstance(n, ast.Assign):
            for t in n.targets:
                for nm, path in targets(t):
                    if nm in items:
                        items[nm].append(('assign', path, _dump(n.value, mask)))
        elif isinstance(n, ast.AnnAssign) and n.value is not None:
            for nm, path in targets(n.target):
                if nm in items:
                    items[nm].append(('assign', path, _dump(n.value, mask)))
        elif isinstance(n, ast.AugAssign):
            for nm, path in targets(n.target):
                if nm in items:
                    items[nm].append(('aug', type(n.op).__name__, _dump(n.value, mask)))
        elif isinstance(n, (ast.For, ast.AsyncFor, ast.comprehension)):
            for nm, path in targets(n.target):
                if nm in items:
                    items[nm].append(('for', path, _dump(n.iter, mask)))
        elif isinstance(n, (ast.With, ast.AsyncWith)):
            for it in n.items:
                if it.optional_vars is not None:
                    for nm, path in targets(it.optional_vars):
                        if nm in items:
                            items[nm].append(('with', path, _dump(it.context_expr, mask)))
        elif isinstance(n, ast.NamedExpr):
            for nm, path in targets(n.target):
                if nm in items:
                    items[nm].append(('walrus', _dump(n.value, mask)))
        elif isinstance(n, ast.Name) and isinstance(n.ctx, ast.Load) and n.id in items:
            p, f, i = parent.get(id(n), (None, '', None))
            while isinstance(p, ast.UnaryOp) and isinstance(p.op, ast.Not):          # `not x` is x as far as the context goes
                p, f, i = parent.get(id(p), (None, '', None))
            if isinstance(p, ast.IfExp) and f in ('body', 'orelse') and _strip_not(p.test)[1]:
                f = 'orelse' if f == 'body' else 'body'              # the arms of an inverted conditional expression, put back
            ctx: Any = (type(p).__name__, f)
            if isinstance(p, ast.Call) and f == 'args':
                ctx = ('arg', _dump(p.func, mask), i, len(p.args))
            elif isinstance(p, ast.Call) and f == 'func':
                ctx = ('called', len(p.args))
            elif isinstance(p, ast.keyword):
                ctx = ('kwarg', p.arg)
            elif isinstance(p, ast.Attribute):
                ctx = ('attr', p.attr)
            elif isinstance(p, ast.Subscript):
                ctx = ('sub', f, _dump(p.slice if f == 'value' else p.value, mask))
            elif isinstance(p, ast.BinOp):
                ctx = ('binop', type(p.op).__name__, '' if _commutes(p) else f, _dump(p.right if f == 'left' else p.left, mask))
            elif isinstance(p, ast.Compare) and len(p.ops) == 1 and type(p.ops[0]) in _FAM:
                # independent of which way round the comparison is written
                fam, rev = _FAM[type(p.ops[0])]
                side = '' if fam in ('eq', 'ne') else ('small' if (f == 'left') != bool(rev) else 'large')
                ctx = ('cmp', fam, side, _dump(p.comparators[0] if f == 'left' else p.left, mask))
            elif isinstance(p, ast.Compare):
                ctx = ('cmp', tuple(type(o).__name__ for o in p.ops), f, _dump(p.comparators[0] if f == 'left' else p.left, mask))
            items[n.id].append(('use', ctx))
    return items


def py_sigs(fn: ast.AST) -> Dict[str, Tuple[str, str]]:
    locs = py_locals(fn)
    if not locs:
        return {}
    a = fn.args                                     # type: ignore[attr-defined]
    pm = {x.arg: f'P{i}' for i, x in enumerate(a.posonlyargs + a.args + a.kwonlyargs)}
    it0 = _items(fn, locs, {**pm, **{v: '_' for v in locs}})
    sig0 = {v: _h(sorted(map(repr, it0[v]))) for v in locs}
    it1 = _items(fn, locs, {**pm, **{v: 'L' + sig0[v] for v in locs}})
    return {v: (_h(sorted(map(repr, it1[v]))), sig0[v]) for v in locs}


def _functions(tree: ast.AST, prefix: str = '') -> List[Tuple[str, ast.AST]]:
    out: List[Tuple[str, ast.AST]] = []
    for ch in ast.iter_child_nodes(tree):
        if isinstance(ch, ast.ClassDef):
            out += _functions(ch, prefix + ch.name + '.')
        elif isinstance(ch, (ast.FunctionDef, ast.AsyncFunctionDef)):
            out.append((prefix + ch.name, ch))
            out += _functions(ch, prefix + ch.name + '.')
    return out


def match(cur: Dict[str, Tuple[str, str]], ref: Dict[str, List[str]]) -> Dict[str, str]:
    """current name -> reference name for the locals whose signature identifies them uniquely on both sides"""
    mapping: Dict[str, str] = {}
    for level in (0, 1):                          # sig1 first (index 0), then the coarser sig0 for what is left
        c_by: Dict[str, List[str]] = {}
        r_by: Dict[str, List[str]] = {}
        for v, s in cur.items():
            if v not in mapping:
                c_by.setdefault(s[level], []).append(v)
        for v, s in ref.items():
            if v not in mapping.values():
                r_by.setdefault(s[level], []).append(v)
        for s, vs in c_by.items():
            if len(vs) == 1 and len(r_by.get(s, [])) == 1:
                mapping[vs[0]] = r_by[s][0]
    mapping = {a: b for a, b in mapping.items() if a != b}
    if not mapping:
        return {}
    # injective, and no target is the name of a current local that keeps its name
    if len(set(mapping.values())) != len(mapping):
        return {}
    staying = set(cur) - set(mapping)
    if set(mapping.values()) & staying:
        return {a: b for a, b in mapping.items() if b not in staying} if False else {}
    return mapping


def _ancestors_of(tree: ast.AST, node: ast.AST) -> List[ast.AST]:
    path: List[ast.AST] = []

    def rec(cur: ast.AST, acc: List[ast.AST]) -> bool:
        if cur is node:
            path.extend(acc)
            return True
        for ch in ast.iter_child_nodes(cur):
            if rec(ch, acc + [cur]):
                return True
        return False
    rec(tree, [])
    return path


def renormalize_py(tree: ast.Module, rel: str) -> int:
    ref = table().get(rel)
    if not ref:
        return 0
    n = 0
    fns = _functions(tree)
    # a function redefined under one name (sly rule methods): the table keeps a list per qualified name, in source order
    seen: Dict[str, int] = {}
    for q, fn in fns:
        k = seen.get(q, 0)
        seen[q] = k + 1
        entries = ref.get(q)
        if not entries or k >= len(entries):
            continue
        shapes = entries[k].get('__shapes__')
        if shapes:
            n += inline_named_conditions(fn, shapes)
        cur = py_sigs(fn)
        ref_e = {k_: v_ for k_, v_ in entries[k].items() if not k_.startswith('__')}
        mp = match(cur, ref_e) if cur else {}
        # parameters of a private function (leading underscore, or nested in a function) that nobody passes by keyword are matched by
        # position: renaming one is a local rename
        short = q.split('.')[-1]
        a_ = fn.args                                # type: ignore[attr-defined]
        cur_params = [x for x in a_.posonlyargs + a_.args + a_.kwonlyargs]
        ref_params = entries[k].get('__params__')
        private = (short.startswith('_') and not short.endswith('__')) or any(isinstance(p_, (ast.FunctionDef, ast.AsyncFunctionDef)) for p_ in _ancestors_of(tree, fn))
        pmap: Dict[str, str] = {}
        if private and ref_params is not None and len(ref_params) == len(cur_params) and not a_.vararg and not a_.kwarg:
            kw_used = {kw.arg for c in ast.walk(tree) if isinstance(c, ast.Call) for kw in c.keywords
                       if (isinstance(c.func, ast.Name) and c.func.id == short) or (isinstance(c.func, ast.Attribute) and c.func.attr == short)}
            for x, r in zip(cur_params, ref_params):
                if x.arg != r and x.arg not in ('self', 'cls') and r not in ('self', 'cls') and x.arg not in kw_used:
                    pmap[x.arg] = r
        if not mp and not pmap:
            if shapes:
                n += unspell_py(fn, shapes)
            continue
        # parameters / free names of the function must not collide with a target name
        all_map = {**mp, **pmap}
        if len(set(all_map.values())) != len(all_map):
            if shapes:
                n += unspell_py(fn, shapes)
            continue
        free = {x.id for x in ast.walk(fn) if isinstance(x, ast.Name)} - set(cur) - set(pmap)
        if set(all_map.values()) & (free | ({x.arg for x in cur_params} - set(pmap)) | (set(cur) - set(mp))):
            continue
        for x in cur_params:
            if x.arg in pmap:
                x.arg = pmap[x.arg]
                n += 1
        mp = all_map
        inner = {id(x) for q2, f2 in _functions(fn) for x in ast.walk(f2)}           # nested functions have their own locals
        nested_locals: Set[str] = set()
        for q2, f2 in _functions(fn):
            nested_locals |= py_locals(f2)
        for x in ast.walk(fn):
            if isinstance(x, ast.Name) and x.id in mp and not (id(x) in inner and x.id in nested_locals):
                x.id = mp[x.id]
                n += 1
        if shapes:
            n += unspell_py(fn, shapes)
    return n


def gen_py(tree: ast.Module) -> Dict[str, List[Dict[str, List[str]]]]:
    out: Dict[str, List[Dict[str, List[str]]]] = {}
    for q, fn in _functions(tree):
        s = py_sigs(fn)
        e: Dict[str, Any] = {v: [a, b] for v, (a, b) in sorted(s.items())}
        a_ = fn.args                                # type: ignore[attr-defined]
        e['__params__'] = [x.arg for x in a_.posonlyargs + a_.args + a_.kwonlyargs]
        e['__shapes__'] = py_shapes(fn)
        out.setdefault(q, []).append(e)
    return out


# ---------------------------------------------------------------- C (clang JSON AST of one translation unit)

def _c_walk(n: Dict[str, Any]):
    stack = [n]
    while stack:
        x = stack.pop()
        yield x
        for c in reversed(x.get('inner', []) or []):
            if isinstance(c, dict):
                stack.append(c)


def c_functions(tu: Dict[str, Any]) -> Dict[str, Dict[str, Any]]:
    return {n['name']: n for n in tu.get('inner', []) if n.get('kind') == 'FunctionDecl' and any(
        c.get('kind') == 'CompoundStmt' for c in n.get('inner', []) if isinstance(c, dict))}


def c_locals(fn: Dict[str, Any]) -> Set[str]:
    body = [c for c in fn.get('inner', []) if isinstance(c, dict) and c.get('kind') == 'CompoundStmt']
    params = {c.get('name') for c in fn.get('inner', []) if isinstance(c, dict) and c.get('kind') == 'ParmVarDecl'}
    out = set()
    for b in body:
        for n in _c_walk(b):
            if n.get('kind') == 'VarDecl' and n.get('name') and n.get('storageClass') != 'static':
                out.add(n['name'])
    return out - params


def _c_strip(n: Dict[str, Any]) -> Dict[str, Any]:
    while n.get('kind') in ('ImplicitCastExpr', 'ParenExpr') and n.get('inner'):
        n = [c for c in n['inner'] if isinstance(c, dict)][0]
    return n


def _c_dump(n: Any, mask: Dict[str, str], depth: int = 0) -> Any:
    if not isinstance(n, dict) or depth > 12:
        return None
    n = _c_strip(n)
    k = n.get('kind')
    if k == 'DeclRefExpr':
        nm = n.get('referencedDecl', {}).get('name', '?')
        return ('ref', mask.get(nm, nm))
    head: List[Any] = [k]
    for f in ('opcode', 'name', 'value', 'isArrow', 'isPostfix'):
        if f in n:
            head.append((f, n[f]))
    if k in ('CStyleCastExpr', 'UnaryExprOrTypeTraitExpr', 'VarDecl'):
        head.append(('type', n.get('type', {}).get('qualType')))
        if 'argType' in n:
            head.append(('argType', n['argType'].get('qualType')))
    return tuple(head) + tuple(_c_dump(c, mask, depth + 1) for c in n.get('inner', []) or [] if isinstance(c, dict))


def _c_items(fn: Dict[str, Any], locs: Set[str], mask: Dict[str, str]) -> Dict[str, List[Any]]:
    items: Dict[str, List[Any]] = {v: [] for v in locs}
    parent: Dict[int, Tuple[Dict[str, Any], int]] = {}
    for p in _c_walk(fn):
        for i, c in enumerate([c for c in p.get('inner', []) or [] if isinstance(c, dict)]):
            parent[id(c)] = (p, i)

    def up(n: Dict[str, Any]) -> Tuple[Optional[Dict[str, Any]], int, Dict[str, Any]]:
        """nearest ancestor that is not a transparent cast / paren, the child index under it, and the child itself"""
        cur = n
        while True:
            pi = parent.get(id(cur))
            if pi is None:
                return None, 0, cur
            p, i = pi
            if p.get('kind') in ('ImplicitCastExpr', 'ParenExpr'):
                cur = p
                continue
            return p, i, cur
    for n in _c_walk(fn):
        k = n.get('kind')
        if k == 'VarDecl' and n.get('name') in items:
            init = [c for c in n.get('inner', []) or [] if isinstance(c, dict) and c.get('kind')]
            items[n['name']].append(('decl', n.get('type', {}).get('qualType'), _c_dump(init[-1], mask) if init else None))
        elif k == 'DeclRefExpr':
            nm = n.get('referencedDecl', {}).get('name')
            if nm not in items:
                continue
            p, i, child = up(n)
            if p is None:
                continue
            pk = p.get('kind')
            kids = [c for c in p.get('inner', []) or [] if isinstance(c, dict)]
            if pk in ('BinaryOperator', 'CompoundAssignOperator'):
                other = kids[1 - i] if len(kids) == 2 else None
                ctx: Any = (pk, p.get('opcode'), i, _c_dump(other, mask))
            elif pk == 'UnaryOperator':
                ctx = (pk, p.get('opcode'), p.get('isPostfix'))
            elif pk == 'CallExpr':
                callee = _c_dump(kids[0], mask) if kids else None
                ctx = ('arg', callee, i, len(kids))
            elif pk == 'MemberExpr':
                ctx = ('member', p.get('name'), p.get('isArrow'))
            elif pk == 'ArraySubscriptExpr':
                ctx = ('index', i, _c_dump(kids[1 - i], mask) if len(kids) == 2 else None)
            elif pk == 'ConditionalOperator':
                ctx = ('cond', i)
            else:
                ctx = (pk, i)
            items[nm].append(('use', ctx))
    return items


def c_sigs(fn: Dict[str, Any]) -> Dict[str, Tuple[str, str]]:
    locs = c_locals(fn)
    if not locs:
        return {}
    # parameters are referred to by position, so that a renamed parameter does not change the signature of a local
    pm = {c.get('name'): f'P{i}' for i, c in enumerate(x for x in fn.get('inner', []) if isinstance(x, dict) and x.get('kind') == 'ParmVarDecl') if c.get('name')}
    it0 = _c_items(fn, locs, {**pm, **{v: '_' for v in locs}})
    sig0 = {v: _h(sorted(map(repr, it0[v]))) for v in locs}
    it1 = _c_items(fn, locs, {**pm, **{v: 'L' + sig0[v] for v in locs}})
    return {v: (_h(sorted(map(repr, it1[v]))), sig0[v]) for v in locs}


def _c_offset(loc: Dict[str, Any]) -> Optional[int]:
    if 'offset' in loc and 'includedFrom' not in loc and not isinstance(loc.get('file'), str):
        return loc['offset']
    if 'offset' in loc:
        return loc['offset']
    sp = loc.get('spellingLoc')
    if isinstance(sp, dict) and 'offset' in sp and not isinstance(sp.get('file'), str):
        return sp['offset']
    return None


def c_rename_text(text: str, fn: Dict[str, Any], mapping: Dict[str, str]) -> Optional[str]:
    """text with the locals of one function renamed, by the positions clang reports for their declarations and references
    (identifiers inside macro arguments are found through their spelling location); None when a position cannot be trusted."""
    edits: Set[Tuple[int, str]] = set()
    for n in _c_walk(fn):
        k = n.get('kind')
        nm = None
        off = None
        if k in ('VarDecl', 'ParmVarDecl') and n.get('name') in mapping and n.get('storageClass') != 'static':
            nm = n['name']
            off = _c_offset(n.get('loc', {}))
        elif k == 'DeclRefExpr' and n.get('referencedDecl', {}).get('name') in mapping and n.get('referencedDecl', {}).get('kind') in ('VarDecl', 'ParmVarDecl'):
            nm = n['referencedDecl']['name']
            off = _c_offset(n.get('range', {}).get('begin', {}))
        if nm is None:
            continue
        if off is None or text[off:off + len(nm)] != nm or (off > 0 and (text[off - 1].isalnum() or text[off - 1] == '_')) \
                or (off + len(nm) < len(text) and (text[off + len(nm)].isalnum() or text[off + len(nm)] == '_')):
            return None
        edits.add((off, nm))
    out = text
    for off, nm in sorted(edits, reverse=True):
        out = out[:off] + mapping[nm] + out[off + len(nm):]
    return out


def renormalize_c(text: str, tu: Dict[str, Any], rel: str) -> Optional[str]:
    """the source with renamed locals renamed back to the reference vocabulary, or None when nothing is to be done"""
    ref = table().get(rel)
    if not ref:
        return None
    fns = c_functions(tu)
    out = text
    changed = False
    # apply from the last function to the first so that earlier offsets stay valid
    for name, fn in sorted(fns.items(), key=lambda t: -(_c_offset(t[1].get('range', {}).get('begin', {})) or 0)):
        entries = ref.get(name)
        if not entries:
            continue
        cur = c_sigs(fn)
        mp = match(cur, {k_: v_ for k_, v_ in entries[0].items() if not k_.startswith('__')})
        # parameters of a static function are matched by position (C calls are positional): a renamed parameter is a local rename
        ref_params = entries[0].get('__params__')
        cur_params = [c.get('name') for c in fn.get('inner', []) if isinstance(c, dict) and c.get('kind') == 'ParmVarDecl']
        if ref_params is not None and fn.get('storageClass') == 'static' and len(ref_params) == len(cur_params) and all(cur_params):
            for a_, b_ in zip(cur_params, ref_params):
                if a_ != b_:
                    mp[a_] = b_
        if not mp:
            continue
        used = {n.get('referencedDecl', {}).get('name') for n in _c_walk(fn) if n.get('kind') == 'DeclRefExpr'} | \
               {n.get('name') for n in _c_walk(fn) if n.get('kind') in ('ParmVarDecl', 'LabelStmt', 'LabelDecl', 'VarDecl')}
        if set(mp.values()) & (used - set(mp)) or len(set(mp.values())) != len(mp):
            continue
        new = c_rename_text(out, fn, mp)
        if new is not None:
            out = new
            changed = True
    return out if changed else None


def gen_c(repo: Any, rel: str = 'flipjump/interpreter/_fjcore.c') -> Dict[str, Any]:
    from .cfacts import CUnit
    cu = CUnit(repo, rel)
    out: Dict[str, Any] = {}
    for name, fn in c_functions(cu.tu).items():
        e: Dict[str, Any] = {v: [a, b] for v, (a, b) in sorted(c_sigs(fn).items())}
        e['__params__'] = [c.get('name') for c in fn.get('inner', []) if isinstance(c, dict) and c.get('kind') == 'ParmVarDecl']
        e['__cmp__'] = c_shapes(fn)
        out[name] = [e]
    return {rel: out}


# ---------------------------------------------------------------- python: three more spellings undone relative to the reference
#   a comparison turned round (a < b  <->  b > a, 8 == n  <->  n == 8)
#   an if / else (or conditional expression) inverted (if not c: B else: A)
#   a condition bound to a local first (c = COND; if c: ..)
# each is recognised through a key that does not depend on the spelling and is put back into the orientation the reference
# function has for the same key. nothing is changed when the key is unknown or ambiguous in the reference.

_UNFAM = {('lt', 0): ast.Lt, ('lt', 1): ast.Gt, ('le', 0): ast.LtE, ('le', 1): ast.GtE}


def _kdump(e: Any) -> Any:
    """spelling-independent dump: comparisons by family with the operand pair normalised (for < / <= the smaller side first), leading
    `not`s kept"""
    if isinstance(e, ast.Compare) and len(e.ops) == 1 and type(e.ops[0]) in _FAM:
        fam, rev = _FAM[type(e.ops[0])]
        a, b = _kdump(e.left), _kdump(e.comparators[0])
        if fam in ('lt', 'le'):
            lo, hi = (b, a) if rev else (a, b)
            return ('cmp', fam, lo, hi)
        return ('cmp', fam) + tuple(sorted((repr(a), repr(b))))
    if isinstance(e, ast.Name):
        return ('N', e.id)
    if isinstance(e, ast.Constant):
        return ('C', repr(e.value))
    if _commutes(e):
        return ('comm', type(e.op).__name__) + tuple(sorted((repr(_kdump(e.left)), repr(_kdump(e.right)))))
    if isinstance(e, ast.AST):
        out: List[Any] = [type(e).__name__]
        for f, v in ast.iter_fields(e):
            if f in ('ctx', 'type_comment', 'lineno', 'col_offset', 'end_lineno', 'end_col_offset'):
                continue
            out.append((f, _kdump(v) if isinstance(v, ast.AST) else [_kdump(x) for x in v] if isinstance(v, list) else v))
        return tuple(out)
    return e


def py_shapes(fn: ast.AST) -> Dict[str, Any]:
    """the orientation facts of one function: comparisons (key -> text of the left operand), if/else polarities (key -> parity of
    the leading nots), the keys of all if-tests"""
    cmps: Dict[str, Set[str]] = {}
    comm: Dict[str, Set[str]] = {}
    ifs: Dict[str, Set[int]] = {}
    tests: Set[str] = set()
    for n in ast.walk(fn):
        if isinstance(n, ast.Compare) and len(n.ops) == 1 and type(n.ops[0]) in _FAM:
            cmps.setdefault(_h(_kdump(n)), set()).add(_h(_kdump(n.left)))
        if _commutes(n):
            comm.setdefault(_h(_kdump(n)), set()).add(_h(_kdump(n.left)))
        if isinstance(n, (ast.If, ast.IfExp)) and n.orelse:
            t, par = _strip_not(n.test)
            ifs.setdefault(_h(_kdump(t)), set()).add(par)
        if isinstance(n, ast.If):
            tests.add(_h(_kdump(_strip_not(n.test)[0])))
    locs = py_locals(fn)
    tests0 = sorted({_h(_mdump(_strip_not(n.test)[0], locs)) for n in ast.walk(fn) if isinstance(n, ast.If)})
    return {'cmp': {k: sorted(v) for k, v in cmps.items()}, 'comm': {k: sorted(v) for k, v in comm.items()}, 'if': {k: sorted(v) for k, v in ifs.items()}, 'tests0': tests0}


def _mdump(e: ast.AST, locs: Set[str]) -> Any:
    """_kdump with the function's locals masked"""
    class M_(ast.NodeTransformer):
        def visit_Name(self, node: ast.Name) -> ast.AST:
            return ast.Name(id='_', ctx=node.ctx) if node.id in locs else node
    import copy
    return _kdump(M_().visit(copy.deepcopy(e)))


def inline_named_conditions(fn: ast.AST, ref: Dict[str, Any]) -> int:
    """a condition bound to a local right in front of its `if` and used nowhere else reads as the condition itself, when the
    reference function tests that condition (compared with all locals masked, so it works before the locals are renamed back)"""
    n_changes = 0
    locs = py_locals(fn)
    loads: Dict[str, int] = {}
    stores: Dict[str, int] = {}
    for x in ast.walk(fn):
        if isinstance(x, ast.Name):
            d = loads if isinstance(x.ctx, ast.Load) else stores
            d[x.id] = d.get(x.id, 0) + 1
    tests = set(ref.get('tests0', []))

    def fix_block(stmts: List[ast.stmt]) -> List[ast.stmt]:
        nonlocal n_changes
        out: List[ast.stmt] = []
        i = 0
        while i < len(stmts):
            st = stmts[i]
            if isinstance(st, ast.Assign) and len(st.targets) == 1 and isinstance(st.targets[0], ast.Name) \
                    and stores.get(st.targets[0].id) == 1 and loads.get(st.targets[0].id) == 1 and _h(_mdump(_strip_not(st.value)[0], locs)) in tests:
                t = st.targets[0].id
                # the `if` that tests it: the next statement, or a later one of the same block when nothing in between can change what
                # the condition reads (the condition itself must be free of effects then)
                reads = {ast.unparse(x) for x in ast.walk(st.value) if isinstance(x, (ast.Name, ast.Attribute))}
                pure_val = not any(isinstance(x, ast.Call) and not (isinstance(x.func, ast.Name) and x.func.id in ('isinstance', 'len', 'bool', 'int', 'abs', 'min', 'max'))
                                   for x in ast.walk(st.value))
                has_attr = any(isinstance(x, (ast.Attribute, ast.Subscript)) for x in ast.walk(st.value))
                j = i + 1
                okj = True
                while j < len(stmts) and not (isinstance(stmts[j], ast.If) and isinstance(stmts[j].test, ast.Name) and stmts[j].test.id == t):
                    mid = stmts[j]
                    writes = {ast.unparse(x) for x in ast.walk(mid) if isinstance(x, (ast.Name, ast.Attribute, ast.Subscript)) and isinstance(getattr(x, 'ctx', None), ast.Store)}
                    calls_ = any(isinstance(x, ast.Call) for x in ast.walk(mid))
                    if not pure_val or not isinstance(mid, (ast.Assign, ast.AugAssign, ast.AnnAssign, ast.Expr)) or (calls_ and has_attr) \
                            or any(r_ == w_ or r_.startswith(w_ + '.') or w_.startswith(r_ + '.') or w_.startswith(r_ + '[') for r_ in reads for w_ in writes):
                        okj = False
                        break
                    j += 1
                if okj and j < len(stmts):
                    stmts[j].test = st.value          # type: ignore[attr-defined]
                    n_changes += 1
                    i += 1
                    continue
            out.append(st)
            i += 1
        return out
    for node in ast.walk(fn):
        for f in ('body', 'orelse', 'finalbody'):
            v = getattr(node, f, None)
            if isinstance(v, list) and v and isinstance(v[0], ast.stmt):
                setattr(node, f, fix_block(v))
        if isinstance(node, ast.Try):
            for h in node.handlers:
                h.body = fix_block(h.body)
    if n_changes:
        ast.fix_missing_locations(fn)
    return n_changes


def unspell_py(fn: ast.AST, ref: Dict[str, Any]) -> int:
    n_changes = 0
    # (2) if / else polarity
    for node in ast.walk(fn):
        if isinstance(node, (ast.If, ast.IfExp)) and node.orelse:
            t, par = _strip_not(node.test)
            want = ref.get('if', {}).get(_h(_kdump(t)))
            if want is not None and len(want) == 1 and want[0] != par:
                node.test = t if want[0] == 0 else ast.UnaryOp(op=ast.Not(), operand=t)
                node.body, node.orelse = node.orelse, node.body
                n_changes += 1
    # (3) orientation of comparisons
    for node in ast.walk(fn):
        if isinstance(node, ast.Compare) and len(node.ops) == 1 and type(node.ops[0]) in _FAM:
            want = ref.get('cmp', {}).get(_h(_kdump(node)))
            if want is not None and len(want) == 1 and want[0] != _h(_kdump(node.left)) and want[0] == _h(_kdump(node.comparators[0])):
                fam, rev = _FAM[type(node.ops[0])]
                node.left, node.comparators = node.comparators[0], [node.left]
                if fam in ('lt', 'le'):
                    node.ops = [_UNFAM[(fam, 1 - rev)]()]
                n_changes += 1
    # (4) operands of a commutative operation
    for node in ast.walk(fn):
        if _commutes(node):
            want = ref.get('comm', {}).get(_h(_kdump(node)))
            if want is not None and len(want) == 1 and want[0] != _h(_kdump(node.left)) and want[0] == _h(_kdump(node.right)):      # type: ignore[attr-defined]
                node.left, node.right = node.right, node.left                          # type: ignore[attr-defined]
                n_changes += 1
    if n_changes:
        ast.fix_missing_locations(fn)
    return n_changes


# ---------------------------------------------------------------- C: comparisons turned round, put back (second stage, after the renames)

_CFAM = {'<': ('lt', 0), '>': ('lt', 1), '<=': ('le', 0), '>=': ('le', 1), '==': ('eq', 0), '!=': ('ne', 0)}
_CUNFAM = {('lt', 0): '<', ('lt', 1): '>', ('le', 0): '<=', ('le', 1): '>='}


def _c_cmp_key(n: Dict[str, Any], pm: Dict[str, str]) -> Optional[Tuple[str, str]]:
    """(spelling-independent key, hash of the left operand) of a two-operand comparison"""
    if n.get('kind') != 'BinaryOperator' or n.get('opcode') not in _CFAM:
        return None
    kids = [c for c in n.get('inner', []) if isinstance(c, dict)]
    if len(kids) != 2:
        return None
    fam, rev = _CFAM[n['opcode']]
    a, b = _c_dump(kids[0], pm), _c_dump(kids[1], pm)
    if fam in ('lt', 'le'):
        lo, hi = (b, a) if rev else (a, b)
        key = _h(('cmp', fam, lo, hi))
    else:
        key = _h(('cmp', fam) + tuple(sorted((repr(a), repr(b)))))
    return key, _h(a)


_C_COMM = ('*', '&', '^', '|', '+')
_C_PREC = {'*': 10, '/': 10, '%': 10, '+': 9, '-': 9, '<<': 8, '>>': 8, '<': 7, '>': 7, '<=': 7, '>=': 7, '==': 6, '!=': 6, '&': 5, '^': 4, '|': 3, '&&': 2, '||': 1}


def _c_needs_parens(k_: Dict[str, Any], parent_op: str, left: bool) -> bool:
    """does the operand (as written, possibly under implicit casts) need parentheses as the left / right operand of parent_op"""
    while k_.get('kind') == 'ImplicitCastExpr' and k_.get('inner'):
        k_ = [c for c in k_['inner'] if isinstance(c, dict)][0]
    if k_.get('kind') == 'ConditionalOperator':
        return True
    if k_.get('kind') != 'BinaryOperator':
        return False
    pc, pp = _C_PREC.get(k_.get('opcode'), 0), _C_PREC.get(parent_op, 0)
    return pc < pp or (pc == pp and not left)


def _c_comm_key(n: Dict[str, Any], pm: Dict[str, str]) -> Optional[Tuple[str, str]]:
    if n.get('kind') != 'BinaryOperator' or n.get('opcode') not in _C_COMM:
        return None
    kids = [c for c in n.get('inner', []) if isinstance(c, dict)]
    if len(kids) != 2:
        return None
    a, b = _c_dump(kids[0], pm), _c_dump(kids[1], pm)
    return _h(('comm', n['opcode']) + tuple(sorted((repr(a), repr(b))))), _h(a)


def c_shapes(fn: Dict[str, Any]) -> Dict[str, List[str]]:
    pm = {c.get('name'): f'P{i}' for i, c in enumerate(x for x in fn.get('inner', []) if isinstance(x, dict) and x.get('kind') == 'ParmVarDecl') if c.get('name')}
    out: Dict[str, Set[str]] = {}
    for n in _c_walk(fn):
        k = _c_cmp_key(n, pm) or _c_comm_key(n, pm)
        if k:
            out.setdefault(k[0], set()).add(k[1])
    return {k: sorted(v) for k, v in out.items()}


def _c_span(n: Dict[str, Any]) -> Optional[Tuple[int, int]]:
    r = n.get('range', {})
    b, e = r.get('begin', {}), r.get('end', {})
    if 'offset' not in b or 'offset' not in e or 'spellingLoc' in b or 'expansionLoc' in b or 'spellingLoc' in e or 'expansionLoc' in e:
        return None
    return b['offset'], e['offset'] + e.get('tokLen', 1)


def unflip_c(text: str, tu: Dict[str, Any], rel: str) -> Optional[str]:
    ref = table().get(rel)
    if not ref:
        return None
    edits: List[Tuple[int, int, str]] = []
    for name, fn in c_functions(tu).items():
        entries = ref.get(name)
        shapes = entries[0].get('__cmp__') if entries else None
        if not shapes:
            continue
        pm = {c.get('name'): f'P{i}' for i, c in enumerate(x for x in fn.get('inner', []) if isinstance(x, dict) and x.get('kind') == 'ParmVarDecl') if c.get('name')}
        for n in _c_walk(fn):
            k = _c_cmp_key(n, pm) or _c_comm_key(n, pm)
            if not k:
                continue
            want = shapes.get(k[0])
            kids = [c for c in n.get('inner', []) if isinstance(c, dict)]
            if want is None or len(want) != 1 or want[0] == k[1] or want[0] != _h(_c_dump(kids[1], pm)):
                continue
            sa, sb, sn = _c_span(kids[0]), _c_span(kids[1]), _c_span(n)
            if not (sa and sb and sn) or text[sa[1]:sb[0]].strip() != n['opcode']:
                continue
            if n['opcode'] in _CFAM:
                fam, rev = _CFAM[n['opcode']]
                op = _CUNFAM[(fam, 1 - rev)] if fam in ('lt', 'le') else n['opcode']
            else:
                op = n['opcode']
            ta, tb = text[sa[0]:sa[1]], text[sb[0]:sb[1]]
            if n['opcode'] in _C_COMM:
                # an operand that is itself a binary operation keeps its grouping
                # the old right operand becomes the left one and vice versa: parenthesise only where the grouping would change
                def operand_text(k_: Dict[str, Any], txt: str, left: bool) -> str:
                    c_ = k_
                    while c_.get('kind') == 'ImplicitCastExpr' and c_.get('inner'):
                        c_ = [x for x in c_['inner'] if isinstance(x, dict)][0]
                    if c_.get('kind') == 'ParenExpr' and c_.get('inner'):
                        inner_ = [x for x in c_['inner'] if isinstance(x, dict)][0]
                        sp_ = _c_span(inner_)
                        if sp_ and not _c_needs_parens(inner_, n['opcode'], left=left):
                            return text[sp_[0]:sp_[1]]              # parentheses that the new position does not need
                        return txt
                    return f'({txt})' if _c_needs_parens(k_, n['opcode'], left=left) else txt
                tb = operand_text(kids[1], tb, True)
                ta = operand_text(kids[0], ta, False)
            edits.append((sn[0], sn[1], f'{tb} {op} {ta}'))
    kept: List[Tuple[int, int, str]] = []
    for e_ in sorted(edits, key=lambda t: (t[1] - t[0])):              # innermost (shortest) first; an enclosing edit waits for the next round
        if all(e_[0] >= k_[1] or e_[1] <= k_[0] for k_ in kept):
            kept.append(e_)
    if not kept:
        return None
    out = text
    for a_, b_, rep_ in sorted(kept, reverse=True):
        if '\n' in out[a_:b_] and '\n' not in rep_:
            rep_ = rep_ + '\n' * out[a_:b_].count('\n')          # lines keep their numbers
        out = out[:a_] + rep_ + out[b_:]
    return out
