"""excflow: implicitly-raising constructs and their discharge proofs (properties C10, C14).

A *site* is a construct that can raise a non-library exception when fed hostile data:
  subscript   d[k] (load, non-slice)            -> KeyError / IndexError
  call        struct unpack/pack, Enum(value), int(text[,base]), lzma.*, open, deque.popleft/list.pop,
              bytes.decode / text-mode read(), calls through the operator table
  binop       / // % divmod  (ZeroDivisionError);  << >> ** (ValueError / huge)
Discharge proofs (closed list):
  HANDLER   an enclosing try (in the function or around a call on the path from the root) catches the class
            and converts it to the designated library exception (or handles it)
  CONST     the raising operand is a constant / module constant / len()/memory width (not user influenced)
  GUARD     a dominating `if <bad>: raise <library error>` (or an enclosing `if <good>:`) excludes the operand
  MEMBER    a membership test on the same container guards the lookup
  ALLOW     a per-site allow-list entry with one line of reason
Anything else is reported.
"""
from __future__ import annotations

import ast
from dataclasses import dataclass, field
from typing import Any, Callable, Dict, Iterable, List, Optional, Sequence, Set, Tuple

from .core import AnalysisError
from .pyfacts import (Repo, ancestors, calls, dotted, enclosing_handlers, enclosing_stmt, handler_types, norm, parent,
                      raised_class, walk_no_nested)

SAFE_BUILTINS = {
    'len', 'range', 'str', 'repr', 'hex', 'sorted', 'print', 'isinstance', 'any', 'all', 'tuple', 'list', 'dict', 'set',
    'frozenset', 'enumerate', 'zip', 'min', 'max', 'sum', 'bool', 'abs', 'id', 'type', 'map', 'filter', 'reversed',
    'hasattr', 'getattr', 'format', 'super', 'iter', 'callable', 'bytes', 'ord', 'chr', 'divmod_safe', 'sleep',
    'defaultdict', 'deque', 'Path', 'NotImplementedError',
}
LIBRARY_EXC_ROOT = 'FlipJumpException'


@dataclass
class Site:
    rel: str
    func: str
    kind: str                  # subscript | call | binop
    node: ast.AST
    classes: Tuple[str, ...]   # exception classes it may raise
    what: str                  # short description
    key: str = ''              # stable construct key (function + normalised text)
    need_all: bool = False     # every class must be caught (the classes are not alternatives of one failure)

    def line(self) -> int:
        return getattr(self.node, 'lineno', 0)


def _const_like(e: ast.AST, const_names: Set[str]) -> bool:
    """operand that is not user influenced: literal, named module constant, memory width, len(...)."""
    if isinstance(e, ast.Constant):
        return True
    if isinstance(e, ast.Name):
        return e.id in const_names
    if isinstance(e, ast.Attribute):
        return dotted(e) in const_names or e.attr in ('memory_width', 'word_size')
    if isinstance(e, ast.UnaryOp):
        return _const_like(e.operand, const_names)
    if isinstance(e, ast.BinOp):
        return _const_like(e.left, const_names) and _const_like(e.right, const_names)
    if isinstance(e, ast.Call):
        d = dotted(e.func)
        if d == 'len':
            return True
        if d.endswith('.bit_length') and isinstance(e.func, ast.Attribute):
            return _const_like(e.func.value, const_names)
    return False


def collect_sites(repo: Repo, rel: str, qualname: str, *, const_names: Optional[Set[str]] = None) -> List[Site]:
    fn = repo.func(rel, qualname)
    cn = set(const_names or ()) | {'w', 'memory_width', 'self.memory_width', 'self.word_size', 'word_bytes_size'}
    out: List[Site] = []
    for n in walk_no_nested(fn):
        if isinstance(n, ast.Subscript) and isinstance(n.ctx, ast.Load) and not isinstance(n.slice, ast.Slice):
            base = norm(n.value)
            # typing subscripts (List[int]) only appear in annotations, which walk_no_nested also yields: skip
            if _in_annotation(n):
                continue
            out.append(Site(rel, qualname, 'subscript', n, ('KeyError', 'IndexError'), f'{base}[{norm(n.slice)}]'))
        elif isinstance(n, ast.BinOp) and isinstance(n.op, (ast.Div, ast.FloorDiv, ast.Mod)):
            if isinstance(n.left, (ast.Constant, ast.JoinedStr)) and isinstance(n.op, ast.Mod) and isinstance(getattr(n.left, 'value', None), str):
                continue       # string formatting
            out.append(Site(rel, qualname, 'binop', n, ('ZeroDivisionError',), norm(n)))
        elif isinstance(n, ast.BinOp) and isinstance(n.op, (ast.LShift, ast.RShift, ast.Pow)):
            out.append(Site(rel, qualname, 'binop', n, ('ValueError', 'OverflowError', 'MemoryError'), norm(n)))
        elif isinstance(n, ast.Call):
            d = dotted(n.func)
            last = d.split('.')[-1]
            if last in ('unpack', 'pack') or d.startswith('struct.'):
                out.append(Site(rel, qualname, 'call', n, ('error',), f'{d}(...)'))          # struct.error
            elif d == 'int' and n.args and not isinstance(n.args[0], ast.Constant):
                out.append(Site(rel, qualname, 'call', n, ('ValueError',), norm(n)))
            elif d.startswith('lzma.') and last in ('compress', 'decompress'):
                out.append(Site(rel, qualname, 'call', n, ('LZMAError',), f'{d}(...)'))
            elif d == 'open' or last == 'open':
                out.append(Site(rel, qualname, 'call', n, ('OSError',), norm(n)[:60]))
            elif last in ('popleft', 'pop') and not n.args:
                out.append(Site(rel, qualname, 'call', n, ('IndexError',), norm(n)))
            elif last in ('decode',) or (last == 'read' and 'encoding' in norm(n.func)):
                out.append(Site(rel, qualname, 'call', n, ('UnicodeDecodeError',), norm(n)[:70]))
            elif d in ('FJMVersion',):
                out.append(Site(rel, qualname, 'call', n, ('ValueError',), norm(n)))
            elif isinstance(n.func, ast.Subscript) and 'op_string_to_function' in norm(n.func.value):
                # user arithmetic: x / 0 (ZeroDivisionError), 1 << -1 (ValueError), 1 << 2**70 (OverflowError), 1 << 2**40 (MemoryError)
                out.append(Site(rel, qualname, 'call', n, ('ZeroDivisionError', 'ValueError', 'OverflowError', 'MemoryError'),
                                'call through op_string_to_function', need_all=True))
    for s in out:
        s.key = f'{qualname}:{s.what}'
    return out


def _in_annotation(n: ast.AST) -> bool:
    child = n
    for a in ancestors(n):
        if isinstance(a, (ast.AnnAssign,)) and a.annotation is child:
            return True
        if isinstance(a, ast.arg):
            return True
        if isinstance(a, (ast.FunctionDef, ast.AsyncFunctionDef)) and a.returns is child:
            return True
        child = a
    return False


def lexical_handler(site_node: ast.AST, classes: Sequence[str], hierarchy: Callable[[str, str], bool]) -> Optional[ast.ExceptHandler]:
    """innermost enclosing handler (same function) catching one of the classes."""
    for t, h in enclosing_handlers(site_node):
        for ht in handler_types(h):
            if any(hierarchy(c, ht) for c in classes):
                return h
    return None


BUILTIN_BASES = {
    'KeyError': 'LookupError', 'IndexError': 'LookupError', 'LookupError': 'Exception', 'ValueError': 'Exception',
    'ZeroDivisionError': 'ArithmeticError', 'OverflowError': 'ArithmeticError', 'ArithmeticError': 'Exception',
    'TypeError': 'Exception', 'MemoryError': 'Exception', 'OSError': 'Exception', 'IOError': 'Exception',
    'UnicodeDecodeError': 'ValueError', 'RecursionError': 'RuntimeError', 'RuntimeError': 'Exception',
    'error': 'Exception', 'LZMAError': 'Exception', 'EOFError': 'Exception', 'Exception': 'BaseException',
    'KeyboardInterrupt': 'BaseException', 'AssertionError': 'Exception', 'StopIteration': 'Exception',
    'NotImplementedError': 'RuntimeError', 'AttributeError': 'Exception',
}


def make_hierarchy(repo: Repo) -> Callable[[str, str], bool]:
    lib: Dict[str, List[str]] = {}
    for st in repo.mod('flipjump/utils/exceptions.py').body:
        if isinstance(st, ast.ClassDef):
            lib[st.name] = [dotted(b).split('.')[-1] for b in st.bases]

    def sub(a: str, b: str) -> bool:
        a, b = a.split('.')[-1], b.split('.')[-1]
        if a == b or b == 'BaseException':
            return True
        for base in lib.get(a, [BUILTIN_BASES[a]] if a in BUILTIN_BASES else []):
            if sub(base, b):
                return True
        return False
    return sub


def handler_converts(h: ast.ExceptHandler, hierarchy: Callable[[str, str], bool]) -> str:
    """'library' if the handler raises a library exception, 'handled' if it does not re-raise, 'reraise' otherwise."""
    raises = [n for n in ast.walk(h) if isinstance(n, ast.Raise)]
    if not raises:
        return 'handled'
    for r in raises:
        c = raised_class(r)
        if c and hierarchy(c, LIBRARY_EXC_ROOT):
            return 'library'
        if r.exc is None:
            return 'reraise'
    return 'reraise'


def _is_noreturn_call(st: ast.stmt) -> bool:
    from .pyfacts import NORETURN_NAMES, dotted
    return isinstance(st, ast.Expr) and isinstance(st.value, ast.Call) and dotted(st.value.func).split('.')[-1] in NORETURN_NAMES


def _filtered_iteration_facts(fn: ast.AST, loop: ast.For) -> List[str]:
    """the filter conditions of the sequence a `for` loop walks, phrased over the loop variable: the sequence is an identity
    comprehension `[v for v in X if C ...]`, written in the loop header or bound to a local exactly once and only read since."""
    from .pyfacts import clone
    it: ast.AST = loop.iter
    if isinstance(it, ast.Name):
        name = it.id
        stores = [n for n in walk_no_nested(fn) if isinstance(n, ast.Name) and n.id == name and isinstance(n.ctx, ast.Store)]
        defs = [n for n in walk_no_nested(fn) if isinstance(n, ast.Assign) and len(n.targets) == 1 and isinstance(n.targets[0], ast.Name)
                and n.targets[0].id == name]
        if len(stores) != 1 or len(defs) != 1:
            return []
        # only read: no method call on it, no subscript store, not passed on
        for n in walk_no_nested(fn):
            if isinstance(n, ast.Name) and n.id == name and isinstance(n.ctx, ast.Load):
                par = getattr(n, '_parent', None)
                if par is loop or (isinstance(par, ast.Call) and isinstance(par.func, ast.Name) and par.func.id in ('len', 'bool', 'any', 'all')):
                    continue
                if isinstance(par, (ast.UnaryOp, ast.If, ast.Compare, ast.BoolOp)):
                    continue
                return []
        it = defs[0].value
    if not isinstance(it, (ast.ListComp, ast.GeneratorExp)) or len(it.generators) != 1:
        return []
    g = it.generators[0]
    if not (isinstance(g.target, ast.Name) and isinstance(it.elt, ast.Name) and it.elt.id == g.target.id) or g.is_async:
        return []
    tv, lv = g.target.id, loop.target.id          # type: ignore[attr-defined]
    if any(isinstance(x, ast.Name) and isinstance(x.ctx, ast.Store) and x.id == lv for st in loop.body for x in ast.walk(st)):
        return []

    class R(ast.NodeTransformer):
        def visit_Name(self, node: ast.Name) -> ast.AST:
            return ast.copy_location(ast.Name(id=lv, ctx=node.ctx), node) if node.id == tv else node
    out = []
    for c in g.ifs:
        e = R().visit(clone(c))
        out.append(norm(e))
        if isinstance(e, ast.BoolOp) and isinstance(e.op, ast.And):
            out.extend(norm(v) for v in e.values)
    return out


def dominating_guards(site_node: ast.AST) -> List[Tuple[str, bool]]:
    """(normalised test, polarity) of conditions known at the site from lexical structure:
    enclosing `if T:` -> (T, True) / else-branch -> (T, False); earlier sibling `if T: raise/return/continue` -> (T, False)."""
    out: List[Tuple[str, bool]] = []
    child: ast.AST = site_node
    from .pyfacts import named_predicate
    fn0 = next((x for x in ancestors(site_node) if isinstance(x, (ast.FunctionDef, ast.AsyncFunctionDef))), None)
    for a in ancestors(site_node):
        if isinstance(a, ast.If) and fn0 is not None:
            rt = named_predicate(fn0, a.test)               # `if is_cached:` reads as the condition the local names
            if rt is not a.test:
                if any(child is s for s in a.body):
                    out.append((norm(rt), True))
                elif any(child is s for s in a.orelse):
                    out.append((norm(rt), False))
        if isinstance(a, ast.If):
            if any(child is s for s in a.body):
                out.append((norm(a.test), True))
                if isinstance(a.test, ast.BoolOp) and isinstance(a.test.op, ast.And):
                    out.extend((norm(v), True) for v in a.test.values)
            elif any(child is s for s in a.orelse):
                out.append((norm(a.test), False))
                if isinstance(a.test, ast.BoolOp) and isinstance(a.test.op, ast.Or):
                    out.extend((norm(v), False) for v in a.test.values)
        if isinstance(a, ast.IfExp):
            if child is a.body:
                out.append((norm(a.test), True))
            elif child is a.orelse:
                out.append((norm(a.test), False))
        if isinstance(a, ast.BoolOp) and isinstance(a.op, ast.And):
            for v in a.values:
                if v is child:
                    break
                out.append((norm(v), True))
        # `for t in [v for v in X if C]` (the list possibly named once first): C holds of t in the loop body
        if isinstance(a, ast.For) and isinstance(a.target, ast.Name) and any(child is s for s in a.body) and fn0 is not None:
            out.extend((c, True) for c in _filtered_iteration_facts(fn0, a))
        for fld in ('body', 'orelse', 'finalbody'):
            seq = getattr(a, fld, None)
            if isinstance(seq, list) and any(child is s for s in seq):
                for s in seq:
                    if s is child:
                        break
                    if isinstance(s, ast.If) and not s.orelse and s.body and (isinstance(s.body[-1], (ast.Raise, ast.Return, ast.Continue, ast.Break))
                                                                              or _is_noreturn_call(s.body[-1])):
                        out.append((norm(s.test), False))
                        rt2 = named_predicate(fn0, s.test) if fn0 is not None else s.test
                        if rt2 is not s.test:
                            out.append((norm(rt2), False))
                    if isinstance(s, ast.If) and s.body and isinstance(s.body[0], ast.Raise):
                        out.append((norm(s.test), False))
        if isinstance(a, (ast.FunctionDef, ast.AsyncFunctionDef)):
            break
        child = a
    # comprehension conditions
    for a in ancestors(site_node):
        if isinstance(a, (ast.ListComp, ast.SetComp, ast.GeneratorExp, ast.DictComp)):
            for g in a.generators:
                for c in g.ifs:
                    out.append((norm(c), True))
        if isinstance(a, (ast.FunctionDef, ast.AsyncFunctionDef)):
            break
    return out


def raise_conditions(fn: ast.AST) -> List[Tuple[ast.Raise, List[Tuple[ast.expr, bool]]]]:
    """every `raise` of fn with the conditions that dominate it (tests as expressions, named conditions read through): the raise is
    reached exactly when all of them hold - whichever of `if bad: raise`, `if ok: .. else: raise`, `ok = ..; if not ok: raise` spells it"""
    out = []
    for r in walk_no_nested(fn):
        if isinstance(r, ast.Raise):
            conds = []
            seen = set()
            for t, pol in dominating_guards(r):
                if (t, pol) in seen:
                    continue
                seen.add((t, pol))
                try:
                    conds.append((ast.parse(t, mode='eval').body, pol))
                except SyntaxError:
                    continue
            out.append((r, conds))
    return out


def refusal_tests(fn: ast.AST) -> List[Tuple[ast.Raise, ast.expr]]:
    """every raise of fn with ONE expression that is true exactly when it is reached: the conjunction of its dominating conditions
    (negated where the raise sits on the false side), locals that name a value read through"""
    from .pyfacts import resolve_names
    out = []
    for r, conds in raise_conditions(fn):
        parts: List[ast.expr] = []
        seen = set()
        for c, pol in conds:
            c2 = resolve_names(fn, c, allow_calls=True, depth=3)          # type: ignore[arg-type]
            e = c2 if pol else ast.UnaryOp(op=ast.Not(), operand=c2)
            k = ast.dump(e)
            if k not in seen:
                seen.add(k)
                parts.append(e)
        if parts:
            out.append((r, parts[0] if len(parts) == 1 else ast.BoolOp(op=ast.And(), values=parts)))
    return [(r, ast.fix_missing_locations(e)) for r, e in out]


class GuardFacts:
    """the conditions known at a site as a set of canonical facts: every (test, polarity) of dominating_guards is brought to
    negation normal form and split into its conjuncts, so `len(n) >= 2` is known in the body of `if len(n) >= 2:`, in the else
    branch of `if len(n) < 2:`, after `if not len(n) >= 2: return`, and under `if 2 <= len(n) and x:` alike.
    .get(text) -> True (the condition holds) / False (its negation holds) / None (unknown) - the dict interface the rules used."""

    def __init__(self, guards: List[Tuple[str, bool]]):
        from .pyfacts import canon_cond, push_not
        self.facts: Set[str] = set()
        for t, pol in guards:
            try:
                e = ast.parse(t, mode='eval').body
            except SyntaxError:
                continue
            nn = push_not(e, not pol)
            stack = [nn]
            while stack:
                x = stack.pop()
                if isinstance(x, ast.BoolOp) and isinstance(x.op, ast.And):
                    stack.extend(x.values)
                else:
                    self.facts.add(canon_cond(x))

    def get(self, text: str, default: Optional[bool] = None) -> Optional[bool]:
        from .pyfacts import canon_cond, push_not
        e = ast.parse(text, mode='eval').body
        pos = [canon_cond(x) for x in self._conj(push_not(e))]
        if all(p in self.facts for p in pos):
            return True
        neg = [canon_cond(x) for x in self._conj(push_not(e, True))]
        if all(p in self.facts for p in neg):
            return False
        return default

    @staticmethod
    def _conj(x: ast.expr) -> List[ast.expr]:
        if isinstance(x, ast.BoolOp) and isinstance(x.op, ast.And):
            out: List[ast.expr] = []
            for v in x.values:
                out.extend(GuardFacts._conj(v))
            return out
        return [x]

    def __contains__(self, item: Tuple[str, bool]) -> bool:
        return self.get(item[0]) is item[1]

    def __iter__(self):          # type: ignore[no-untyped-def]
        return iter(())


def range_bounded_index(sub: ast.Subscript) -> Optional[str]:
    """`S[i + k]` (k an integer literal, possibly negative or absent) where i is the variable of an enclosing
    `for i in range([lo,] len(S) [+/- d])` and lo + k >= 0 and the upper end keeps i + k <= len(S) - 1: the proof text, else None."""
    from .pyfacts import ancestors, dotted, norm
    idx = sub.slice
    k = 0
    var = None
    if isinstance(idx, ast.Name):
        var = idx.id
    elif isinstance(idx, ast.BinOp) and isinstance(idx.op, (ast.Add, ast.Sub)) and isinstance(idx.left, ast.Name) \
            and isinstance(idx.right, ast.Constant) and isinstance(idx.right.value, int):
        var, k = idx.left.id, (idx.right.value if isinstance(idx.op, ast.Add) else -idx.right.value)
    if var is None:
        return None
    base = norm(sub.value)
    for a in ancestors(sub):
        if isinstance(a, ast.For) and isinstance(a.target, ast.Name) and a.target.id == var and isinstance(a.iter, ast.Call) \
                and dotted(a.iter.func) == 'range' and 1 <= len(a.iter.args) <= 2:
            lo = 0
            hi = a.iter.args[-1]
            if len(a.iter.args) == 2:
                if not (isinstance(a.iter.args[0], ast.Constant) and isinstance(a.iter.args[0].value, int)):
                    return None
                lo = a.iter.args[0].value
            hi_off = 0
            if isinstance(hi, ast.BinOp) and isinstance(hi.op, (ast.Add, ast.Sub)) and isinstance(hi.right, ast.Constant) and isinstance(hi.right.value, int):
                hi_off = hi.right.value if isinstance(hi.op, ast.Add) else -hi.right.value
                hi = hi.left
            if norm(hi) != f'len({base})':
                return None
            # the loop variable and the sequence are not re-bound inside the loop
            if any(isinstance(x, ast.Name) and isinstance(x.ctx, ast.Store) and x.id in (var, base) for st in a.body for x in ast.walk(st)):
                return None
            if lo + k >= 0 and hi_off + k <= 0:
                return f'BOUNDED: {var} ranges over range({lo}, len({base}){hi_off:+d}); index {var}{k:+d} stays inside the list'
            return None
    return None
