"""fjverif core: rule-instance reporting, known findings, evidence, exit codes.

Exit codes (DESIGN.md section 3.3):
  0  every instance held (or failed only on constructs listed in known_findings.json)
  1  at least one unlisted failing instance  -> "VIOLATION property=<id> replay=<path>"
  2  ANALYSIS-ERROR (anchor/role missing, idiom unrecognised, floor not reached, traceback)
"""
from __future__ import annotations

import json
import os
import sys
import time
import traceback
from dataclasses import dataclass, field
from pathlib import Path
from typing import Any, Callable, Dict, List, Optional, Tuple

VERIF_ROOT = Path(__file__).resolve().parent.parent
EVIDENCE_DIR = VERIF_ROOT / 'evidence'
VIOLATIONS_DIR = EVIDENCE_DIR / 'violations'
KNOWN_FINDINGS_FILE = VERIF_ROOT / 'known_findings.json'


class AnalysisError(Exception):
    """The checker cannot decide (anchor missing, unrecognised idiom, floor not reached)."""


@dataclass
class Instance:
    rule: str
    construct: str          # stable key, never a line number
    ok: bool
    fact: str               # what was found (human readable)
    site: str = ''          # file:line function  (diagnostic only)
    expected: str = ''
    path: List[str] = field(default_factory=list)   # CFG / call-graph path for path rules
    nontrivial: bool = True

    def key(self) -> Tuple[str, str]:
        return self.rule, self.construct

    def to_json(self) -> Dict[str, Any]:
        d: Dict[str, Any] = dict(rule=self.rule, construct=self.construct, ok=self.ok, fact=self.fact, site=self.site)
        if self.expected:
            d['expected'] = self.expected
        if self.path:
            d['path'] = self.path
        return d


class Report:
    """Collects rule instances for one property."""

    def __init__(self, prop_id: str, tier: str = 'quick'):
        self.prop_id = prop_id
        self.tier = tier
        self.instances: List[Instance] = []
        self.floors: Dict[str, int] = {}
        self.rule_text: Dict[str, str] = {}
        self.units: Dict[str, Any] = {}
        self.notes: List[str] = []
        self.assumptions: List[str] = []
        self.not_decided: List[str] = []
        self.uncovered: List[str] = []
        self._seen: Dict[Tuple[str, str], int] = {}

    # -- rule bookkeeping
    def rule(self, name: str, text: str, floor: int) -> None:
        self.rule_text[name] = text
        self.floors[name] = floor

    def _add(self, inst: Instance) -> None:
        k = inst.key()
        n = self._seen.get(k, 0)
        self._seen[k] = n + 1
        if n:
            inst.construct = f'{inst.construct}#{n + 1}'
        self.instances.append(inst)

    def ok(self, rule: str, construct: str, fact: str, site: str = '', nontrivial: bool = True) -> None:
        self._add(Instance(rule, construct, True, fact, site, nontrivial=nontrivial))

    def fail(self, rule: str, construct: str, fact: str, site: str = '', expected: str = '',
             path: Optional[List[str]] = None) -> None:
        self._add(Instance(rule, construct, False, fact, site, expected, path or []))

    def check(self, cond: bool, rule: str, construct: str, fact: str, site: str = '', expected: str = '') -> bool:
        if cond:
            self.ok(rule, construct, fact, site)
        else:
            self.fail(rule, construct, fact, site, expected)
        return cond

    def count(self, rule: str) -> int:
        return sum(1 for i in self.instances if i.rule == rule)


def load_known_findings() -> List[Dict[str, Any]]:
    if not KNOWN_FINDINGS_FILE.exists():
        return []
    data = json.loads(KNOWN_FINDINGS_FILE.read_text())
    return list(data.get('findings', []))


def _match_known(inst: Instance, prop_id: str, known: List[Dict[str, Any]]) -> Optional[Dict[str, Any]]:
    for k in known:
        if k.get('status', 'known') != 'known':
            continue      # "fixed" entries suppress nothing
        if prop_id not in k.get('properties', []):
            continue
        if k.get('rule') == inst.rule and k.get('construct') == inst.construct.split('#')[0]:
            return k
    return None


def finish(rep: Report, t0: float, *, write_evidence: bool = True, out=sys.stdout) -> int:
    """Check floors, classify failures against known findings, write evidence, print, return exit code."""
    # floors: a rule that matched fewer sites than confirmed by hand is an analysis error
    for rule, floor in rep.floors.items():
        n = rep.count(rule)
        if n < floor:
            raise AnalysisError(f'{rule}: only {n} instance(s) extracted, floor is {floor} '
                                f'(an anchor vanished or an idiom is no longer recognised)')
    known = load_known_findings()
    failing = [i for i in rep.instances if not i.ok]
    known_hits: List[Tuple[Instance, Dict[str, Any]]] = []
    new: List[Instance] = []
    for inst in failing:
        k = _match_known(inst, rep.prop_id, known)
        if k is not None:
            known_hits.append((inst, k))
        else:
            new.append(inst)

    print(f'== {rep.prop_id} [{rep.tier}] analysed: {json.dumps(rep.units, sort_keys=True)}', file=out)
    for rule in rep.rule_text:
        insts = [i for i in rep.instances if i.rule == rule]
        bad = [i for i in insts if not i.ok]
        print(f'  {rule:<24} instances={len(insts):<4} failing={len(bad):<3} floor={rep.floors.get(rule, 0)}', file=out)
    verbose = os.environ.get('FJVERIF_VERBOSE') == '1'
    if verbose:
        for i in rep.instances:
            print(f'    [{"ok" if i.ok else "FAIL"}] {i.rule} @ {i.construct} ({i.site}): {i.fact}', file=out)
    for inst, k in known_hits:
        print(f'KNOWN-FINDING: property={rep.prop_id} {inst.rule} {inst.construct} ({inst.site}) '
              f'[{k.get("id", "?")}] - {k.get("what", inst.fact)}', file=out)

    replay_paths: List[str] = []
    if new:
        vdir = VIOLATIONS_DIR if os.environ.get('FJVERIF_NO_EVIDENCE') != '1' else Path(os.environ.get('TMPDIR', '/tmp')) / 'fjverif-violations'
        vdir.mkdir(parents=True, exist_ok=True)
        for n, inst in enumerate(new):
            p = vdir / f'{rep.prop_id}-{n:03d}.json'
            p.write_text(json.dumps(dict(property=rep.prop_id, tier=rep.tier, **inst.to_json(),
                                         rule_text=rep.rule_text.get(inst.rule, '')), indent=1))
            replay_paths.append(str(p))
            print(f'  violated: {inst.rule} @ {inst.construct} ({inst.site}): {inst.fact}'
                  + (f' | expected: {inst.expected}' if inst.expected else ''), file=out)
            for step in inst.path:
                print(f'      path: {step}', file=out)
            print(f'VIOLATION property={rep.prop_id} replay={p}', file=out)

    wall = time.time() - t0
    if write_evidence and os.environ.get('FJVERIF_NO_EVIDENCE') != '1':
        EVIDENCE_DIR.mkdir(parents=True, exist_ok=True)
        per_rule = {}
        for rule in rep.rule_text:
            insts = [i for i in rep.instances if i.rule == rule]
            per_rule[rule] = dict(instances=len(insts), held=sum(1 for i in insts if i.ok),
                                  floor=rep.floors.get(rule, 0), rule=rep.rule_text[rule])
        # samples: up to 3 per rule, failing first
        samples = []
        for rule in rep.rule_text:
            insts = sorted((i for i in rep.instances if i.rule == rule), key=lambda i: i.ok)
            samples.extend(i.to_json() for i in insts[:3])
        distinct = len({i.key() for i in rep.instances if i.nontrivial})
        ev = dict(
            property_id=rep.prop_id,
            tier=rep.tier,
            seed=int(os.environ.get('VERIF_SEED', '0') or 0),
            level='other',
            coverage=dict(
                explanation=('static analysis of /repo\'s current source: rule instances extracted from the Python '
                             'ast / clang AST / .fj front end and judged against reference tables; '
                             + ' | '.join(f'{r}: {t}' for r, t in rep.rule_text.items())),
                rule='one case = one (rule, construct) instance extracted from the current source; non-trivial = the '
                     'instance had a real site to examine; distinct by (rule, construct)',
                evaluations=len(rep.instances),
                distinct_nontrivial=distinct,
                obligations=len(rep.instances),
                discharged=sum(1 for i in rep.instances if i.ok),
                samples=samples[:60],
                per_rule=per_rule,
                units=rep.units,
                known_findings=[dict(id=k.get('id'), rule=i.rule, construct=i.construct, site=i.site)
                                for i, k in known_hits],
                not_decided=rep.not_decided,
                uncovered=rep.uncovered,
                notes=rep.notes,
                trusted_base=['CPython ast', 'clang 14 parser/type checker (JSON AST)', 'fjverif fact extractors',
                              'frozen reference tables in fjverif/spec'],
                checker_cmd=f'/venv/bin/python -m fjverif check {rep.prop_id} --tier {rep.tier}',
                exhaustive=False,
            ),
            assumptions=rep.assumptions,
            wall_s=round(wall, 3),
            violations=len(new),
        )
        (EVIDENCE_DIR / f'{rep.prop_id}.json').write_text(json.dumps(ev, indent=1, sort_keys=False) + '\n')
    print(f'== {rep.prop_id}: {len(rep.instances)} instances, {len(failing)} failing '
          f'({len(known_hits)} known, {len(new)} new), {wall:.2f}s', file=out)
    return 1 if new else 0


def run_check(prop_id: str, tier: str, body: Callable[[Report], None]) -> int:
    """Run a property check with the fail-closed wrapper: any traceback is exit 2, never 1."""
    t0 = time.time()
    rep = Report(prop_id, tier)
    try:
        body(rep)
        return finish(rep, t0)
    except AnalysisError as e:
        print(f'ANALYSIS-ERROR property={prop_id}: {e}')
        return 2
    except Exception:   # noqa: BLE001 - fail closed
        print(f'ANALYSIS-ERROR property={prop_id}: internal error')
        traceback.print_exc(file=sys.stdout)
        return 2
