"""fjverif command line:  python -m fjverif check <ID> [--tier quick|thorough] | explain <path> | selftest ..."""
from __future__ import annotations

import argparse
import importlib
import json
import os
import sys

from .core import Report, run_check

PROPS = [f'C{n:02d}' for n in range(1, 21)]


def _check(prop: str, tier: str) -> int:
    try:
        mod = importlib.import_module(f'fjverif.rules.{prop.lower()}')
    except ModuleNotFoundError:
        print(f'ANALYSIS-ERROR property={prop}: no rule module')
        return 2
    return run_check(prop, tier, lambda rep: mod.check(rep))


def main(argv=None) -> int:
    ap = argparse.ArgumentParser(prog='fjverif')
    sub = ap.add_subparsers(dest='cmd', required=True)
    c = sub.add_parser('check')
    c.add_argument('prop')
    c.add_argument('--tier', default=os.environ.get('VERIF_TIER', 'quick'), choices=['quick', 'thorough'])
    e = sub.add_parser('explain')
    e.add_argument('path')
    s = sub.add_parser('selftest')
    s.add_argument('props', nargs='*')
    s.add_argument('--jobs', type=int, default=16)
    args = ap.parse_args(argv)
    if args.cmd == 'check':
        rc = _check(args.prop.upper(), args.tier)
        if rc == 0 and args.tier == 'thorough':
            from .selftest import run_selftest
            rc = run_selftest([args.prop.upper()], jobs=16)
        return rc
    if args.cmd == 'explain':
        d = json.load(open(args.path))
        print(json.dumps(d, indent=1))
        os.environ['FJVERIF_VERBOSE'] = '0'
        return _check(d['property'], d.get('tier', 'quick'))
    if args.cmd == 'selftest':
        from .selftest import run_selftest
        return run_selftest([p.upper() for p in args.props] or PROPS, jobs=args.jobs)
    return 2


if __name__ == '__main__':
    try:
        sys.exit(main())
    except SystemExit:
        raise
    except BaseException as ex:          # noqa: BLE001 - fail closed: a traceback anywhere is exit 2, never 1
        import traceback
        print(f'ANALYSIS-ERROR: internal error in the checker ({type(ex).__name__}: {ex})')
        traceback.print_exc(file=sys.stdout)
        sys.exit(2)
