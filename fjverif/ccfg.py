"""ccfg: goto-aware control-flow graph over clang's JSON AST (same Graph shape as pycfg).

The FJ_ALWAYS_INLINE loop bodies are analysed per literal-argument tuple ("clone"): branch
conditions that fold under the clone's constants (with_ring, width, ww) keep only the taken
edge - constant propagation, not execution.
"""
from __future__ import annotations

from typing import Any, Dict, List, Optional, Tuple

from .cfacts import CUnit, strip, walk
from .core import AnalysisError
from .pycfg import Graph

Consts = Dict[str, int]


def fold_cond(n: Dict[str, Any], consts: Consts) -> Optional[int]:
    """tri-state constant folding of a C condition under known integer parameters."""
    n = strip(n)
    k = n.get('kind')
    if k == 'IntegerLiteral':
        return int(n['value'])
    if k == 'DeclRefExpr':
        return consts.get(n['referencedDecl']['name'])
    if k == 'UnaryOperator' and n.get('opcode') == '!':
        v = fold_cond(n['inner'][0], consts)
        return None if v is None else int(not v)
    if k == 'BinaryOperator':
        op = n.get('opcode')
        a = fold_cond(n['inner'][0], consts)
        b = fold_cond(n['inner'][1], consts)
        if op == '&&':
            if a == 0 or b == 0:
                return 0
            if a is not None and b is not None:
                return int(bool(a) and bool(b))
            return None
        if op == '||':
            if (a is not None and a != 0) or (b is not None and b != 0):
                return 1
            if a == 0 and b == 0:
                return 0
            return None
        if a is None or b is None:
            return None
        table = {'<': a < b, '<=': a <= b, '>': a > b, '>=': a >= b, '==': a == b, '!=': a != b}
        if op in table:
            return int(table[op])
        arith = {'+': a + b, '-': a - b, '*': a * b, '<<': a << b if b < 128 else None, '>>': a >> b,
                 '&': a & b, '|': a | b}
        if op in arith and arith[op] is not None:
            return arith[op]
    return None


def build_c_cfg(cu: CUnit, fname: str, consts: Optional[Consts] = None) -> Graph:
    consts = consts or {}
    g = Graph()
    body = cu.body(fname)
    labels: Dict[str, int] = {}

    def collect(n: Dict[str, Any]) -> None:
        if n.get('kind') == 'LabelStmt':
            labels[n['declId']] = g.new('label', n, name=n['name'])
        for c in n.get('inner', []):
            if isinstance(c, dict):
                collect(c)
    collect(body)
    EXIT = g.new('exit')

    def build(s: Dict[str, Any], nxt: int, brk: Optional[int], cont: Optional[int]) -> int:
        k = s.get('kind')
        if not k:
            return nxt
        if k == 'CompoundStmt':
            cur = nxt
            for c in reversed(s.get('inner', [])):
                cur = build(c, cur, brk, cont)
            return cur
        if k == 'IfStmt':
            inner = s['inner']
            cond, then = inner[0], inner[1]
            els = inner[2] if len(inner) > 2 else None
            v = fold_cond(cond, consts)
            if v is not None:
                return build(then, nxt, brk, cont) if v else (build(els, nxt, brk, cont) if els else nxt)
            t_node = build(then, nxt, brk, cont)
            f_node = build(els, nxt, brk, cont) if els else nxt
            if not consts.get('__split_conditions__'):
                c = g.new('cond', cond, name='if')
                g.edge(c, t_node, 'T')
                g.edge(c, f_node, 'F')
                return c

            # opt-in: short-circuit operators lowered to one test node per operand, so `if (A || B) goto slow;` gives the same
            # facts as `if (A) goto slow; if (B) goto slow;` (B is only evaluated, and the fall-through only reached, with A false)
            def lower(e: Dict[str, Any], t: int, f: int) -> int:
                x = e
                while x.get('kind') in ('ParenExpr', 'ImplicitCastExpr') and x.get('inner'):
                    x = x['inner'][0]
                if x.get('kind') == 'BinaryOperator' and x.get('opcode') == '||':
                    return lower(x['inner'][0], t, lower(x['inner'][1], t, f))
                if x.get('kind') == 'BinaryOperator' and x.get('opcode') == '&&':
                    return lower(x['inner'][0], lower(x['inner'][1], t, f), f)
                if x.get('kind') == 'UnaryOperator' and x.get('opcode') == '!':
                    y = x['inner'][0]
                    while y.get('kind') in ('ParenExpr', 'ImplicitCastExpr') and y.get('inner'):
                        y = y['inner'][0]
                    if y.get('kind') == 'BinaryOperator' and y.get('opcode') in ('||', '&&'):
                        return lower(y, f, t)
                c2 = g.new('cond', x, name='if')
                g.edge(c2, t, 'T')
                g.edge(c2, f, 'F')
                return c2
            return lower(cond, t_node, f_node)
        if k == 'ForStmt':
            init, _condvar, cond, incr, bod = s['inner']
            head = g.new('join', None, name='for-head', extra=s)
            incn = build(incr, head, brk, cont) if incr.get('kind') else head
            if cond.get('kind'):
                c = g.new('cond', cond, name='for')
                g.edge(head, c)
                g.edge(c, build(bod, incn, nxt, incn), 'T')
                g.edge(c, nxt, 'F')
            else:
                g.edge(head, build(bod, incn, nxt, incn))
            return build(init, head, brk, cont) if init.get('kind') else head
        if k == 'WhileStmt':
            cond, bod = s['inner'][-2:]
            c = g.new('cond', cond, name='while')
            g.edge(c, build(bod, c, nxt, c), 'T')
            g.edge(c, nxt, 'F')
            return c
        if k == 'DoStmt':
            bod, cond = s['inner']
            c = g.new('cond', cond, name='do-while')
            head = g.new('join', None, name='do-head', extra=s)
            g.edge(head, build(bod, c, nxt, c))
            g.edge(c, head, 'T')
            g.edge(c, nxt, 'F')
            return head
        if k == 'SwitchStmt':
            cond, bod = s['inner'][0], s['inner'][-1]
            sw = g.new('switch', cond, name='switch')
            stmts = bod.get('inner', [])
            cur = nxt
            entries = []
            for c in reversed(stmts):
                cur = build(c, cur, nxt, cont)
                if c.get('kind') in ('CaseStmt', 'DefaultStmt'):
                    entries.append((cur, c))
            for e, _c in entries:
                g.edge(sw, e, 'case')
            if not any(c.get('kind') == 'DefaultStmt' for _, c in entries):
                g.edge(sw, nxt, 'nodefault')
            return sw
        if k in ('CaseStmt', 'DefaultStmt'):
            return build(s['inner'][-1], nxt, brk, cont)
        if k == 'LabelStmt':
            lab = labels[s['declId']]
            g.edge(lab, build(s['inner'][0], nxt, brk, cont))
            return lab
        if k == 'GotoStmt':
            n = g.new('goto', s, name='goto')
            g.edge(n, labels[s['targetLabelDeclId']])
            return n
        if k == 'ReturnStmt':
            n = g.new('return', s, name='return')
            g.edge(n, EXIT)
            return n
        if k == 'ContinueStmt':
            n = g.new('continue', s, name='continue')
            if cont is None:
                raise AnalysisError(f'{fname}: continue outside loop')
            g.edge(n, cont)
            return n
        if k == 'BreakStmt':
            n = g.new('break', s, name='break')
            if brk is None:
                raise AnalysisError(f'{fname}: break outside loop/switch')
            g.edge(n, brk)
            return n
        if k == 'NullStmt':
            return nxt
        n = g.new('stmt', s, name=k)
        g.edge(n, nxt)
        return n

    g.entry = build(body, EXIT, None, None)
    g.exit = EXIT
    g.labels = {g.nodes[v].name: v for v in labels.values()}
    return g


def loop_heads(g: Graph, name: str = 'do-head') -> List[int]:
    return [n.id for n in g.nodes if n.kind == 'join' and n.name == name]
