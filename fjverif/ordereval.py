"""ordereval: decide predicates whose arguments are touched only through comparisons (and +-constant)
by enumerating order types - a finite domain that covers every weak ordering of the arguments with
gaps. The predicate's source is interpreted by this tiny evaluator; repository code is not executed."""
from __future__ import annotations

import ast
import itertools
from typing import Any, Callable, Dict, List, Optional, Sequence

from .core import AnalysisError


class _Ret(Exception):
    def __init__(self, v: Any):
        self.v = v


def _ev(n: ast.AST, env: Dict[str, Any]) -> Any:
    if isinstance(n, ast.Constant):
        return n.value
    if isinstance(n, ast.Name):
        if n.id not in env:
            raise AnalysisError(f'ordereval: free name {n.id}')
        return env[n.id]
    if isinstance(n, ast.Tuple):
        return tuple(_ev(e, env) for e in n.elts)
    if isinstance(n, ast.UnaryOp) and isinstance(n.op, ast.Not):
        return not _ev(n.operand, env)
    if isinstance(n, ast.BinOp) and isinstance(n.op, (ast.Add, ast.Sub)):
        a, b = _ev(n.left, env), _ev(n.right, env)
        return a + b if isinstance(n.op, ast.Add) else a - b
    if isinstance(n, ast.BoolOp):
        if isinstance(n.op, ast.And):
            return all(_ev(v, env) for v in n.values)
        return any(_ev(v, env) for v in n.values)
    if isinstance(n, ast.Compare):
        left = _ev(n.left, env)
        for op, c in zip(n.ops, n.comparators):
            right = _ev(c, env)
            ok = {ast.Lt: left < right, ast.LtE: left <= right, ast.Gt: left > right, ast.GtE: left >= right,
                  ast.Eq: left == right, ast.NotEq: left != right}.get(type(op))
            if ok is None:
                raise AnalysisError(f'ordereval: comparison {type(op).__name__}')
            if not ok:
                return False
            left = right
        return True
    if isinstance(n, ast.Call) and isinstance(n.func, ast.Name) and n.func.id in ('any', 'all', 'max', 'min') and len(n.args) >= 1:
        if n.func.id in ('max', 'min'):
            vals = [_ev(a, env) for a in n.args]
            return max(vals) if n.func.id == 'max' else min(vals)
        g = n.args[0]
        if isinstance(g, ast.GeneratorExp) and len(g.generators) == 1 and isinstance(g.generators[0].target, ast.Name):
            it = _ev(g.generators[0].iter, env)
            res = []
            for v in it:
                e2 = dict(env)
                e2[g.generators[0].target.id] = v
                if all(_ev(c, e2) for c in g.generators[0].ifs):
                    res.append(bool(_ev(g.elt, e2)))
            return any(res) if n.func.id == 'any' else all(res)
    if isinstance(n, ast.IfExp):
        return _ev(n.body, env) if _ev(n.test, env) else _ev(n.orelse, env)
    raise AnalysisError(f'ordereval: unsupported expression {ast.unparse(n)[:60]}')


def _run(stmts: Sequence[ast.stmt], env: Dict[str, Any]) -> None:
    for st in stmts:
        if isinstance(st, ast.Return):
            raise _Ret(_ev(st.value, env) if st.value is not None else None)
        if isinstance(st, ast.If):
            _run(st.body if _ev(st.test, env) else st.orelse, env)
        elif isinstance(st, ast.Assign) and len(st.targets) == 1 and isinstance(st.targets[0], ast.Name):
            env[st.targets[0].id] = _ev(st.value, env)
        elif isinstance(st, ast.Expr) and isinstance(st.value, ast.Constant):
            continue
        else:
            raise AnalysisError(f'ordereval: unsupported statement {ast.unparse(st)[:60]}')


def call(fn: ast.FunctionDef, args: Sequence[int]) -> Any:
    params = [a.arg for a in fn.args.args if a.arg not in ('self', 'cls')]
    env: Dict[str, Any] = dict(zip(params, args))
    try:
        _run(fn.body, env)
    except _Ret as r:
        return r.v
    return None


def first_disagreement(fn: ast.FunctionDef, reference: Callable[..., bool], arity: int,
                       constraint: Callable[..., bool], domain: int = 7) -> Optional[Sequence[int]]:
    for args in itertools.product(range(domain), repeat=arity):
        if not constraint(*args):
            continue
        if bool(call(fn, args)) != bool(reference(*args)):
            return args
    return None
