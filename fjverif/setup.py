"""MANIFEST.setup_cmd: nothing to build (stdlib-only, sources are analysed in place). Verifies the front ends."""
import shutil, sys, sysconfig
from pathlib import Path
ok = True
if shutil.which('clang') is None:
    print('setup: clang missing - the C checks will exit 2 (ANALYSIS-ERROR)'); ok = False
if not (Path(sysconfig.get_paths()['include']) / 'Python.h').is_file():
    print('setup: Python.h missing - the C checks will exit 2 (ANALYSIS-ERROR)'); ok = False
print('setup: fjverif ready' if ok else 'setup: degraded')
sys.exit(0)
