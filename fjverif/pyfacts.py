"""pyfacts: parsed view of /repo's Python sources (never imports or executes them)."""
from __future__ import annotations

import ast
import copy
import os
import struct
from pathlib import Path
from typing import Any, Dict, Iterable, Iterator, List, Optional, Sequence, Set, Tuple, Union

from .core import AnalysisError

DEFAULT_REPO = Path(os.environ.get('FJVERIF_REPO', '/repo'))

FuncNode = Union[ast.FunctionDef, ast.AsyncFunctionDef]


# builtins without side effects: a call on pure operands may be substituted / duplicated by the normalisers
PURE_BUILTINS = ('len', 'int', 'bool', 'hex', 'abs', 'min', 'max')

# functions annotated `-> NoReturn` in any module parsed so far: a call of one ends the path like a raise
NORETURN_NAMES: Set[str] = set()


def _spread_divmod(tree: ast.AST) -> None:
    """`q, r = divmod(a, b)` with call-free a, b that do not mention q reads as `q = a // b; r = a % b` (the definition of divmod for
    ints; in place, positions kept) - every rule then sees the two operators it already reads."""
    for parent in ast.walk(tree):
        for field in ('body', 'orelse', 'finalbody'):
            body = getattr(parent, field, None)
            if not isinstance(body, list):
                continue
            out: List[ast.stmt] = []
            for st in body:
                v = st.value if isinstance(st, ast.Assign) and len(st.targets) == 1 else None
                t = st.targets[0] if v is not None else None          # type: ignore[union-attr]
                if (isinstance(v, ast.Call) and isinstance(v.func, ast.Name) and v.func.id == 'divmod' and len(v.args) == 2 and not v.keywords
                        and isinstance(t, (ast.Tuple, ast.List)) and len(t.elts) == 2 and all(isinstance(e, ast.Name) for e in t.elts)
                        and not any(isinstance(x, (ast.NamedExpr, ast.Await, ast.Yield)) or (isinstance(x, ast.Call) and not (
                            isinstance(x.func, ast.Name) and x.func.id == 'len' and len(x.args) == 1 and isinstance(x.args[0], (ast.Name, ast.Attribute))))
                            for a in v.args for x in ast.walk(a))
                        and not any(isinstance(x, ast.Name) and x.id == t.elts[0].id for a in v.args for x in ast.walk(a))):      # type: ignore[attr-defined]
                    for tgt, op in ((t.elts[0], ast.FloorDiv()), (t.elts[1], ast.Mod())):
                        new = ast.Assign(targets=[tgt], value=ast.BinOp(left=copy.deepcopy(v.args[0]), op=op, right=copy.deepcopy(v.args[1])))
                        ast.copy_location(new, st)
                        ast.copy_location(new.value, v)
                        ast.fix_missing_locations(new)
                        out.append(new)
                    continue
                out.append(st)
            body[:] = out


def _explicit_dataclass_init(tree: ast.AST) -> None:
    """A dataclass that declares initial state (a field with a default or a field(...) spec) and no __init__ of its own reads as the
    class with the __init__ the decorator generates: parameters in field order (keyword-only under kw_only), `self.f = f` for init
    fields, `self.f = <default>` / a fresh `<factory>()` for init=False fields, then __post_init__. The class-level declarations stay as
    bare annotations. A class using InitVar / inheritance from a dataclass of the same module is left alone."""
    def is_dc(d: ast.expr) -> bool:
        f = d.func if isinstance(d, ast.Call) else d
        return (isinstance(f, ast.Name) and f.id == 'dataclass') or (isinstance(f, ast.Attribute) and f.attr == 'dataclass')
    def kw(call: ast.Call, name: str) -> Optional[ast.expr]:
        return next((k.value for k in call.keywords if k.arg == name), None)
    def is_field(v: Optional[ast.expr]) -> bool:
        return isinstance(v, ast.Call) and ((isinstance(v.func, ast.Name) and v.func.id == 'field') or
                                            (isinstance(v.func, ast.Attribute) and v.func.attr == 'field'))
    classes = [c for c in ast.walk(tree) if isinstance(c, ast.ClassDef)]
    dcs = {c.name for c in classes if any(is_dc(d) for d in c.decorator_list)}
    for c in classes:
        dec = next((d for d in c.decorator_list if is_dc(d)), None)
        if dec is None or any(isinstance(m, ast.FunctionDef) and m.name == '__init__' for m in c.body):
            continue
        if any(isinstance(b, ast.Name) and b.id in dcs for b in c.bases):
            continue
        if isinstance(dec, ast.Call) and isinstance(kw(dec, 'init'), ast.Constant) and kw(dec, 'init').value is False:      # type: ignore[union-attr]
            continue
        all_kw = isinstance(dec, ast.Call) and isinstance(kw(dec, 'kw_only'), ast.Constant) and bool(kw(dec, 'kw_only').value)  # type: ignore[union-attr]
        decls = [st for st in c.body if isinstance(st, ast.AnnAssign) and isinstance(st.target, ast.Name)
                 and 'ClassVar' not in ast.unparse(st.annotation)]
        if not decls or not any(st.value is not None for st in decls) or any('InitVar' in ast.unparse(st.annotation) for st in decls):
            continue
        pos: List[Tuple[str, Optional[ast.expr]]] = []
        kwo: List[Tuple[str, Optional[ast.expr]]] = []
        body: List[ast.stmt] = []
        ok = True
        for st in decls:
            name = st.target.id                                             # type: ignore[attr-defined]
            default = factory = None
            init, kwonly = True, all_kw
            if is_field(st.value):
                fc = st.value
                if fc.args or any(k.arg is None for k in fc.keywords):      # type: ignore[union-attr]
                    ok = False
                    break
                default, factory = kw(fc, 'default'), kw(fc, 'default_factory')     # type: ignore[arg-type]
                for key, cur in (('init', init), ('kw_only', kwonly)):
                    v = kw(fc, key)                                         # type: ignore[arg-type]
                    if v is not None:
                        if not isinstance(v, ast.Constant):
                            ok = False
                            break
                        if key == 'init':
                            init = bool(v.value)
                        else:
                            kwonly = bool(v.value)
            else:
                default = st.value
            fresh: Optional[ast.expr] = None
            if factory is not None:
                fresh = ast.List(elts=[], ctx=ast.Load()) if isinstance(factory, ast.Name) and factory.id == 'list' else \
                    ast.Dict(keys=[], values=[]) if isinstance(factory, ast.Name) and factory.id == 'dict' else \
                    ast.Call(func=factory, args=[], keywords=[])
            tgt = ast.Attribute(value=ast.Name(id='self', ctx=ast.Load()), attr=name, ctx=ast.Store())
            if init:
                if fresh is not None:
                    (kwo if kwonly else pos).append((name, ast.Constant(value=None)))
                    val: ast.expr = ast.IfExp(test=ast.Compare(left=ast.Name(id=name, ctx=ast.Load()), ops=[ast.Is()], comparators=[ast.Constant(value=None)]),
                                              body=fresh, orelse=ast.Name(id=name, ctx=ast.Load()))
                else:
                    (kwo if kwonly else pos).append((name, default))
                    val = ast.Name(id=name, ctx=ast.Load())
                body.append(ast.Assign(targets=[tgt], value=val))
            elif fresh is not None or default is not None:
                body.append(ast.Assign(targets=[tgt], value=fresh if fresh is not None else default))
        if not ok:
            continue
        if any(isinstance(m, ast.FunctionDef) and m.name == '__post_init__' for m in c.body):
            body.append(ast.Expr(value=ast.Call(func=ast.Attribute(value=ast.Name(id='self', ctx=ast.Load()), attr='__post_init__', ctx=ast.Load()),
                                                args=[], keywords=[])))
        pdefs = [d for _, d in pos]
        first_def = next((i for i, d in enumerate(pdefs) if d is not None), len(pdefs))
        if any(d is None for d in pdefs[first_def:]):
            continue                                                        # not a valid signature: the decorator would refuse it too
        args = ast.arguments(posonlyargs=[], args=[ast.arg(arg='self')] + [ast.arg(arg=n) for n, _ in pos], vararg=None,
                             kwonlyargs=[ast.arg(arg=n) for n, _ in kwo], kw_defaults=[d for _, d in kwo], kwarg=None,
                             defaults=[d for d in pdefs if d is not None])
        fn = ast.FunctionDef(name='__init__', args=args, body=body or [ast.Pass()], decorator_list=[], returns=ast.Constant(value=None),
                             type_comment=None, type_params=[])
        line = decls[0].lineno
        for st in decls:
            st.value = None
            st.simple = 1
        at = max(i for i, st in enumerate(c.body) if st in decls) + 1
        c.body.insert(at, fn)
        for nd in ast.walk(fn):
            if not hasattr(nd, 'lineno'):
                nd.lineno = nd.end_lineno = line                             # type: ignore[attr-defined]
                nd.col_offset = nd.end_col_offset = 0                        # type: ignore[attr-defined]


def _spread_tuple_tables(tree: ast.AST) -> None:
    """`a, b = {k1: (x1, y1), k2: (x2, y2)}[key]` - a literal table of equal-length constant tuples, key call-free - reads as
    `a = {k1: x1, k2: x2}[key]; b = {k1: y1, k2: y2}[key]` (in place): one table per column, the shape every rule already reads."""
    for parent in ast.walk(tree):
        for field in ('body', 'orelse', 'finalbody'):
            body = getattr(parent, field, None)
            if not isinstance(body, list):
                continue
            out: List[ast.stmt] = []
            for st in body:
                v = st.value if isinstance(st, ast.Assign) and len(st.targets) == 1 else None
                t = st.targets[0] if v is not None else None          # type: ignore[union-attr]
                if (isinstance(v, ast.Subscript) and isinstance(v.value, ast.Dict) and v.value.keys and isinstance(t, (ast.Tuple, ast.List))
                        and all(isinstance(e, ast.Name) for e in t.elts) and all(isinstance(k, ast.Constant) for k in v.value.keys)
                        and all(isinstance(x, ast.Tuple) and len(x.elts) == len(t.elts) and all(isinstance(c, ast.Constant) for c in x.elts) for x in v.value.values)
                        and not any(isinstance(x, (ast.Call, ast.NamedExpr, ast.Await, ast.Yield)) for x in ast.walk(v.slice))
                        and not any(isinstance(x, ast.Name) and x.id in {e.id for e in t.elts} for x in ast.walk(v.slice))):      # type: ignore[attr-defined]
                    for i, tgt in enumerate(t.elts):
                        col = ast.Dict(keys=[copy.deepcopy(k) for k in v.value.keys], values=[copy.deepcopy(x.elts[i]) for x in v.value.values])      # type: ignore[attr-defined]
                        new = ast.Assign(targets=[tgt], value=ast.Subscript(value=col, slice=copy.deepcopy(v.slice), ctx=ast.Load()))
                        ast.copy_location(new, st)
                        ast.copy_location(new.value, v)
                        ast.copy_location(col, v.value)
                        ast.fix_missing_locations(new)
                        out.append(new)
                    continue
                out.append(st)
            body[:] = out


def _flatten_dict_spreads(d: ast.Dict, assigns: Dict[str, ast.expr], depth: int = 0) -> Optional[ast.Dict]:
    """{**A, 'k': v, **B} with A, B names of module-level dict literals -> one Dict node (a later key replaces an earlier one), else None"""
    keys: List[Optional[ast.expr]] = []
    vals: List[ast.expr] = []

    def put(k: ast.expr, v: ast.expr) -> None:
        for i, k0 in enumerate(keys):
            if k0 is not None and ast.dump(k0) == ast.dump(k):
                vals[i] = v
                return
        keys.append(k)
        vals.append(v)
    for k, v in zip(d.keys, d.values):
        if k is not None:
            put(k, v)
            continue
        part = assigns.get(v.id) if isinstance(v, ast.Name) else v
        if isinstance(part, ast.Dict) and any(k2 is None for k2 in part.keys):
            part = _flatten_dict_spreads(part, assigns, depth + 1) if depth < 3 else None
        if not isinstance(part, ast.Dict):
            return None
        for k2, v2 in zip(part.keys, part.values):
            if k2 is None:
                return None
            put(k2, v2)
    out = ast.Dict(keys=keys, values=vals)
    return ast.copy_location(out, d)


class Repo:
    """Source access with an optional in-memory overlay (used by the self-test to analyse
    mutated variants without touching /repo)."""

    def __init__(self, root: Optional[Path] = None, overlay: Optional[Dict[str, str]] = None):
        self.root = Path(root) if root else DEFAULT_REPO
        self.overlay = dict(overlay or {})
        self._mods: Dict[str, ast.Module] = {}
        self._src: Dict[str, str] = {}

    # -- raw sources
    def exists(self, rel: str) -> bool:
        return rel in self.overlay or (self.root / rel).is_file()

    def src(self, rel: str) -> str:
        if rel in self._src:
            return self._src[rel]
        if rel in self.overlay:
            text = self.overlay[rel]
        else:
            p = self.root / rel
            if not p.is_file():
                raise AnalysisError(f'anchor file missing: {rel}')
            text = p.read_text(encoding='utf-8')
        self._src[rel] = text
        return text

    def path(self, rel: str) -> Path:
        return self.root / rel

    def py_files(self, sub: str = 'flipjump') -> List[str]:
        out = []
        for p in sorted((self.root / sub).rglob('*.py')):
            out.append(str(p.relative_to(self.root)))
        for rel in self.overlay:
            if rel.endswith('.py') and rel.startswith(sub) and rel not in out:
                out.append(rel)
        return out

    # -- parsed modules
    def mod(self, rel: str) -> ast.Module:
        if rel not in self._mods:
            try:
                tree = ast.parse(self.src(rel), filename=rel)
            except SyntaxError as e:
                raise AnalysisError(f'{rel} does not parse: {e}') from e
            _spread_divmod(tree)
            _explicit_dataclass_init(tree)
            _inline_literal_tables(self, tree, rel)
            _spread_tuple_tables(tree)
            # locals renamed by an edit are renamed back to the vocabulary the rules use, where structure alone decides it
            from .localnames import renormalize_py
            renormalize_py(tree, rel)
            for parent in ast.walk(tree):
                for child in ast.iter_child_nodes(parent):
                    child._parent = parent            # type: ignore[attr-defined]
            tree._rel = rel                            # type: ignore[attr-defined]
            self._mods[rel] = tree
            for d in ast.walk(tree):
                if isinstance(d, (ast.FunctionDef, ast.AsyncFunctionDef)) and d.returns is not None and \
                        ast.unparse(d.returns).split('.')[-1] in ('NoReturn', 'Never'):
                    NORETURN_NAMES.add(d.name)
        return self._mods[rel]

    def func(self, rel: str, qualname: str) -> FuncNode:
        """qualname: 'f', 'Class.f', 'Class.Inner.f', 'f.inner'."""
        node: ast.AST = self.mod(rel)
        for part in qualname.split('.'):
            found = None
            for child in _body_defs(node):
                if isinstance(child, (ast.FunctionDef, ast.AsyncFunctionDef, ast.ClassDef)) and child.name == part:
                    found = child      # the last definition wins (sly redefines rule methods)
            if found is None:
                raise AnalysisError(f'anchor missing: {rel}:{qualname} (no "{part}")')
            node = found
        if not isinstance(node, (ast.FunctionDef, ast.AsyncFunctionDef)):
            raise AnalysisError(f'anchor {rel}:{qualname} is not a function')
        return node

    def has_func(self, rel: str, qualname: str) -> bool:
        try:
            self.func(rel, qualname)
            return True
        except AnalysisError:
            return False

    def cls(self, rel: str, qualname: str) -> ast.ClassDef:
        node: ast.AST = self.mod(rel)
        for part in qualname.split('.'):
            found = None
            for child in _body_defs(node):
                if isinstance(child, ast.ClassDef) and child.name == part:
                    found = child
            if found is None:
                raise AnalysisError(f'anchor missing: class {rel}:{qualname}')
            node = found
        assert isinstance(node, ast.ClassDef)
        return node

    def methods(self, rel: str, cls: str) -> Dict[str, List[FuncNode]]:
        out: Dict[str, List[FuncNode]] = {}
        for child in self.cls(rel, cls).body:
            if isinstance(child, (ast.FunctionDef, ast.AsyncFunctionDef)):
                out.setdefault(child.name, []).append(child)
        return out

    def module_assigns(self, rel: str) -> Dict[str, ast.expr]:
        out: Dict[str, ast.expr] = {}
        for st in self.mod(rel).body:
            if isinstance(st, ast.Assign) and len(st.targets) == 1 and isinstance(st.targets[0], ast.Name):
                out[st.targets[0].id] = st.value
            elif isinstance(st, ast.AnnAssign) and isinstance(st.target, ast.Name) and st.value is not None:
                out[st.target.id] = st.value
        # a table assembled from named parts (`T = {**A, **B, 'k': v}`) reads as the one literal it builds
        for name, v in list(out.items()):
            if isinstance(v, ast.Dict) and any(k is None for k in v.keys):
                flat = _flatten_dict_spreads(v, out)
                if flat is not None:
                    out[name] = flat
        return out

    def const(self, rel: str, name: str) -> Any:
        assigns = self.module_assigns(rel)
        if name not in assigns:
            raise AnalysisError(f'anchor missing: constant {rel}:{name}')
        return fold(assigns[name], _ModuleEnv(self, rel))

    def site(self, rel: str, node: ast.AST, func: str = '') -> str:
        line = getattr(node, 'lineno', 0)
        return f'{rel}:{line}' + (f' {func}' if func else '')


def _literal_table_of(tree: ast.Module, name: str) -> Optional[ast.Dict]:
    """the literal {int: str | int} dictionary a module binds `name` to - exactly once, at module level, never stored into or updated"""
    binds = []
    for st in tree.body:
        tg = st.targets[0] if isinstance(st, ast.Assign) and len(st.targets) == 1 else st.target if isinstance(st, ast.AnnAssign) and st.value is not None else None
        if isinstance(tg, ast.Name) and tg.id == name:
            binds.append(st.value)           # type: ignore[union-attr]
    if len(binds) != 1 or not isinstance(binds[0], ast.Dict):
        return None
    d = binds[0]
    if not d.keys or len(d.keys) > 16 or not all(isinstance(k, ast.Constant) and isinstance(k.value, int) and not isinstance(k.value, bool) for k in d.keys) \
            or not all(isinstance(v, ast.Constant) and isinstance(v.value, (int, str)) for v in d.values):
        return None
    stores = sum(1 for x in ast.walk(tree) if isinstance(x, ast.Name) and x.id == name and isinstance(x.ctx, (ast.Store, ast.Del)))
    mutated = any(isinstance(x, ast.Subscript) and isinstance(x.ctx, (ast.Store, ast.Del)) and isinstance(x.value, ast.Name) and x.value.id == name or
                  isinstance(x, ast.Call) and isinstance(x.func, ast.Attribute) and isinstance(x.func.value, ast.Name) and x.func.value.id == name
                  and x.func.attr in ('update', 'pop', 'popitem', 'clear', 'setdefault', '__setitem__', '__delitem__') for x in ast.walk(tree))
    return None if stores != 1 or mutated else d


def _inline_literal_tables(repo: 'Repo', tree: ast.Module, rel: str) -> None:
    """`_TABLE[k]` - _TABLE a private module constant (of this module, or imported by name from a module of the repository) bound once to
    a small literal {int: str | int} dictionary that nobody changes - reads as the literal subscripted: `{8: 'B', ..}[k]`. a per-width
    code table hoisted to a constant reads like the inline table."""
    cands: Dict[str, Optional[ast.Dict]] = {}
    for st in tree.body:
        if isinstance(st, ast.ImportFrom) and st.module:
            base = rel.rsplit('/', 1)[0]
            for _ in range(max(st.level - 1, 0)):
                base = base.rsplit('/', 1)[0]
            src_rel = (base + '/' if st.level else '') + st.module.replace('.', '/') + '.py'
            for a in st.names:
                if a.name.startswith('_') and not a.name.startswith('__') and repo.exists(src_rel):
                    try:
                        other = ast.parse(repo.src(src_rel))
                    except SyntaxError:
                        continue
                    cands[a.asname or a.name] = _literal_table_of(other, a.name)
        tg = st.targets[0] if isinstance(st, ast.Assign) and len(st.targets) == 1 else st.target if isinstance(st, ast.AnnAssign) and st.value is not None else None
        if isinstance(tg, ast.Name) and tg.id.startswith('_') and not tg.id.startswith('__'):
            cands[tg.id] = _literal_table_of(tree, tg.id)
    tabs = {k: v for k, v in cands.items() if v is not None}
    if not tabs:
        return
    # a function that rebinds the name locally is left alone
    for x in ast.walk(tree):
        if isinstance(x, ast.Subscript) and isinstance(x.ctx, ast.Load) and isinstance(x.value, ast.Name) and x.value.id in tabs:
            x.value = ast.copy_location(clone(tabs[x.value.id]), x.value)
            ast.fix_missing_locations(x)


def _body_defs(node: ast.AST) -> Iterator[ast.AST]:
    body = getattr(node, 'body', [])
    for st in body:
        yield st
        # definitions nested in if/try at module level (e.g. try: import ... except)
        if isinstance(st, (ast.If, ast.Try)):
            for sub in ast.walk(st):
                if isinstance(sub, (ast.FunctionDef, ast.ClassDef)) and sub is not st:
                    yield sub


# ---------------------------------------------------------------- constant folding

class NotConstant(Exception):
    pass


class _ModuleEnv:
    def __init__(self, repo: Repo, rel: str, depth: int = 0):
        self.repo, self.rel, self.depth = repo, rel, depth

    def lookup(self, name: str) -> Any:
        if self.depth > 20:
            raise NotConstant(name)
        assigns = self.repo.module_assigns(self.rel)
        if name in assigns:
            return fold(assigns[name], _ModuleEnv(self.repo, self.rel, self.depth + 1))
        # imported constant?
        for st in self.repo.mod(self.rel).body:
            if isinstance(st, ast.ImportFrom) and st.module and st.level == 0:
                for a in st.names:
                    if (a.asname or a.name) == name:
                        rel = st.module.replace('.', '/') + '.py'
                        if self.repo.exists(rel):
                            return _ModuleEnv(self.repo, rel, self.depth + 1).lookup(a.name)
        raise NotConstant(name)


_KNOWN_ATTRS = {
    ('lzma', 'FORMAT_RAW'): ('lzma.FORMAT_RAW',),
    ('lzma', 'FILTER_LZMA2'): ('lzma.FILTER_LZMA2',),
    ('lzma', 'PRESET_DEFAULT'): ('lzma.PRESET_DEFAULT',),
}


class _Overlay:
    """an environment with a few extra bindings on top (comprehension variables)."""

    def __init__(self, base: Any, extra: Dict[str, Any]):
        self.base, self.extra = base, extra

    def lookup(self, name: str) -> Any:
        if name in self.extra:
            return self.extra[name]
        if self.base is None:
            raise NotConstant(name)
        if isinstance(self.base, dict):
            if name in self.base:
                return self.base[name]
            raise NotConstant(name)
        return self.base.lookup(name)


def fold(node: ast.AST, env: Any = None) -> Any:
    """Tiny constant evaluator for literals, arithmetic, ord(), struct.calcsize, names resolved via env."""
    if isinstance(node, ast.Constant):
        return node.value
    if isinstance(node, ast.Name):
        if env is None:
            raise NotConstant(node.id)
        if isinstance(env, dict):
            if node.id in env:
                return env[node.id]
            raise NotConstant(node.id)
        return env.lookup(node.id)
    if isinstance(node, ast.Attribute) and isinstance(node.value, ast.Name):
        key = (node.value.id, node.attr)
        if key in _KNOWN_ATTRS:
            return _KNOWN_ATTRS[key]          # symbolic token (tuple) - comparable, not numeric
        raise NotConstant(ast.unparse(node))
    if isinstance(node, ast.Tuple):
        return tuple(fold(e, env) for e in node.elts)
    if isinstance(node, ast.List):
        return [fold(e, env) for e in node.elts]
    if isinstance(node, ast.Set):
        return frozenset(fold(e, env) for e in node.elts)
    if isinstance(node, ast.Dict):
        return {fold(k, env): fold(v, env) for k, v in zip(node.keys, node.values) if k is not None}
    if isinstance(node, ast.UnaryOp):
        v = fold(node.operand, env)
        if isinstance(node.op, ast.USub):
            return -v
        if isinstance(node.op, ast.Invert):
            return ~v
        if isinstance(node.op, ast.Not):
            return not v
        return +v
    if isinstance(node, ast.BinOp):
        a, b = fold(node.left, env), fold(node.right, env)
        ops = {ast.Add: lambda: a + b, ast.Sub: lambda: a - b, ast.Mult: lambda: a * b,
               ast.FloorDiv: lambda: a // b, ast.Mod: lambda: a % b, ast.LShift: lambda: a << b,
               ast.RShift: lambda: a >> b, ast.BitOr: lambda: a | b, ast.BitAnd: lambda: a & b,
               ast.BitXor: lambda: a ^ b, ast.Pow: lambda: a ** b}
        f = ops.get(type(node.op))
        if f is None:
            raise NotConstant(ast.unparse(node))
        try:
            return f()
        except Exception as e:  # noqa: BLE001
            raise NotConstant(str(e)) from e
    if isinstance(node, ast.JoinedStr):
        parts = []
        for v in node.values:
            if isinstance(v, ast.Constant):
                parts.append(str(v.value))
            elif isinstance(v, ast.FormattedValue):
                parts.append(str(fold(v.value, env)))
        return ''.join(parts)
    if isinstance(node, (ast.GeneratorExp, ast.ListComp, ast.SetComp)) and len(node.generators) == 1 \
            and isinstance(node.generators[0].target, ast.Name) and not node.generators[0].is_async:
        # a comprehension over a foldable iterable (range(..), a literal) is a literal written with a rule
        g = node.generators[0]
        items = fold(g.iter, env)
        if not isinstance(items, (list, tuple, frozenset, range)) or len(items) > 4096:
            raise NotConstant(ast.unparse(node)[:60])
        vals = []
        for it_ in (sorted(items) if isinstance(items, frozenset) else items):
            e2 = _Overlay(env, {g.target.id: it_})
            if all(fold(c, e2) for c in g.ifs):
                vals.append(fold(node.elt, e2))
        return frozenset(vals) if isinstance(node, ast.SetComp) else vals
    if isinstance(node, ast.Call):
        fn = dotted(node.func)
        if fn == 'range' and 1 <= len(node.args) <= 3 and not node.keywords:
            a = [fold(x, env) for x in node.args]
            if all(isinstance(x, int) for x in a) and len(range(*a)) <= 4096:
                return list(range(*a))
            raise NotConstant(ast.unparse(node))
        if fn in ('tuple', 'list', 'sorted') and len(node.args) == 1 and not node.keywords:
            v = fold(node.args[0], env)
            return sorted(v) if fn == 'sorted' else (tuple(v) if fn == 'tuple' else list(v))
        if fn == 'ord' and len(node.args) == 1:
            return ord(fold(node.args[0], env))
        if fn in ('struct.calcsize', 'calcsize') and len(node.args) == 1:
            return struct.calcsize(fold(node.args[0], env))
        if fn == 'frozenset' and len(node.args) == 1:
            return frozenset(fold(node.args[0], env))
        if fn in ('set',) and len(node.args) == 1:
            return frozenset(fold(node.args[0], env))
        if fn == 'len' and len(node.args) == 1:
            return len(fold(node.args[0], env))
        if fn == 're.escape' and len(node.args) == 1:
            import re as _re
            return _re.escape(fold(node.args[0], env))
        if isinstance(node.func, ast.Attribute) and node.func.attr == 'join' and isinstance(node.func.value, ast.Constant) \
                and isinstance(node.func.value.value, str) and len(node.args) == 1 and not node.keywords:
            arg = node.args[0]
            if isinstance(arg, ast.GeneratorExp):
                arg = ast.copy_location(ast.ListComp(elt=arg.elt, generators=arg.generators), arg)
            try:
                parts = fold(arg, env)
                if isinstance(parts, (list, tuple)) and all(isinstance(x, str) for x in parts):
                    return node.func.value.value.join(parts)
            except NotConstant:
                pass
        if fn == "''.join" and len(node.args) == 1:
            gen = node.args[0]
            if isinstance(gen, ast.GeneratorExp) and len(gen.generators) == 1:
                g = gen.generators[0]
                it = fold(g.iter, env)
                if isinstance(g.target, ast.Name) and isinstance(gen.elt, ast.Name) and gen.elt.id == g.target.id \
                        and not g.ifs:
                    return ''.join(it)
        raise NotConstant(ast.unparse(node))
    raise NotConstant(ast.dump(node)[:60])


# ---------------------------------------------------------------- small ast helpers

def dotted(node: ast.AST) -> str:
    """'a.b.c' for Name/Attribute chains (and "''.join"); '' otherwise."""
    if isinstance(node, ast.Name):
        return node.id
    if isinstance(node, ast.Attribute):
        base = dotted(node.value)
        return f'{base}.{node.attr}' if base else ''
    if isinstance(node, ast.Constant) and isinstance(node.value, str):
        return repr(node.value)
    if isinstance(node, ast.Call):
        base = dotted(node.func)
        return f'{base}()' if base else ''
    return ''


def norm(node: Optional[ast.AST]) -> str:
    return '' if node is None else ast.unparse(node)


def calls(node: ast.AST) -> List[ast.Call]:
    return [n for n in ast.walk(node) if isinstance(n, ast.Call)]


def names(node: ast.AST) -> Set[str]:
    return {n.id for n in ast.walk(node) if isinstance(n, ast.Name)}


def walk_no_nested(node: ast.AST) -> Iterator[ast.AST]:
    """ast.walk that does not descend into nested function/class/lambda definitions."""
    stack = [node]
    first = True
    while stack:
        n = stack.pop()
        if not first and isinstance(n, (ast.FunctionDef, ast.AsyncFunctionDef, ast.ClassDef, ast.Lambda)):
            continue
        first = False
        yield n
        stack.extend(reversed(list(ast.iter_child_nodes(n))))


def parent(node: ast.AST) -> Optional[ast.AST]:
    return getattr(node, '_parent', None)


def ancestors(node: ast.AST) -> Iterator[ast.AST]:
    p = parent(node)
    while p is not None:
        yield p
        p = parent(p)


def enclosing_func(node: ast.AST) -> Optional[FuncNode]:
    for a in ancestors(node):
        if isinstance(a, (ast.FunctionDef, ast.AsyncFunctionDef)):
            return a
    return None


def enclosing_stmt(node: ast.AST) -> ast.stmt:
    n: ast.AST = node
    while not isinstance(n, ast.stmt):
        p = parent(n)
        if p is None:
            raise AnalysisError('expression without an enclosing statement')
        n = p
    return n


def handler_types(h: ast.ExceptHandler) -> List[str]:
    if h.type is None:
        return ['BaseException']
    if isinstance(h.type, ast.Tuple):
        return [dotted(e).split('.')[-1] for e in h.type.elts]
    return [dotted(h.type).split('.')[-1]]


def enclosing_handlers(node: ast.AST, stop: Optional[ast.AST] = None) -> List[Tuple[ast.Try, ast.ExceptHandler]]:
    """All (try, handler) pairs whose try *body* lexically encloses node, innermost first."""
    out: List[Tuple[ast.Try, ast.ExceptHandler]] = []
    child: ast.AST = node
    for a in ancestors(node):
        if a is stop:
            break
        if isinstance(a, ast.Try) and any(child is s or _contains(s, child) for s in a.body):
            for h in a.handlers:
                out.append((a, h))
        if isinstance(a, (ast.FunctionDef, ast.AsyncFunctionDef, ast.Lambda)):
            break
        child = a
    return out


def _contains(root: ast.AST, node: ast.AST) -> bool:
    return any(n is node for n in ast.walk(root))


def param_names(fn: FuncNode) -> List[str]:
    a = fn.args
    return [x.arg for x in a.posonlyargs + a.args + a.kwonlyargs]


def param_defaults(fn: FuncNode) -> Dict[str, ast.expr]:
    a = fn.args
    out: Dict[str, ast.expr] = {}
    pos = a.posonlyargs + a.args
    for p, d in zip(pos[len(pos) - len(a.defaults):], a.defaults):
        out[p.arg] = d
    for p, d in zip(a.kwonlyargs, a.kw_defaults):
        if d is not None:
            out[p.arg] = d
    return out


def stmt_text(node: ast.AST) -> str:
    """Normalised one-line text of a statement head (for diagnostics/keys, never for matching)."""
    t = ast.unparse(node).split('\n')[0]
    return t if len(t) < 100 else t[:97] + '...'


_PURE_BUILTINS = {'len', 'isinstance', 'min', 'max', 'abs', 'int', 'bool', 'all', 'any'}


def named_predicate(fn: ast.AST, test: ast.expr) -> ast.expr:
    """a test that is a plain local bound exactly once in fn to a side-effect-free expression (a named condition:
    `out_of_range = a + b > len(xs)` ... `if out_of_range:`) is read as that expression (position info of the test kept)."""
    def resolve(e: ast.expr, depth: int = 0) -> ast.expr:
        if isinstance(e, ast.UnaryOp) and isinstance(e.op, ast.Not):
            return ast.copy_location(ast.UnaryOp(op=ast.Not(), operand=resolve(e.operand, depth)), e)
        if isinstance(e, ast.BoolOp):
            return ast.copy_location(ast.BoolOp(op=e.op, values=[resolve(v, depth) for v in e.values]), e)
        if not isinstance(e, ast.Name) or depth > 2:
            return e
        stores = [st for st in ast.walk(fn) if isinstance(st, ast.Assign) and len(st.targets) == 1 and isinstance(st.targets[0], ast.Name)
                  and st.targets[0].id == e.id]
        others = [x for x in ast.walk(fn) if isinstance(x, ast.Name) and isinstance(x.ctx, ast.Store) and x.id == e.id]
        params = [a.arg for a in getattr(getattr(fn, 'args', None), 'args', [])]
        if len(stores) != 1 or len(others) != 1 or e.id in params:
            return e
        v = stores[0].value
        if any(isinstance(x, ast.Call) and dotted(x.func) not in _PURE_BUILTINS for x in ast.walk(v)) or not isinstance(v, (ast.Compare, ast.BoolOp, ast.UnaryOp)):
            return e
        new = clone(v)
        for x in ast.walk(new):
            if hasattr(x, 'lineno'):
                x.lineno = getattr(e, 'lineno', getattr(x, 'lineno', 0))          # type: ignore[attr-defined]
        return resolve(new, depth + 1)
    return resolve(test)


def raise_guards(fn: ast.AST) -> List[Tuple[ast.expr, ast.Raise, List[ast.expr]]]:
    """[(test, raise stmt, enclosing tests)] for every `if test: raise ...` (first body statement) in fn. a test that is a named
    condition (see named_predicate) is returned as the condition it names."""
    out: List[Tuple[ast.expr, ast.Raise, List[ast.expr]]] = []
    _fn0 = fn

    def rec(stmts: Sequence[ast.stmt], outer: List[ast.expr]) -> None:
        for st in stmts:
            if isinstance(st, ast.If):
                rs = [s for s in st.body if isinstance(s, ast.Raise)]
                tst = named_predicate(_fn0, st.test)
                if rs:
                    out.append((tst, rs[0], list(outer)))
                rec(st.body, outer + [tst])
                rec(st.orelse, outer)
            elif isinstance(st, (ast.For, ast.While, ast.With)):
                rec(st.body, outer)
                rec(getattr(st, 'orelse', []), outer)
            elif isinstance(st, ast.Try):
                rec(st.body, outer)
                for h in st.handlers:
                    rec(h.body, outer)
                rec(st.orelse, outer)
                rec(st.finalbody, outer)
    rec(getattr(fn, 'body', []), [])
    return out


def raised_class(r: ast.Raise) -> str:
    e = r.exc
    if e is None:
        return ''
    if isinstance(e, ast.Call):
        return dotted(e.func).split('.')[-1]
    return dotted(e).split('.')[-1]


def inlined_statements(fn: FuncNode) -> List[str]:
    """the function's statements with single-assignment local names substituted into their uses and the binding statements
    removed (so `m = E; f(x & m)` and `f(x & E)` normalise alike). only straight-line top-level bindings are inlined."""
    import copy
    binds: Dict[str, ast.expr] = {}
    counts: Dict[str, int] = {}
    for n in ast.walk(fn):
        if isinstance(n, ast.Name) and isinstance(n.ctx, ast.Store):
            counts[n.id] = counts.get(n.id, 0) + 1
    out: List[str] = []

    class Sub(ast.NodeTransformer):
        def visit_Name(self, node: ast.Name) -> ast.AST:
            if isinstance(node.ctx, ast.Load) and node.id in binds:
                return clone(binds[node.id])
            return node

    for st in fn.body:
        if isinstance(st, ast.Expr) and isinstance(st.value, ast.Constant):
            continue            # docstring
        st2 = Sub().visit(clone(st))
        if isinstance(st2, ast.Assign) and len(st2.targets) == 1 and isinstance(st2.targets[0], ast.Name) and counts.get(st2.targets[0].id) == 1:
            binds[st2.targets[0].id] = st2.value
            continue
        out.append(norm(ast.fix_missing_locations(st2)))
    return out


def eval_int_expr(e: ast.AST, env: Dict[str, int]) -> int:
    """evaluate a pure integer arithmetic expression (names from env, + - * // % ** & | ^ << >>, unary - ~ +, comparisons as 0/1,
    conditional expressions) - constant folding of an expression with given operand values, no repository code runs."""
    import operator as _op
    BIN = {ast.Add: _op.add, ast.Sub: _op.sub, ast.Mult: _op.mul, ast.FloorDiv: _op.floordiv, ast.Mod: _op.mod, ast.BitAnd: _op.and_,
           ast.BitOr: _op.or_, ast.BitXor: _op.xor, ast.LShift: _op.lshift, ast.RShift: _op.rshift, ast.Pow: _op.pow}
    if isinstance(e, ast.Constant) and isinstance(e.value, int):
        return int(e.value)
    if isinstance(e, (ast.Name, ast.Attribute)):
        k = norm(e)
        if k not in env:
            raise AnalysisError(f'eval_int_expr: unbound name {k}')
        return env[k]
    if isinstance(e, ast.UnaryOp):
        v = eval_int_expr(e.operand, env)
        return -v if isinstance(e.op, ast.USub) else ~v if isinstance(e.op, ast.Invert) else +v if isinstance(e.op, ast.UAdd) else int(not v)
    if isinstance(e, ast.BinOp) and type(e.op) in BIN:
        return BIN[type(e.op)](eval_int_expr(e.left, env), eval_int_expr(e.right, env))
    if isinstance(e, ast.IfExp):
        return eval_int_expr(e.body if eval_int_expr(e.test, env) else e.orelse, env)
    if isinstance(e, ast.Call) and isinstance(e.func, ast.Attribute) and e.func.attr == 'bit_length' and not e.args:
        return eval_int_expr(e.func.value, env).bit_length()
    if isinstance(e, ast.Compare):
        left = eval_int_expr(e.left, env)
        for op_, rhs in zip(e.ops, e.comparators):
            b = eval_int_expr(rhs, env)
            a = left
            tab = {ast.Lt: a < b, ast.LtE: a <= b, ast.Gt: a > b, ast.GtE: a >= b, ast.Eq: a == b, ast.NotEq: a != b}
            if type(op_) not in tab:
                raise AnalysisError(f'eval_int_expr: unsupported comparison {norm(e)[:60]}')
            if not tab[type(op_)]:
                return 0
            left = b
        return 1
    if isinstance(e, ast.BoolOp):
        vals = [eval_int_expr(v, env) for v in e.values]
        return int(all(vals)) if isinstance(e.op, ast.And) else int(any(vals))
    raise AnalysisError(f'eval_int_expr: unsupported expression {norm(e)[:60]}')


# ---------------------------------------------------------------- normalisation helpers (behaviour-preserving respellings)

_FLIP = {ast.Gt: ast.Lt, ast.GtE: ast.LtE, ast.Lt: ast.Gt, ast.LtE: ast.GtE}
_NEG = {ast.Lt: ast.GtE, ast.LtE: ast.Gt, ast.Gt: ast.LtE, ast.GtE: ast.Lt, ast.Eq: ast.NotEq, ast.NotEq: ast.Eq,
        ast.In: ast.NotIn, ast.NotIn: ast.In, ast.Is: ast.IsNot, ast.IsNot: ast.Is}


def push_not(e: ast.expr, neg: bool = False) -> ast.expr:
    """negation normal form: `not` pushed inward (De Morgan, negated comparisons, chained comparisons split)."""
    if isinstance(e, ast.UnaryOp) and isinstance(e.op, ast.Not):
        return push_not(e.operand, not neg)
    if isinstance(e, ast.BoolOp):
        op = (ast.Or() if isinstance(e.op, ast.And) else ast.And()) if neg else e.op
        return ast.BoolOp(op=op, values=[push_not(v, neg) for v in e.values])
    if isinstance(e, ast.Compare):
        links = []
        left = e.left
        for op, right in zip(e.ops, e.comparators):
            links.append(ast.Compare(left=left, ops=[_NEG[type(op)]() if neg and type(op) in _NEG else op], comparators=[right]))
            left = right
        if neg and any(type(op) not in _NEG for op in e.ops):
            return ast.UnaryOp(op=ast.Not(), operand=e)
        if len(links) == 1:
            return links[0]
        return ast.BoolOp(op=ast.Or() if neg else ast.And(), values=links)
    return ast.UnaryOp(op=ast.Not(), operand=e) if neg else e


def canon_cond(e: ast.expr) -> str:
    """canonical text of a condition: NNF, comparisons oriented with < / <= only and ==/!= operands sorted, and/or operands
    flattened and sorted. two conditions with the same truth table under these laws get the same text."""
    def rec(x: ast.expr) -> str:
        if isinstance(x, ast.BoolOp):
            parts: List[str] = []
            for v in x.values:
                if isinstance(v, ast.BoolOp) and type(v.op) is type(x.op):
                    parts.extend(rec(w) for w in v.values)
                else:
                    parts.append(rec(v))
            j = ' and ' if isinstance(x.op, ast.And) else ' or '
            return '(' + j.join(sorted(set(parts))) + ')'
        if isinstance(x, ast.Compare) and len(x.ops) == 1:
            a, op, b = x.left, x.ops[0], x.comparators[0]
            if type(op) in (ast.Gt, ast.GtE):
                a, b, op = b, a, _FLIP[type(op)]()
            ta, tb = norm(a), norm(b)
            if isinstance(op, (ast.Eq, ast.NotEq)) and tb < ta:
                ta, tb = tb, ta
            sym = {ast.Lt: '<', ast.LtE: '<=', ast.Eq: '==', ast.NotEq: '!=', ast.In: 'in', ast.NotIn: 'not in', ast.Is: 'is',
                   ast.IsNot: 'is not'}[type(op)]
            return f'{ta} {sym} {tb}'
        if isinstance(x, ast.UnaryOp) and isinstance(x.op, ast.Not):
            return 'not ' + rec(x.operand)
        return norm(x)
    return rec(push_not(e))


def canon_cond_text(text: str) -> str:
    return canon_cond(ast.parse(text, mode='eval').body)


cn = canon_cond          # canonical text of a condition node
cc = canon_cond_text     # canonical text of a condition given as source text


def inline_block(stmts: Sequence[ast.stmt]) -> List[ast.stmt]:
    """a statement list with its single-assignment plain-name temporaries substituted into their later uses in the same
    list (and the binding statements dropped)."""
    import copy
    counts: Dict[str, int] = {}
    for st in stmts:
        for n in ast.walk(st):
            if isinstance(n, ast.Name) and isinstance(n.ctx, ast.Store):
                counts[n.id] = counts.get(n.id, 0) + 1
    binds: Dict[str, ast.expr] = {}

    class Sub(ast.NodeTransformer):
        def visit_Name(self, node: ast.Name) -> ast.AST:
            if isinstance(node.ctx, ast.Load) and node.id in binds:
                return clone(binds[node.id])
            return node
    out: List[ast.stmt] = []
    for st in stmts:
        st2 = Sub().visit(clone(st))
        if isinstance(st2, ast.Assign) and len(st2.targets) == 1 and isinstance(st2.targets[0], ast.Name) and counts.get(st2.targets[0].id) == 1 \
                and not any(isinstance(x, ast.Name) and x.id == st2.targets[0].id for x in ast.walk(st.value)):     # not an accumulator
            binds[st2.targets[0].id] = st2.value
            continue
        out.append(ast.fix_missing_locations(st2))
    return out


def inline_predicates(repo: 'Repo', rel: str, cls: Optional[str], e: ast.expr) -> ast.expr:
    """calls of a private single-`return <expr>` function / method without arguments (self._is_x()) replaced by that expression."""
    import copy

    class Sub(ast.NodeTransformer):
        def visit_Call(self, node: ast.Call) -> ast.AST:
            self.generic_visit(node)
            d = dotted(node.func)
            name = d.split('.')[-1]
            if not name.startswith('_') or node.args or node.keywords:
                return node
            q = f'{cls}.{name}' if d.startswith('self.') and cls else name
            if not repo.has_func(rel, q):
                return node
            f = repo.func(rel, q)
            body = [b for b in f.body if not (isinstance(b, ast.Expr) and isinstance(b.value, ast.Constant))]
            if len(body) == 1 and isinstance(body[0], ast.Return) and body[0].value is not None:
                return clone(body[0].value)
            return node
    return ast.fix_missing_locations(Sub().visit(clone(e)))


def dispatch_return(stmts: Sequence[ast.stmt], var: str, const: str, repo: Optional['Repo'] = None, rel: str = '',
                    depth: int = 0) -> Optional[ast.expr]:
    """the expression returned by a statement list when the dispatch variable `var` holds the named constant `const`
    (compared by spelling): follows `if var == K` / `K == var` / `var != K` / `var in (K1, K2)` / `var in TABLE` chains where
    TABLE is a local dict / tuple / set literal, and resolves `TABLE[var]` in the returned expression. None: no return decided."""
    import copy
    tables: Dict[str, ast.expr] = {}

    def decide(t: ast.expr) -> Optional[bool]:
        if isinstance(t, ast.Compare) and len(t.ops) == 1:
            a, op, b = t.left, t.ops[0], t.comparators[0]
            if isinstance(op, (ast.Eq, ast.NotEq)) and var in (norm(a), norm(b)):
                other = norm(b) if norm(a) == var else norm(a)
                return (other == const) == isinstance(op, ast.Eq)
            if isinstance(op, (ast.In, ast.NotIn)) and norm(a) == var:
                cont = tables.get(norm(b), b)
                keys = cont.keys if isinstance(cont, ast.Dict) else cont.elts if isinstance(cont, (ast.Tuple, ast.List, ast.Set)) else None
                if keys is None:
                    return None
                return (const in [norm(k) for k in keys if k is not None]) == isinstance(op, ast.In)
        if isinstance(t, ast.BoolOp):
            vals = [decide(v) for v in t.values]
            if isinstance(t.op, ast.And):
                return False if False in vals else (None if None in vals else True)
            return True if True in vals else (None if None in vals else False)
        if isinstance(t, ast.UnaryOp) and isinstance(t.op, ast.Not):
            v = decide(t.operand)
            return None if v is None else not v
        return None

    class Sub(ast.NodeTransformer):
        def visit_Subscript(self, node: ast.Subscript) -> ast.AST:
            self.generic_visit(node)
            if norm(node.slice) == var and norm(node.value) in tables and isinstance(tables[norm(node.value)], ast.Dict):
                d = tables[norm(node.value)]
                for k, v in zip(d.keys, d.values):      # type: ignore[attr-defined]
                    if k is not None and norm(k) == const:
                        return clone(v)
            return node

    def run(block: Sequence[ast.stmt]) -> Tuple[bool, Optional[ast.expr]]:
        for st in block:
            if isinstance(st, (ast.Assign, ast.AnnAssign)):
                tgt = st.targets[0] if isinstance(st, ast.Assign) else st.target
                if isinstance(tgt, ast.Name) and isinstance(st.value, (ast.Dict, ast.Tuple, ast.List, ast.Set)):
                    tables[tgt.id] = st.value
                elif isinstance(tgt, ast.Name) and st.value is not None and tgt.id != var:
                    # an arm that only chooses a value (`kind = K`) and leaves the return to a common tail: the name reads as the value
                    chosen[tgt.id] = SubChosen().visit(Sub().visit(clone(st.value)))
            elif isinstance(st, ast.If):
                d = decide(st.test)
                if d is None:
                    for x in ast.walk(st):
                        if isinstance(x, ast.Name) and isinstance(x.ctx, ast.Store):
                            chosen.pop(x.id, None)
                    continue
                done, val = run(st.body if d else st.orelse)
                if done:
                    return True, val
            elif isinstance(st, ast.Return):
                v = st.value
                # the dispatch may live in a private module-level helper that gets the variable as an argument
                if repo is not None and depth < 2 and isinstance(v, ast.Call) and dotted(v.func).startswith('_') and repo.has_func(rel, dotted(v.func)):
                    h = repo.func(rel, dotted(v.func))
                    params = [a.arg for a in h.args.args]
                    idx = [i for i, a in enumerate(v.args) if norm(a) == var]
                    kw = [k.arg for k in v.keywords if norm(k.value) == var]
                    pname = params[idx[0]] if idx and idx[0] < len(params) else (kw[0] if kw else None)
                    if pname:
                        return True, dispatch_return(h.body, pname, const, repo, rel, depth + 1)
                return True, (ast.fix_missing_locations(SubChosen().visit(Sub().visit(clone(v)))) if v is not None else None)
            elif isinstance(st, ast.Raise):
                return True, None
        return False, None
    chosen: Dict[str, ast.expr] = {}

    class SubChosen(ast.NodeTransformer):
        def visit_Name(self, node: ast.Name) -> ast.AST:
            return clone(chosen[node.id]) if isinstance(node.ctx, ast.Load) and node.id in chosen else node
    return run(stmts)[1]


def clone(node: Any) -> Any:
    """structural copy of an AST following only the grammar fields (the parsed modules carry back-links that make
    copy.deepcopy copy the whole module)."""
    if isinstance(node, ast.AST):
        new = type(node)()
        for f in node._fields:
            if hasattr(node, f):
                setattr(new, f, clone(getattr(node, f)))
        for a in ('lineno', 'col_offset', 'end_lineno', 'end_col_offset'):
            if hasattr(node, a):
                setattr(new, a, getattr(node, a))
        return new
    if isinstance(node, list):
        return [clone(x) for x in node]
    return node


def inline_pure_temps(fn: FuncNode) -> FuncNode:
    """a copy of the function in which every local that is bound exactly once, at the top level of the body (not inside a loop or
    branch), to a call-free expression over names that are themselves never re-bound afterwards, is substituted into all its
    later uses (also inside loops and branches) and its binding is dropped: `m = (1 << n) - 1` ... `x & m` reads like
    `x & (1 << n) - 1`."""
    new = clone(fn)
    counts: Dict[str, int] = {}
    for n in ast.walk(new):
        if isinstance(n, ast.Name) and isinstance(n.ctx, ast.Store):
            counts[n.id] = counts.get(n.id, 0) + 1
        elif isinstance(n, ast.arg):
            counts[n.arg] = counts.get(n.arg, 0) + 1
    binds: Dict[str, ast.expr] = {}

    class Sub(ast.NodeTransformer):
        def visit_Name(self, node: ast.Name) -> ast.AST:
            if isinstance(node.ctx, ast.Load) and node.id in binds:
                return clone(binds[node.id])
            return node
    body: List[ast.stmt] = []
    for st in new.body:
        st2 = Sub().visit(st)
        if isinstance(st2, ast.Assign) and len(st2.targets) == 1 and isinstance(st2.targets[0], ast.Name) \
                and counts.get(st2.targets[0].id) == 1 and not any(isinstance(x, (ast.Await, ast.Yield)) or (
                    isinstance(x, ast.Call) and dotted(x.func) not in PURE_BUILTINS and not (
                        isinstance(x.func, ast.Attribute) and x.func.attr == 'bit_length' and not x.args)) for x in ast.walk(st2.value)) \
                and all(counts.get(x.id, 0) <= 1 for x in ast.walk(st2.value) if isinstance(x, ast.Name)):
            binds[st2.targets[0].id] = st2.value
            continue
        body.append(st2)
    new.body = body
    return relink(ast.fix_missing_locations(new))


def _class_chain(repo: 'Repo', rel: str, cls: Optional[str]) -> List[str]:
    """cls and its base classes defined in the same module (method lookup order)."""
    out: List[str] = []
    todo = [cls] if cls else []
    while todo:
        c = todo.pop(0)
        if c in out:
            continue
        try:
            node = repo.cls(rel, c)
        except AnalysisError:
            continue
        out.append(c)
        todo += [dotted(b) for b in node.bases if dotted(b)]
    return out


def inline_pure_helpers(repo: 'Repo', rel: str, cls: Optional[str], fn: FuncNode, *, keep: Sequence[str] = (), depth: int = 3) -> FuncNode:
    """a copy of fn in which expression-level uses of PRIVATE pure helpers of the same class (or its bases in the module) or module -
    `self._h(a)`, `_h(a)`, and reads of a private @property `self._p` - are replaced by the helper's value: the helper body, after
    its own single-use temporaries are substituted, is one `return <expr>`; arguments must be call-free expressions. An extracted
    mask / offset / predicate helper then reads like the expression it was extracted from."""
    chain = _class_chain(repo, rel, cls)

    def find(name: str, method: bool) -> Optional[FuncNode]:
        if method:
            for c in chain:
                if repo.has_func(rel, f'{c}.{name}'):
                    return repo.func(rel, f'{c}.{name}')
            return None
        return repo.func(rel, name) if repo.has_func(rel, name) else None

    def value_of(h: FuncNode, args: List[ast.expr], level: int) -> Optional[ast.expr]:
        params = [a.arg for a in h.args.args]
        if params and params[0] in ('self', 'cls'):
            params = params[1:]
        if len(params) != len(args) or h.args.vararg or h.args.kwarg or h.args.kwonlyargs:
            return None
        if any(isinstance(x, (ast.Call, ast.Await, ast.Yield, ast.NamedExpr)) for a in args for x in ast.walk(a)):
            return None
        h2 = inline_pure_temps(h)
        body = [b for b in h2.body if not (isinstance(b, ast.Expr) and isinstance(b.value, ast.Constant))]
        if len(body) != 1 or not isinstance(body[0], ast.Return) or body[0].value is None:
            return None
        b = dict(zip(params, args))

        class Bind(ast.NodeTransformer):
            def visit_Name(self, node: ast.Name) -> ast.AST:
                if isinstance(node.ctx, ast.Load) and node.id in b:
                    return clone(b[node.id])
                return node
        val = Bind().visit(clone(body[0].value))
        return Sub(level - 1).visit(val) if level > 1 else val

    def is_property(h: FuncNode) -> bool:
        return any(dotted(d) in ('property', 'functools.cached_property', 'cached_property') for d in h.decorator_list)

    class Sub(ast.NodeTransformer):
        def __init__(self, level: int):
            self.level = level

        def visit_Call(self, node: ast.Call) -> ast.AST:
            self.generic_visit(node)
            d = dotted(node.func)
            name = d.split('.')[-1] if d else ''
            if not name.startswith('_') or name.startswith('__') or name in keep or node.keywords:
                return node
            h = find(name, True) if d == f'self.{name}' else (find(name, False) if d == name else None)
            if h is None or is_property(h):
                return node
            v = value_of(h, list(node.args), self.level)
            return v if v is not None else node

        def visit_Attribute(self, node: ast.Attribute) -> ast.AST:
            self.generic_visit(node)
            if isinstance(node.ctx, ast.Load) and isinstance(node.value, ast.Name) and node.value.id == 'self' and node.attr.startswith('_') \
                    and node.attr not in keep:
                h = find(node.attr, True)
                if h is not None and is_property(h):
                    v = value_of(h, [], self.level)
                    return v if v is not None else node
            return node
    new = clone(fn)
    new.body = [Sub(depth).visit(st) for st in new.body]
    return relink(ast.fix_missing_locations(new))


def cascade_value(stmts: List[ast.stmt]) -> Optional[ast.expr]:
    """the value of a statement list that does nothing but choose what to return - `if T: return A` (an else branch of the same
    kind allowed) ... `return B` - as one conditional expression `A if T else ... B`; None for any other shape."""
    if not stmts:
        return None
    st = stmts[0]
    if isinstance(st, ast.Return) and st.value is not None:
        return st.value
    if isinstance(st, ast.If):
        a = cascade_value(st.body)
        b = cascade_value(st.orelse) if st.orelse else cascade_value(stmts[1:])
        if a is None or b is None:
            return None
        return ast.IfExp(test=st.test, body=a, orelse=b)
    return None


def expand_private_calls(repo: 'Repo', rel: str, fn: FuncNode, cls: Optional[str] = None, *, depth: int = 2,
                         keep: Sequence[str] = ()) -> FuncNode:
    """a copy of fn in which statement-level calls of PRIVATE helpers defined in the same class / module (`self._h(a, b)`,
    `_h(a, b)`, also `return _h(..)` and `x = _h(..)` for single-return helpers) are replaced by the helper's body with the
    parameters substituted - an extracted method reads like the code it was extracted from. helpers named in `keep` (the ones a
    rule reasons about by name) are left as calls. arguments must be side-effect free expressions (names, attributes,
    constants, arithmetic); otherwise the call is left alone."""
    def helper_of(call: ast.Call) -> Optional[FuncNode]:
        d = dotted(call.func)
        name = d.split('.')[-1]
        if not name.startswith('_') or name.startswith('__') or name in keep or call.keywords and any(k.arg is None for k in call.keywords):
            return None
        if d == f'self.{name}' and cls and repo.has_func(rel, f'{cls}.{name}'):
            return repo.func(rel, f'{cls}.{name}')
        if d == name and repo.has_func(rel, name):
            return repo.func(rel, name)
        return None

    def pure(e: ast.AST) -> bool:
        # calls of side-effect free builtins on pure arguments may be duplicated by the substitution
        return not any(isinstance(x, (ast.Await, ast.Yield, ast.NamedExpr)) or
                       (isinstance(x, ast.Call) and dotted(x.func) not in ('len', 'int', 'bool', 'hex', 'abs', 'min', 'max')) for x in ast.walk(e))

    def bind(h: FuncNode, call: ast.Call, as_value: bool = False) -> Optional[Dict[str, ast.expr]]:
        params = [a.arg for a in h.args.args]
        if params and params[0] == 'self':
            params = params[1:]
        if len(call.args) > len(params) or h.args.vararg or h.args.kwarg:
            return None
        b: Dict[str, ast.expr] = {}
        for p_, a in zip(params, call.args):
            b[p_] = a
        for k in call.keywords:
            if k.arg in params:
                b[k.arg] = k.value
        if set(b) != set(params):
            return None
        if not all(pure(v) for v in b.values()):
            # an argument with a call in it may be substituted only where it is evaluated at most once on every path and
            # nothing else is: a helper that merely chooses what to return (cascade_value), each path reading the parameter once
            hb0 = [x for x in h.body if not (isinstance(x, ast.Expr) and isinstance(x.value, ast.Constant))]
            val = cascade_value(hb0)
            if val is None or not as_value:
                return None
            def paths(e: ast.expr) -> List[List[ast.expr]]:
                if isinstance(e, ast.IfExp):
                    return [[e.test] + p_ for p_ in paths(e.body)] + [[e.test] + p_ for p_ in paths(e.orelse)]
                return [[e]]
            for pname, v in b.items():
                if pure(v):
                    continue
                for path in paths(val):
                    if sum(1 for e in path for x in ast.walk(e) if isinstance(x, ast.Name) and x.id == pname) > 1:
                        return None
            if any(isinstance(x, ast.Call) for e in [val] for x in ast.walk(e)):
                return None
        # a parameter that the helper re-binds cannot be substituted
        for x in ast.walk(h):
            if isinstance(x, ast.Name) and isinstance(x.ctx, ast.Store) and x.id in b:
                return None
        return b

    class Sub(ast.NodeTransformer):
        def __init__(self, b: Dict[str, ast.expr]):
            self.b = b

        def visit_Name(self, node: ast.Name) -> ast.AST:
            if isinstance(node.ctx, ast.Load) and node.id in self.b:
                return clone(self.b[node.id])
            return node

    def body_of(h: FuncNode, b: Dict[str, ast.expr]) -> List[ast.stmt]:
        out = []
        for st in h.body:
            if isinstance(st, ast.Expr) and isinstance(st.value, ast.Constant):
                continue
            out.append(Sub(b).visit(clone(st)))
        return out

    def only_tail_return(h: FuncNode) -> bool:
        rets = [x for x in ast.walk(h) if isinstance(x, ast.Return)]
        return all(r is h.body[-1] for r in rets)

    def expand(stmts: List[ast.stmt], level: int) -> List[ast.stmt]:
        out: List[ast.stmt] = []
        for st in stmts:
            for fld in ('body', 'orelse', 'finalbody'):
                sub = getattr(st, fld, None)
                if isinstance(sub, list) and sub and isinstance(sub[0], ast.stmt):
                    setattr(st, fld, expand(sub, level))
            if isinstance(st, ast.Try):
                for hd in st.handlers:
                    hd.body = expand(hd.body, level)
            call = st.value if isinstance(st, (ast.Expr, ast.Return, ast.Assign)) and isinstance(getattr(st, 'value', None), ast.Call) else None
            h = helper_of(call) if call is not None and level > 0 else None
            b = bind(h, call, isinstance(st, ast.Assign)) if h is not None and call is not None else None
            if h is None or b is None:
                out.append(st)
                continue
            hb = body_of(h, b)
            if isinstance(st, ast.Expr) and not any(isinstance(x, ast.Return) and x.value is not None for x in ast.walk(h)) and only_tail_return(h):
                out.extend(expand([x for x in hb if not isinstance(x, ast.Return)], level - 1))
            elif isinstance(st, ast.Return) and st is stmts[-1]:
                out.extend(expand(hb, level - 1))
            elif isinstance(st, ast.Assign) and len(hb) == 1 and isinstance(hb[0], ast.Return) and hb[0].value is not None:
                st.value = hb[0].value
                out.append(st)
            elif isinstance(st, ast.Assign) and cascade_value(hb) is not None:
                # `x = _h(..)` with `if T: return A` ... `return B`: the conditional expression it computes
                st.value = cascade_value(hb)            # type: ignore[assignment]
                out.append(st)
            elif isinstance(st, ast.Assign) and len(hb) > 1 and isinstance(hb[-1], ast.Return) and hb[-1].value is not None and only_tail_return(h):
                # `x = self._h(..)` with a straight helper ending in `return E`: the helper's statements, then `x = E`
                out.extend(expand(hb[:-1], level - 1))
                st.value = hb[-1].value
                out.append(st)
            else:
                out.append(st)
        return out
    new = clone(fn)
    new.body = expand(new.body, depth)
    return relink(ast.fix_missing_locations(new))


def normalize_counting_whiles(fn: FuncNode) -> FuncNode:
    """a copy of fn in which `i = A` ... `while i < B: <body>; i += C` (the counter is bound nowhere else in the loop, the body
    has no `continue`, A/B/C are call-free) reads as `for i in range(A, B, C): <body>`."""
    def fix(stmts: List[ast.stmt]) -> List[ast.stmt]:
        out: List[ast.stmt] = []
        for st in stmts:
            for fld in ('body', 'orelse', 'finalbody'):
                sub = getattr(st, fld, None)
                if isinstance(sub, list) and sub and isinstance(sub[0], ast.stmt):
                    setattr(st, fld, fix(sub))
            if isinstance(st, ast.Try):
                for hd in st.handlers:
                    hd.body = fix(hd.body)
            if isinstance(st, ast.While) and isinstance(st.test, ast.Compare) and len(st.test.ops) == 1 and isinstance(st.test.ops[0], ast.Lt) \
                    and isinstance(st.test.left, ast.Name) and st.body and not st.orelse:
                i = st.test.left.id
                # the step may stand anywhere at the top level of the body as long as nothing after it reads the counter (a chunk taken
                # before the step, used after it): it reads as if it were the last statement
                steps_ = [k for k, x in enumerate(st.body) if isinstance(x, ast.AugAssign) and norm(x.target) == i]
                if len(steps_) == 1 and steps_[0] != len(st.body) - 1 and not any(
                        isinstance(y, ast.Name) and y.id == i for b in st.body[steps_[0] + 1:] for y in ast.walk(b)):
                    st.body = st.body[:steps_[0]] + st.body[steps_[0] + 1:] + [st.body[steps_[0]]]
                last = st.body[-1]
                inits = [k for k, x in enumerate(out) if isinstance(x, ast.Assign) and len(x.targets) == 1 and norm(x.targets[0]) == i]
                ok = (isinstance(last, ast.AugAssign) and isinstance(last.op, ast.Add) and norm(last.target) == i and bool(inits)
                      and not any(isinstance(x, ast.Continue) for b in st.body for x in ast.walk(b))
                      and not any(isinstance(x, ast.Name) and isinstance(x.ctx, ast.Store) and x.id == i for b in st.body[:-1] for x in ast.walk(b))
                      # bound and step are loop-invariant: none of their names is bound inside the loop
                      and not ({x.id for e in (last.value, st.test.comparators[0]) for x in ast.walk(e) if isinstance(x, ast.Name)} &
                               {x.id for b in st.body for x in ast.walk(b) if isinstance(x, ast.Name) and isinstance(x.ctx, ast.Store)})
                      and not any(isinstance(x, ast.Call) and not (
                          # len() of a name the loop never re-binds (and no method of it is called) is loop-invariant
                          dotted(x.func) == 'len' and len(x.args) == 1 and isinstance(x.args[0], ast.Name) and not any(
                              (isinstance(y, ast.Name) and isinstance(y.ctx, ast.Store) and y.id == x.args[0].id) or
                              (isinstance(y, ast.Call) and isinstance(y.func, ast.Attribute) and norm(y.func.value) == x.args[0].id)
                              for b in st.body for y in ast.walk(b)))
                                 for e in (last.value, st.test.comparators[0]) for x in ast.walk(e)))
                if ok:
                    init = out.pop(inits[-1])
                    rng = ast.Call(func=ast.Name(id='range', ctx=ast.Load()), args=[init.value, st.test.comparators[0], last.value], keywords=[])
                    new = ast.For(target=ast.Name(id=i, ctx=ast.Store()), iter=rng, body=st.body[:-1] or [ast.Pass()], orelse=[])
                    ast.copy_location(new, st)
                    out.append(new)
                    continue
            out.append(st)
        return out
    new = clone(fn)
    new.body = fix(new.body)
    return relink(ast.fix_missing_locations(new))


def relink(tree: ast.AST) -> Any:
    """(re)create the parent back-links the analyses use (`parent`, `ancestors`) after an AST was cloned / rewritten."""
    for par in ast.walk(tree):
        for child in ast.iter_child_nodes(par):
            child._parent = par           # type: ignore[attr-defined]
    return tree


def comprehension_or_loop(fn: FuncNode) -> List[Tuple[ast.expr, ast.expr, Optional[str]]]:
    """list-building folds of a function in either spelling: `[E for x in IT]` (any position) and
    `acc = []; for x in IT: acc.append(E)` -> [(IT, E, loop variable)]."""
    out: List[Tuple[ast.expr, ast.expr, Optional[str]]] = []
    for n in ast.walk(fn):
        if isinstance(n, ast.ListComp) and len(n.generators) == 1 and not n.generators[0].ifs:
            g = n.generators[0]
            out.append((g.iter, n.elt, norm(g.target)))
        if isinstance(n, ast.For) and not n.orelse:
            body = inline_block(list(n.body))          # named temporaries of the loop body are substituted (also call-valued, single use)
            if len(body) == 2 and isinstance(body[0], ast.Assign) and len(body[0].targets) == 1 and isinstance(body[0].targets[0], ast.Name):
                # `t = E1; acc.append(f(t))` with t used once: read as acc.append(f(E1))
                t = body[0].targets[0].id
                uses = [x for x in ast.walk(body[1]) if isinstance(x, ast.Name) and x.id == t and isinstance(x.ctx, ast.Load)]
                if len(uses) == 1:
                    val = body[0].value

                    class S(ast.NodeTransformer):
                        def visit_Name(self, node: ast.Name) -> ast.AST:
                            return clone(val) if isinstance(node.ctx, ast.Load) and node.id == t else node
                    body = [S().visit(clone(body[1]))]
            if len(body) == 1 and isinstance(body[0], ast.Expr) and isinstance(body[0].value, ast.Call) \
                    and dotted(body[0].value.func).endswith('.append') and len(body[0].value.args) == 1:
                out.append((n.iter, body[0].value.args[0], norm(n.target)))
    return out


def conditional_value(fn: FuncNode, name: str) -> Optional[ast.expr]:
    """the value a local holds after the top-level statements of fn that define it, as ONE expression: a single definition reads as
    itself; `x = E0` followed by `if C: x = E1` (optionally `else: x = E2`) and no other store reads `E1 if C else E0` (`E2`);
    `if C: x = E1` / `else: x = E2` alone reads `E1 if C else E2`. None for any other shape."""
    stores = [n for n in walk_no_nested(fn) if isinstance(n, ast.Name) and n.id == name and isinstance(n.ctx, ast.Store)]
    cur: Optional[ast.expr] = None
    seen = 0

    def only_assign(block: List[ast.stmt]) -> Optional[ast.expr]:
        if len(block) == 1 and isinstance(block[0], ast.Assign) and len(block[0].targets) == 1 and isinstance(block[0].targets[0], ast.Name) \
                and block[0].targets[0].id == name:
            return block[0].value
        return None
    for st in fn.body:
        if isinstance(st, ast.Assign) and len(st.targets) == 1 and isinstance(st.targets[0], ast.Name) and st.targets[0].id == name:
            cur = st.value
            seen += 1
        elif isinstance(st, ast.AnnAssign) and isinstance(st.target, ast.Name) and st.target.id == name and st.value is not None:
            cur = st.value
            seen += 1
        elif isinstance(st, ast.If):
            a, b = only_assign(st.body), only_assign(st.orelse) if st.orelse else None
            if a is not None and (b is not None or (not st.orelse and cur is not None)):
                cur = ast.IfExp(test=st.test, body=a, orelse=b if b is not None else cur)
                seen += 1 + (1 if b is not None else 0)
    if cur is None or seen != len(stores):
        return None
    return ast.fix_missing_locations(cur)


def inline_module_constants(repo: 'Repo', rel: str, e: ast.expr) -> ast.expr:
    """names bound exactly once at module level to a call-free expression (a lifted literal such as _BYTE_MASK = 0xFF or a tuple of
    enum members) are replaced by that expression."""
    mod = repo.mod(rel)
    binds: Dict[str, ast.expr] = {}
    counts: Dict[str, int] = {}
    for st in mod.body:
        tg = st.targets if isinstance(st, ast.Assign) else [st.target] if isinstance(st, ast.AnnAssign) and st.value is not None else []
        for t in tg:
            if isinstance(t, ast.Name):
                counts[t.id] = counts.get(t.id, 0) + 1
                if not any(isinstance(x, ast.Call) for x in ast.walk(st.value)):        # type: ignore[arg-type]
                    binds[t.id] = st.value               # type: ignore[assignment]
    binds = {k: v for k, v in binds.items() if counts.get(k) == 1 and k.startswith('_')}

    class Sub(ast.NodeTransformer):
        def visit_Name(self, node: ast.Name) -> ast.AST:
            if isinstance(node.ctx, ast.Load) and node.id in binds:
                return clone(binds[node.id])
            return node
    return ast.fix_missing_locations(Sub().visit(clone(e)))


def normalize_tuple_unpack(fn: FuncNode) -> FuncNode:
    """a copy of fn in which `t = CALL(..)` followed by `a = t[0]`, `b = t[1]`, .. (t used nowhere else) reads as
    `a, b = CALL(..)`."""
    new = clone(fn)

    def fix(stmts: List[ast.stmt]) -> List[ast.stmt]:
        out: List[ast.stmt] = []
        i = 0
        while i < len(stmts):
            st = stmts[i]
            for fld in ('body', 'orelse', 'finalbody'):
                sub = getattr(st, fld, None)
                if isinstance(sub, list) and sub and isinstance(sub[0], ast.stmt):
                    setattr(st, fld, fix(sub))
            if isinstance(st, ast.With):
                st.body = fix(st.body)
            if isinstance(st, ast.Assign) and len(st.targets) == 1 and isinstance(st.targets[0], ast.Name) and isinstance(st.value, ast.Call):
                t = st.targets[0].id
                elems: List[ast.expr] = []
                j = i + 1
                while j < len(stmts):
                    nx = stmts[j]
                    if isinstance(nx, ast.Assign) and len(nx.targets) == 1 and isinstance(nx.value, ast.Subscript) and norm(nx.value.value) == t \
                            and isinstance(nx.value.slice, ast.Constant) and nx.value.slice.value == len(elems):
                        elems.append(nx.targets[0])
                        j += 1
                    else:
                        break
                uses = sum(1 for x in ast.walk(new) if isinstance(x, ast.Name) and x.id == t and isinstance(x.ctx, ast.Load))
                if len(elems) >= 2 and uses == len(elems):
                    tup = ast.Tuple(elts=[clone(e) for e in elems], ctx=ast.Store())
                    for e in tup.elts:
                        if hasattr(e, 'ctx'):
                            e.ctx = ast.Store()          # type: ignore[attr-defined]
                    out.append(ast.copy_location(ast.Assign(targets=[tup], value=st.value), st))
                    i = j
                    continue
            out.append(st)
            i += 1
        return out
    new.body = fix(new.body)
    return relink(ast.fix_missing_locations(new))


def normalize_indexed_loops(fn: FuncNode) -> FuncNode:
    """a copy of fn with the two index-walk spellings brought to one:
    `for i, v in enumerate(X[a:b])` -> `for i in range(b - a)` with v read as X[a + i];
    `for i, v in enumerate(X)`      -> `for i in range(len(X))` with v read as X[i]
    (also inside generator expressions / comprehensions). the loop is assumed to stay inside X (what the original indexing
    spelling assumes too)."""
    new = clone(fn)

    def rewrite(target: ast.expr, it: ast.expr) -> Optional[Tuple[ast.expr, ast.expr, str, ast.expr]]:
        if not (isinstance(it, ast.Call) and dotted(it.func) == 'enumerate' and len(it.args) == 1 and isinstance(target, ast.Tuple)
                and len(target.elts) == 2 and all(isinstance(e, ast.Name) for e in target.elts)):
            return None
        i, v = target.elts[0].id, target.elts[1].id          # type: ignore[attr-defined]
        seq = it.args[0]
        if isinstance(seq, ast.Subscript) and isinstance(seq.slice, ast.Slice) and seq.slice.step is None and seq.slice.lower is not None \
                and seq.slice.upper is not None:
            rng = ast.BinOp(left=seq.slice.upper, op=ast.Sub(), right=seq.slice.lower)
            elem: ast.expr = ast.Subscript(value=seq.value, slice=ast.BinOp(left=seq.slice.lower, op=ast.Add(), right=ast.Name(id=i, ctx=ast.Load())), ctx=ast.Load())
        else:
            rng = ast.Call(func=ast.Name(id='len', ctx=ast.Load()), args=[seq], keywords=[])
            elem = ast.Subscript(value=seq, slice=ast.Name(id=i, ctx=ast.Load()), ctx=ast.Load())
        new_iter = ast.Call(func=ast.Name(id='range', ctx=ast.Load()), args=[rng], keywords=[])
        return ast.Name(id=i, ctx=ast.Store()), new_iter, v, elem

    class SubV(ast.NodeTransformer):
        def __init__(self, v: str, elem: ast.expr):
            self.v, self.elem = v, elem

        def visit_Name(self, node: ast.Name) -> ast.AST:
            if isinstance(node.ctx, ast.Load) and node.id == self.v:
                return clone(self.elem)
            return node

    class T(ast.NodeTransformer):
        def visit_For(self, node: ast.For) -> ast.AST:
            self.generic_visit(node)
            r = rewrite(node.target, node.iter)
            if r is None or any(isinstance(x, ast.Name) and isinstance(x.ctx, ast.Store) and x.id == r[2] for b in node.body for x in ast.walk(b)):
                return node
            node.target, node.iter = r[0], r[1]
            node.body = [SubV(r[2], r[3]).visit(b) for b in node.body]
            return node

        def _comp(self, node: Any) -> Any:
            self.generic_visit(node)
            for g in node.generators:
                r = rewrite(g.target, g.iter)
                if r is None:
                    continue
                g.target, g.iter = r[0], r[1]
                if hasattr(node, 'elt'):
                    node.elt = SubV(r[2], r[3]).visit(node.elt)
                g.ifs = [SubV(r[2], r[3]).visit(c) for c in g.ifs]
            return node
        visit_GeneratorExp = visit_ListComp = visit_SetComp = _comp
    new = T().visit(new)
    return relink(ast.fix_missing_locations(new))


def membership_searches(fn: FuncNode, seq: str) -> List[Tuple[ast.expr, List[ast.stmt], int, List[str]]]:
    """`is some element of <seq> such that TEST` in either spelling:
    `for a, b in SEQ: if TEST: BODY` (BODY ends in return / break) and `if any(TEST for a, b in SEQ): BODY`
    -> [(TEST, BODY, line, loop variable names)]"""
    out: List[Tuple[ast.expr, List[ast.stmt], int, List[str]]] = []
    for n in ast.walk(fn):
        if isinstance(n, ast.For) and norm(n.iter) == seq and len(n.body) == 1 and isinstance(n.body[0], ast.If) and not n.body[0].orelse \
                and n.body[0].body and isinstance(n.body[0].body[-1], (ast.Return, ast.Break)):
            names = [norm(e) for e in (n.target.elts if isinstance(n.target, ast.Tuple) else [n.target])]
            out.append((n.body[0].test, n.body[0].body, n.lineno, names))
        if isinstance(n, ast.If) and isinstance(n.test, ast.Call) and dotted(n.test.func) == 'any' and len(n.test.args) == 1 \
                and isinstance(n.test.args[0], (ast.GeneratorExp, ast.ListComp)) and len(n.test.args[0].generators) == 1 \
                and norm(n.test.args[0].generators[0].iter) == seq and not n.test.args[0].generators[0].ifs:
            g = n.test.args[0].generators[0]
            names = [norm(e) for e in (g.target.elts if isinstance(g.target, ast.Tuple) else [g.target])]
            out.append((n.test.args[0].elt, n.body, n.lineno, names))
    return out


def hoist_value_helpers(repo: 'Repo', rel: str, fn: FuncNode, cls: Optional[str] = None) -> FuncNode:
    """a copy of fn in which a call of a private "do it and hand back the result" method nested inside a simple statement
         S[ R._h(a, b) ]        with   def _h(self, p, q): <simple statements>; return E
    reads as   <the simple statements, p/q := a/b, self := R>;  S[ E ]   - provided the call is the first thing S evaluates that is not
    call-free (so nothing of S runs before the helper's statements) and the arguments are call-free. R is `self` (methods of cls) or
    any other name when exactly one class of the module defines a private method of that name."""
    new = clone(fn)
    classes = [c for c in repo.mod(rel).body if isinstance(c, ast.ClassDef)]

    def helper(call: ast.Call) -> Optional[Tuple[ast.expr, FuncNode]]:
        f = call.func
        if not (isinstance(f, ast.Attribute) and isinstance(f.value, ast.Name) and f.attr.startswith('_') and not f.attr.startswith('__')) or call.keywords:
            return None
        owners = [c for c in classes if any(isinstance(m, ast.FunctionDef) and m.name == f.attr for m in c.body)]
        if f.value.id == 'self' and cls:
            owners = [c for c in owners if c.name == cls]
        if len(owners) != 1:
            return None
        h = [m for m in owners[0].body if isinstance(m, ast.FunctionDef) and m.name == f.attr][-1]
        if h.decorator_list or h.args.vararg or h.args.kwarg or h.args.kwonlyargs or h.args.defaults:
            return None
        params = [a.arg for a in h.args.args]
        if not params or params[0] != 'self' or len(params) - 1 != len(call.args):
            return None
        body = [b for b in h.body if not (isinstance(b, ast.Expr) and isinstance(b.value, ast.Constant))]
        if len(body) < 2 or not isinstance(body[-1], ast.Return) or body[-1].value is None:
            return None
        if not all(isinstance(b, (ast.Assign, ast.AugAssign, ast.AnnAssign)) for b in body[:-1]):
            return None
        if any(isinstance(x, (ast.Call, ast.NamedExpr, ast.Await, ast.Yield)) for a in call.args for x in ast.walk(a)):
            return None
        # the helper binds no local of its own (its stores are attribute / subscript stores): nothing to rename in the caller
        if any(isinstance(x, ast.Name) and isinstance(x.ctx, ast.Store) for b in body for x in ast.walk(b)):
            return None
        return f.value, h

    def subst(node: ast.AST, binding: Dict[str, ast.expr]) -> Any:
        class S(ast.NodeTransformer):
            def visit_Name(self, n: ast.Name) -> ast.AST:
                return clone(binding[n.id]) if n.id in binding and isinstance(n.ctx, ast.Load) else n
        return S().visit(clone(node))

    def fix(stmts: List[ast.stmt]) -> List[ast.stmt]:
        out: List[ast.stmt] = []
        for st in stmts:
            for fld in ('body', 'orelse', 'finalbody'):
                sub = getattr(st, fld, None)
                if isinstance(sub, list) and sub and isinstance(sub[0], ast.stmt):
                    setattr(st, fld, fix(sub))
            if isinstance(st, ast.Try):
                for hd in st.handlers:
                    hd.body = fix(hd.body)
            if isinstance(st, (ast.Expr, ast.Assign, ast.AugAssign, ast.AnnAssign, ast.Return)):
                order = calls_in_order(st)
                if order and isinstance(st, ast.Expr) and order[0] is st.value and helper(order[0]):
                    order = []                   # a statement-level call: expand_private_calls reads those
                hp = helper(order[0]) if order else None
                if hp is not None:
                    recv, h = hp
                    call = order[0]
                    binding: Dict[str, ast.expr] = {'self': recv}
                    binding.update(dict(zip([a.arg for a in h.args.args][1:], call.args)))
                    body = [b for b in h.body if not (isinstance(b, ast.Expr) and isinstance(b.value, ast.Constant))]
                    for b in body[:-1]:
                        nb = subst(b, binding)
                        ast.copy_location(nb, st)
                        out.append(ast.fix_missing_locations(nb))
                    value = subst(body[-1].value, binding)

                    class R(ast.NodeTransformer):
                        def visit_Call(self, n: ast.Call) -> ast.AST:
                            if n is call:
                                return ast.copy_location(value, n)
                            return self.generic_visit(n)
                    st = ast.fix_missing_locations(R().visit(st))
            out.append(st)
        return out
    new.body = fix(new.body)
    return relink(ast.fix_missing_locations(new))


def search_helpers_as_any(repo: 'Repo', rel: str, cls: Optional[str], fn: FuncNode) -> FuncNode:
    """a copy of fn in which the call of a private helper whose whole body is
         for T in SEQ:
             if TEST: return True
         return False
    reads as `any(TEST for T in SEQ)` with the helper's parameters replaced by the (call-free) arguments - an extracted "is it in one
    of the ranges" search reads like the loop it was extracted from (membership_searches knows the any() spelling)."""
    new = clone(fn)

    def as_any(call: ast.Call) -> Optional[ast.expr]:
        d = dotted(call.func)
        name = d.split('.')[-1]
        if not name.startswith('_') or name.startswith('__') or call.keywords:
            return None
        q = f'{cls}.{name}' if d == f'self.{name}' and cls else name if d == name else None
        if q is None or not repo.has_func(rel, q):
            return None
        h = repo.func(rel, q)
        body = [b for b in h.body if not (isinstance(b, ast.Expr) and isinstance(b.value, ast.Constant))]
        if not (len(body) == 2 and isinstance(body[0], ast.For) and not body[0].orelse and len(body[0].body) == 1
                and isinstance(body[0].body[0], ast.If) and not body[0].body[0].orelse and len(body[0].body[0].body) == 1
                and isinstance(body[0].body[0].body[0], ast.Return) and isinstance(body[0].body[0].body[0].value, ast.Constant)
                and body[0].body[0].body[0].value.value is True
                and isinstance(body[1], ast.Return) and isinstance(body[1].value, ast.Constant) and body[1].value.value is False):
            return None
        params = [a.arg for a in h.args.args if a.arg != 'self']
        if len(params) != len(call.args) or h.args.vararg or h.args.kwarg or h.args.kwonlyargs:
            return None
        if any(isinstance(x, (ast.Call, ast.NamedExpr, ast.Await, ast.Yield)) for a in call.args for x in ast.walk(a)):
            return None
        binding = dict(zip(params, call.args))
        loop_names = {x.id for x in ast.walk(body[0].target) if isinstance(x, ast.Name)}
        if loop_names & {x.id for a in call.args for x in ast.walk(a) if isinstance(x, ast.Name)}:
            return None

        class S(ast.NodeTransformer):
            def visit_Name(self, node: ast.Name) -> ast.AST:
                return clone(binding[node.id]) if isinstance(node.ctx, ast.Load) and node.id in binding else node
        gen = ast.comprehension(target=clone(body[0].target), iter=S().visit(clone(body[0].iter)), ifs=[], is_async=0)
        out = ast.Call(func=ast.Name(id='any', ctx=ast.Load()), args=[ast.GeneratorExp(elt=S().visit(clone(body[0].body[0].test)), generators=[gen])], keywords=[])
        return ast.copy_location(out, call)

    class T(ast.NodeTransformer):
        def visit_Call(self, node: ast.Call) -> ast.AST:
            self.generic_visit(node)
            r = as_any(node)
            return r if r is not None else node
    T().visit(new)
    ast.fix_missing_locations(new)
    return new


def calls_in_order(node: ast.AST) -> List[ast.Call]:
    """the calls of a (possibly rewritten) tree in evaluation-like pre-order of the tree, independent of line numbers (an inlined
    helper keeps the line numbers of its own source)."""
    out: List[ast.Call] = []

    def rec(n: ast.AST) -> None:
        for ch in ast.iter_child_nodes(n):
            rec(ch)
        if isinstance(n, ast.Call):
            out.append(n)
    # statements in order; inside one statement arguments are evaluated before the call itself
    rec(node)
    return out


def unroll_literal_loops(fn: FuncNode) -> FuncNode:
    """a copy of fn in which `for x in (a, b, ..): BODY` over a literal tuple / list of call-free expressions, with a BODY that has
    no break / continue / else and never re-binds x, is replaced by BODY[x := a]; BODY[x := b]; ..."""
    new = clone(fn)

    class Sub(ast.NodeTransformer):
        def __init__(self, name: str, val: ast.expr):
            self.name, self.val = name, val

        def visit_Name(self, node: ast.Name) -> ast.AST:
            if isinstance(node.ctx, ast.Load) and node.id == self.name:
                return clone(self.val)
            return node

    def unroll(stmts: List[ast.stmt]) -> List[ast.stmt]:
        out: List[ast.stmt] = []
        for st in stmts:
            for fld in ('body', 'orelse', 'finalbody'):
                sub = getattr(st, fld, None)
                if isinstance(sub, list) and sub and isinstance(sub[0], ast.stmt):
                    setattr(st, fld, unroll(sub))
            if isinstance(st, ast.Try):
                for hd in st.handlers:
                    hd.body = unroll(hd.body)
            if isinstance(st, ast.For) and isinstance(st.target, ast.Name) and isinstance(st.iter, (ast.Tuple, ast.List)) and not st.orelse \
                    and 0 < len(st.iter.elts) <= 8 \
                    and not any(isinstance(x, (ast.Call, ast.Await, ast.Yield, ast.Starred)) for e in st.iter.elts for x in ast.walk(e)) \
                    and not any(isinstance(x, (ast.Break, ast.Continue)) for b in st.body for x in ast.walk(b)) \
                    and not any(isinstance(x, ast.Name) and isinstance(x.ctx, ast.Store) and x.id == st.target.id for b in st.body for x in ast.walk(b)):
                for e in st.iter.elts:
                    for b in st.body:
                        out.append(Sub(st.target.id, e).visit(clone(b)))
                continue
            # `for a, b in ((x1, y1), (x2, y2)): BODY` over literal rows
            if isinstance(st, ast.For) and isinstance(st.target, ast.Tuple) and all(isinstance(t, ast.Name) for t in st.target.elts) \
                    and isinstance(st.iter, (ast.Tuple, ast.List)) and not st.orelse and 0 < len(st.iter.elts) <= 16 \
                    and all(isinstance(r, (ast.Tuple, ast.List)) and len(r.elts) == len(st.target.elts) for r in st.iter.elts) \
                    and not any(isinstance(x, (ast.Call, ast.Await, ast.Yield, ast.Starred)) for r in st.iter.elts for x in ast.walk(r)) \
                    and not any(isinstance(x, (ast.Break, ast.Continue)) for b in st.body for x in ast.walk(b)):
                names_ = [t.id for t in st.target.elts]          # type: ignore[attr-defined]
                if not any(isinstance(x, ast.Name) and isinstance(x.ctx, ast.Store) and x.id in names_ for b in st.body for x in ast.walk(b)):
                    for r in st.iter.elts:
                        for b in st.body:
                            nb = clone(b)
                            for nm_, val in zip(names_, r.elts):          # type: ignore[attr-defined]
                                nb = Sub(nm_, val).visit(nb)
                            out.append(nb)
                    continue
            out.append(st)
        return out
    new.body = unroll(new.body)
    return relink(ast.fix_missing_locations(new))


def canonical_fn(repo: 'Repo', rel: str, qualname: str, *, keep: Sequence[str] = (), depth: int = 2) -> FuncNode:
    """the function as the rules read it: private helpers expanded (statement level) and substituted (expression level), literal
    loops unrolled, single-use call-free temporaries substituted. Behaviour-preserving re-spellings normalise alike."""
    cls = qualname.rsplit('.', 1)[0] if '.' in qualname else None
    fn = repo.func(rel, qualname)
    fn = expand_private_calls(repo, rel, fn, cls, depth=depth, keep=keep)
    fn = inline_pure_helpers(repo, rel, cls, fn, keep=keep)
    fn = unroll_literal_loops(fn)
    fn = inline_pure_temps(fn)
    return fn


def spread_literal_sequences(fn: FuncNode) -> FuncNode:
    """a READING normaliser (it may duplicate the text of calls; use it to read structure, not to count effects): a copy of fn in which
      - single-use-free temporaries are substituted (inline_pure_temps),
      - `[E(x) for x in (a, b, c)]` over a literal tuple / list is the literal list `[E(a), E(b), E(c)]`,
      - a local bound once, at the top level, to a literal list / tuple is substituted where it is zipped, iterated by a
        comprehension or unpacked,
      - `all(P(n, o) for n, o in zip([n1, n2], [o1, o2]))` is `P(n1, o1) and P(n2, o2)` (`any` -> or),
      - `a, b = [X, Y]` is `a = X; b = Y`."""
    new = inline_pure_temps(fn)

    def subst(e: ast.AST, b: Dict[str, ast.expr]) -> Any:
        class S(ast.NodeTransformer):
            def visit_Name(self, node: ast.Name) -> ast.AST:
                return clone(b[node.id]) if isinstance(node.ctx, ast.Load) and node.id in b else node
        return S().visit(clone(e))

    def lit(e: ast.AST) -> Optional[List[ast.expr]]:
        return list(e.elts) if isinstance(e, (ast.List, ast.Tuple)) and not any(isinstance(x, ast.Starred) for x in e.elts) and len(e.elts) <= 12 else None

    class Unroll(ast.NodeTransformer):
        def comp(self, node: Any) -> Optional[List[ast.expr]]:
            if len(node.generators) != 1 or node.generators[0].ifs or node.generators[0].is_async:
                return None
            g = node.generators[0]
            items = lit(g.iter)
            if items is not None and isinstance(g.target, ast.Name):
                return [subst(node.elt, {g.target.id: it}) for it in items]
            if isinstance(g.iter, ast.Call) and dotted(g.iter.func) == 'zip' and isinstance(g.target, ast.Tuple) \
                    and all(isinstance(t, ast.Name) for t in g.target.elts) and len(g.iter.args) == len(g.target.elts):
                cols = [lit(a) for a in g.iter.args]
                if all(c is not None for c in cols) and len({len(c) for c in cols if c is not None}) == 1:
                    n = len(cols[0] or [])
                    return [subst(node.elt, {t.id: (cols[k] or [])[i] for k, t in enumerate(g.target.elts)}) for i in range(n)]   # type: ignore[attr-defined]
            return None

        def visit_ListComp(self, node: ast.ListComp) -> ast.AST:
            self.generic_visit(node)
            el = self.comp(node)
            return ast.List(elts=el, ctx=ast.Load()) if el is not None else node

        def visit_Call(self, node: ast.Call) -> ast.AST:
            self.generic_visit(node)
            if dotted(node.func) in ('all', 'any') and len(node.args) == 1 and not node.keywords:
                a = node.args[0]
                el = self.comp(a) if isinstance(a, (ast.GeneratorExp, ast.ListComp)) else lit(a)
                if el:
                    return ast.BoolOp(op=ast.And() if dotted(node.func) == 'all' else ast.Or(), values=el) if len(el) > 1 else el[0]
            return node

    for _ in range(2):
        new.body = [Unroll().visit(st) for st in new.body]
        # locals bound once to a literal sequence: substituted at zip / comprehension-iter / unpack positions
        binds: Dict[str, ast.expr] = {}
        counts: Dict[str, int] = {}
        for n in ast.walk(new):
            if isinstance(n, ast.Name) and isinstance(n.ctx, ast.Store):
                counts[n.id] = counts.get(n.id, 0) + 1
        for st in new.body:
            if isinstance(st, ast.Assign) and len(st.targets) == 1 and isinstance(st.targets[0], ast.Name) and counts.get(st.targets[0].id) == 1 \
                    and lit(st.value) is not None:
                binds[st.targets[0].id] = st.value

        class Spread(ast.NodeTransformer):
            def visit_Call(self, node: ast.Call) -> ast.AST:
                self.generic_visit(node)
                if dotted(node.func) == 'zip':
                    node.args = [clone(binds[a.id]) if isinstance(a, ast.Name) and a.id in binds else a for a in node.args]
                return node

            def visit_comprehension(self, node: ast.comprehension) -> ast.AST:
                self.generic_visit(node)
                if isinstance(node.iter, ast.Name) and node.iter.id in binds:
                    node.iter = clone(binds[node.iter.id])
                return node

            def visit_Assign(self, node: ast.Assign) -> ast.AST:
                self.generic_visit(node)
                if isinstance(node.targets[0], ast.Tuple) and isinstance(node.value, ast.Name) and node.value.id in binds:
                    node.value = clone(binds[node.value.id])
                return node
        new.body = [Spread().visit(st) for st in new.body]

    def unpack(stmts: List[ast.stmt]) -> List[ast.stmt]:
        out: List[ast.stmt] = []
        for st in stmts:
            for fld in ('body', 'orelse', 'finalbody'):
                sub = getattr(st, fld, None)
                if isinstance(sub, list) and sub and isinstance(sub[0], ast.stmt):
                    setattr(st, fld, unpack(sub))
            if isinstance(st, ast.Assign) and len(st.targets) == 1 and isinstance(st.targets[0], ast.Tuple) and lit(st.value) is not None \
                    and len(st.targets[0].elts) == len(st.value.elts) and all(isinstance(t, ast.Name) for t in st.targets[0].elts):   # type: ignore[attr-defined]
                tn = {t.id for t in st.targets[0].elts}     # type: ignore[attr-defined]
                if not any(isinstance(x, ast.Name) and x.id in tn for v in st.value.elts for x in ast.walk(v)):    # type: ignore[attr-defined]
                    for t, v in zip(st.targets[0].elts, st.value.elts):      # type: ignore[attr-defined]
                        out.append(ast.copy_location(ast.Assign(targets=[t], value=v), st))
                    continue
            out.append(st)
        return out
    new.body = unpack(new.body)
    # a sequence local that is no longer read is dropped
    used = {n.id for n in ast.walk(new) if isinstance(n, ast.Name) and isinstance(n.ctx, ast.Load)}
    new.body = [st for st in new.body if not (isinstance(st, ast.Assign) and len(st.targets) == 1 and isinstance(st.targets[0], ast.Name)
                                               and st.targets[0].id not in used and lit(st.value) is not None)]
    return relink(ast.fix_missing_locations(new))


def specialize(fn: FuncNode, consts: Dict[str, Any]) -> FuncNode:
    """a copy of fn partially evaluated for constant values of some names (a command string, a type letter): loads of those names
    become the constants, comparisons between constants are folded, and `if` / conditional expressions with a constant test keep
    only the branch taken."""
    new = clone(fn)

    class P(ast.NodeTransformer):
        def visit_Name(self, node: ast.Name) -> ast.AST:
            if isinstance(node.ctx, ast.Load) and node.id in consts:
                return ast.copy_location(ast.Constant(value=consts[node.id]), node)
            return node

        def visit_Attribute(self, node: ast.Attribute) -> ast.AST:
            # a dotted key (`args.run`) stands for that attribute read
            if isinstance(node.ctx, ast.Load) and dotted(node) in consts:
                return ast.copy_location(ast.Constant(value=consts[dotted(node)]), node)
            return self.generic_visit(node)

        def visit_Compare(self, node: ast.Compare) -> ast.AST:
            self.generic_visit(node)
            if len(node.ops) == 1 and isinstance(node.left, ast.Constant):
                r = node.comparators[0]
                op = node.ops[0]
                if isinstance(r, ast.Constant) and isinstance(op, (ast.Eq, ast.NotEq)):
                    return ast.copy_location(ast.Constant(value=(node.left.value == r.value) == isinstance(op, ast.Eq)), node)
                if isinstance(r, (ast.Tuple, ast.List, ast.Set)) and all(isinstance(e, ast.Constant) for e in r.elts) and isinstance(op, (ast.In, ast.NotIn)):
                    return ast.copy_location(ast.Constant(value=(node.left.value in [e.value for e in r.elts]) == isinstance(op, ast.In)), node)   # type: ignore[attr-defined]
                if isinstance(r, ast.Constant) and isinstance(r.value, str) and isinstance(node.left.value, str) and isinstance(op, (ast.In, ast.NotIn)):
                    return ast.copy_location(ast.Constant(value=(node.left.value in r.value) == isinstance(op, ast.In)), node)
            return node

        def visit_UnaryOp(self, node: ast.UnaryOp) -> ast.AST:
            self.generic_visit(node)
            if isinstance(node.op, ast.Not) and isinstance(node.operand, ast.Constant) and isinstance(node.operand.value, bool):
                return ast.copy_location(ast.Constant(value=not node.operand.value), node)
            return node

        def visit_BoolOp(self, node: ast.BoolOp) -> ast.AST:
            self.generic_visit(node)
            is_and = isinstance(node.op, ast.And)
            vals = []
            for v in node.values:
                if isinstance(v, ast.Constant) and isinstance(v.value, bool):
                    if v.value != is_and:
                        return ast.copy_location(ast.Constant(value=v.value), node)       # False in and / True in or decides
                    continue
                vals.append(v)
            if not vals:
                return ast.copy_location(ast.Constant(value=is_and), node)
            if len(vals) == 1:
                return vals[0]
            node.values = vals
            return node

        def visit_IfExp(self, node: ast.IfExp) -> ast.AST:
            self.generic_visit(node)
            if isinstance(node.test, ast.Constant) and isinstance(node.test.value, bool):
                return node.body if node.test.value else node.orelse
            return node

    def prune(stmts: List[ast.stmt]) -> List[ast.stmt]:
        out: List[ast.stmt] = []
        for st in stmts:
            for fld in ('body', 'orelse', 'finalbody'):
                sub = getattr(st, fld, None)
                if isinstance(sub, list) and sub and isinstance(sub[0], ast.stmt):
                    setattr(st, fld, prune(sub))
            if isinstance(st, ast.Try):
                for hd in st.handlers:
                    hd.body = prune(hd.body)
            if isinstance(st, ast.If) and isinstance(st.test, ast.Constant) and isinstance(st.test.value, bool):
                out.extend(st.body if st.test.value else st.orelse)
                continue
            out.append(st)
        return out
    new.body = prune([P().visit(st) for st in new.body]) or [ast.Pass()]
    return relink(ast.fix_missing_locations(new))


def guard_clauses_to_blocks(fn: FuncNode) -> FuncNode:
    """a copy of a VOID function (no `return <value>` anywhere) in which a top-level guard clause `if C: return` followed by REST
    reads as `if not C: REST` - the early-return and the nested spelling of the same gate normalise alike."""
    if any(isinstance(r, ast.Return) and r.value is not None and not (isinstance(r.value, ast.Constant) and r.value.value is None)
           for r in walk_no_nested(fn)):
        return fn
    new = clone(fn)

    def fix(stmts: List[ast.stmt]) -> List[ast.stmt]:
        for i, st in enumerate(stmts):
            if isinstance(st, ast.If) and not st.orelse and len(st.body) == 1 and isinstance(st.body[0], ast.Return) and i + 1 < len(stmts):
                rest = fix(stmts[i + 1:])
                blk = ast.copy_location(ast.If(test=ast.UnaryOp(op=ast.Not(), operand=st.test), body=rest, orelse=[]), st)
                return stmts[:i] + [blk]
        return stmts
    new.body = fix(new.body)
    return relink(ast.fix_missing_locations(new))


def element_rejections(fn: FuncNode, seq: str) -> List[Tuple[str, ast.expr, ast.Raise]]:
    """the ways fn raises because SOME element of the sequence expression `seq` satisfies a predicate:
      for x in SEQ: if P(x): raise ..          |  if any(P(x) for x in SEQ): raise ..
      if [SEQ and] (min(SEQ) < A or max(SEQ) >= B): raise ..      (P(x) = x < A or x >= B)
      v = next((x for x in SEQ if P(x)), None); if v is not None: raise ..
    -> [(element variable, P as an expression over it, the raise)]; single-definition call-free temporaries are read through."""
    out: List[Tuple[str, ast.expr, ast.Raise]] = []
    f = inline_pure_temps(fn)

    def raises_in(body: List[ast.stmt]) -> List[ast.Raise]:
        return [r for st in body for r in ast.walk(st) if isinstance(r, ast.Raise)]

    def single_def(name: str) -> Optional[ast.expr]:
        vals = [n.value for n in ast.walk(f) if isinstance(n, ast.Assign) and len(n.targets) == 1 and isinstance(n.targets[0], ast.Name)
                and n.targets[0].id == name]
        return vals[0] if len(vals) == 1 else None
    for n in ast.walk(f):
        if isinstance(n, ast.For) and norm(n.iter) == seq and isinstance(n.target, ast.Name):
            for st in n.body:
                if isinstance(st, ast.If) and raises_in(st.body):
                    out.append((n.target.id, st.test, raises_in(st.body)[0]))
        if not isinstance(n, ast.If) or not raises_in(n.body):
            continue
        rz = raises_in(n.body)[0]
        disj = push_not(n.test)
        conj = list(disj.values) if isinstance(disj, ast.BoolOp) and isinstance(disj.op, ast.And) else [disj]
        for cj in conj:
            if isinstance(cj, ast.Call) and dotted(cj.func) == 'any' and len(cj.args) == 1 and isinstance(cj.args[0], (ast.GeneratorExp, ast.ListComp)):
                g = cj.args[0]
                if len(g.generators) == 1 and norm(g.generators[0].iter) == seq and isinstance(g.generators[0].target, ast.Name) and not g.generators[0].ifs:
                    out.append((g.generators[0].target.id, g.elt, rz))
            if isinstance(cj, ast.BoolOp) and isinstance(cj.op, ast.Or) and len(cj.values) == 2:
                parts = {}
                for v in cj.values:
                    if isinstance(v, ast.Compare) and len(v.ops) == 1 and isinstance(v.left, ast.Call) and dotted(v.left.func) in ('min', 'max') \
                            and len(v.left.args) == 1 and norm(v.left.args[0]) == seq:
                        parts[dotted(v.left.func)] = v
                if set(parts) == {'min', 'max'}:
                    x = ast.Name(id='_x', ctx=ast.Load())
                    p = ast.BoolOp(op=ast.Or(), values=[ast.Compare(left=x, ops=parts['min'].ops, comparators=parts['min'].comparators),
                                                        ast.Compare(left=x, ops=parts['max'].ops, comparators=parts['max'].comparators)])
                    out.append(('_x', ast.fix_missing_locations(p), rz))
            if isinstance(cj, ast.Compare) and len(cj.ops) == 1 and isinstance(cj.ops[0], ast.IsNot) and isinstance(cj.left, ast.Name) \
                    and isinstance(cj.comparators[0], ast.Constant) and cj.comparators[0].value is None:
                d = single_def(cj.left.id)
                if isinstance(d, ast.Call) and dotted(d.func) == 'next' and len(d.args) == 2 and isinstance(d.args[1], ast.Constant) \
                        and d.args[1].value is None and isinstance(d.args[0], ast.GeneratorExp) and len(d.args[0].generators) == 1:
                    g = d.args[0].generators[0]
                    if norm(g.iter) == seq and isinstance(g.target, ast.Name) and norm(d.args[0].elt) == g.target.id and len(g.ifs) == 1:
                        out.append((g.target.id, g.ifs[0], rz))
    return out


def normalize_sorted_sweeps(fn: FuncNode) -> FuncNode:
    """a copy of fn in which
      `S = E` directly followed by `S.sort()` (no key)                         reads as  `S = sorted(E)`, and
      `for i in range(1, len(S)): A = S[i - 1]; B = S[i]; REST` (i unused in REST)  reads as  `for A, B in zip(S, S[1:]): REST`
    - the two spellings of "sort, then look at neighbours"."""
    new = clone(fn)

    def fix(stmts: List[ast.stmt]) -> List[ast.stmt]:
        out: List[ast.stmt] = []
        i = 0
        while i < len(stmts):
            st = stmts[i]
            for fld in ('body', 'orelse', 'finalbody'):
                sub = getattr(st, fld, None)
                if isinstance(sub, list) and sub and isinstance(sub[0], ast.stmt):
                    setattr(st, fld, fix(sub))
            nxt = stmts[i + 1] if i + 1 < len(stmts) else None
            if isinstance(st, ast.Assign) and len(st.targets) == 1 and isinstance(st.targets[0], ast.Name) and isinstance(nxt, ast.Expr) \
                    and isinstance(nxt.value, ast.Call) and dotted(nxt.value.func) == f'{st.targets[0].id}.sort' and not nxt.value.args \
                    and not nxt.value.keywords:
                val = st.value
                if isinstance(val, ast.ListComp):
                    val = ast.GeneratorExp(elt=val.elt, generators=val.generators)
                st.value = ast.Call(func=ast.Name(id='sorted', ctx=ast.Load()), args=[val], keywords=[])
                out.append(st)
                i += 2
                continue
            if isinstance(st, ast.For) and isinstance(st.target, ast.Name) and isinstance(st.iter, ast.Call) and dotted(st.iter.func) == 'range' \
                    and len(st.iter.args) == 2 and isinstance(st.iter.args[0], ast.Constant) and st.iter.args[0].value == 1 \
                    and isinstance(st.iter.args[1], ast.Call) and dotted(st.iter.args[1].func) == 'len' and len(st.body) >= 2 and not st.orelse:
                S = norm(st.iter.args[1].args[0])
                iv = st.target.id
                a, b = st.body[0], st.body[1]
                if isinstance(a, ast.Assign) and isinstance(b, ast.Assign) and {norm(a.value), norm(b.value)} == {f'{S}[{iv} - 1]', f'{S}[{iv}]'}:
                    prev, cur = (a, b) if norm(a.value) == f'{S}[{iv} - 1]' else (b, a)
                    rest = st.body[2:]
                    if rest and not any(isinstance(x, ast.Name) and x.id == iv for r in rest for x in ast.walk(r)):
                        seq = ast.parse(f'zip({S}, {S}[1:])', mode='eval').body
                        tgt = ast.Tuple(elts=[prev.targets[0], cur.targets[0]], ctx=ast.Store())
                        out.append(ast.copy_location(ast.For(target=tgt, iter=seq, body=rest, orelse=[]), st))
                        i += 1
                        continue
            out.append(st)
            i += 1
        return out
    new.body = fix(new.body)
    return relink(ast.fix_missing_locations(new))


def inline_adjacent_temps(fn: FuncNode) -> FuncNode:
    """a copy of fn in which a local that is bound once and read exactly once, by the statement that directly follows its binding,
    is substituted there even when its value contains calls (`buf = f.read(n)` / `unpack(fmt, buf)` reads as
    `unpack(fmt, f.read(n))`): nothing runs between the two, so only the spelling changes."""
    new = clone(fn)

    def fix(stmts: List[ast.stmt]) -> List[ast.stmt]:
        out: List[ast.stmt] = []
        i = 0
        while i < len(stmts):
            st = stmts[i]
            for fld in ('body', 'orelse', 'finalbody'):
                sub = getattr(st, fld, None)
                if isinstance(sub, list) and sub and isinstance(sub[0], ast.stmt):
                    setattr(st, fld, fix(sub))
            if isinstance(st, ast.Try):
                for hd in st.handlers:
                    hd.body = fix(hd.body)
            nxt = stmts[i + 1] if i + 1 < len(stmts) else None
            if isinstance(st, ast.Assign) and len(st.targets) == 1 and isinstance(st.targets[0], ast.Name) and nxt is not None \
                    and isinstance(nxt, (ast.Assign, ast.Expr, ast.Return, ast.AugAssign, ast.AnnAssign)):
                name = st.targets[0].id
                stores = sum(1 for x in ast.walk(new) if isinstance(x, ast.Name) and x.id == name and isinstance(x.ctx, ast.Store))
                loads = [x for x in ast.walk(new) if isinstance(x, ast.Name) and x.id == name and isinstance(x.ctx, ast.Load)]
                loads_next = [x for x in ast.walk(nxt) if isinstance(x, ast.Name) and x.id == name and isinstance(x.ctx, ast.Load)]
                if stores == 1 and len(loads) == 1 and len(loads_next) == 1:
                    val = st.value

                    class S(ast.NodeTransformer):
                        def visit_Name(self, node: ast.Name) -> ast.AST:
                            return clone(val) if isinstance(node.ctx, ast.Load) and node.id == name else node
                    stmts = stmts[:i + 1] + [S().visit(nxt)] + stmts[i + 2:]
                    i += 1
                    continue
            out.append(st)
            i += 1
        return out
    new.body = fix(new.body)
    return relink(ast.fix_missing_locations(new))


def attribute_copies(fn: FuncNode) -> Dict[str, str]:
    """local name -> the attribute it is copied to, for locals whose only use is one plain copy `self.x = name`."""
    out: Dict[str, str] = {}
    for st in ast.walk(fn):
        if isinstance(st, ast.Assign) and len(st.targets) == 1 and isinstance(st.targets[0], ast.Attribute) and isinstance(st.value, ast.Name):
            name = st.value.id
            loads = [x for x in ast.walk(fn) if isinstance(x, ast.Name) and x.id == name and isinstance(x.ctx, ast.Load)]
            if len(loads) == 1:
                out[name] = norm(st.targets[0])
    return out


def temp_values(fn: FuncNode) -> Dict[str, ast.expr]:
    """name -> value for every local bound exactly once at the top level of fn, with the call-free single-definition
    temporaries bound before it substituted into the value (the names themselves stay available, unlike inline_pure_temps)."""
    counts: Dict[str, int] = {}
    for n in ast.walk(fn):
        if isinstance(n, ast.Name) and isinstance(n.ctx, ast.Store):
            counts[n.id] = counts.get(n.id, 0) + 1
    pure: Dict[str, ast.expr] = {}
    out: Dict[str, ast.expr] = {}

    class Sub(ast.NodeTransformer):
        def visit_Name(self, node: ast.Name) -> ast.AST:
            return clone(pure[node.id]) if isinstance(node.ctx, ast.Load) and node.id in pure else node
    for st in fn.body:
        if isinstance(st, ast.Assign) and len(st.targets) == 1 and isinstance(st.targets[0], ast.Name) and counts.get(st.targets[0].id) == 1:
            val = Sub().visit(clone(st.value))
            out[st.targets[0].id] = val
            if not any(isinstance(x, (ast.Await, ast.Yield)) or (isinstance(x, ast.Call) and dotted(x.func) not in PURE_BUILTINS and not (
                    isinstance(x.func, ast.Attribute) and x.func.attr == 'bit_length' and not x.args)) for x in ast.walk(val)):
                pure[st.targets[0].id] = val
    return out


def read_through_locals(fn: FuncNode) -> FuncNode:
    """fn as the rules read it when locals merely rename things: literal sequences spread / unpacked, then every single-definition
    call-free temporary substituted (`a, b = self.x, self.y` then `b.append(a)` reads `self.y.append(self.x)`)."""
    return inline_pure_temps(spread_literal_sequences(fn))


def inline_optional_classifiers(repo: 'Repo', rel: str, fn: FuncNode, cls: Optional[str] = None) -> FuncNode:
    """a copy of fn in which the pair
         v = _h(args)                      # _h: private module function made of call-free temporaries, `if T: return E` steps
         if v is not None: BODY            #     and a final `return None`;  BODY ends in return / raise / continue / break
       reads as the cascade   if T1[args]: BODY[v := E1]   if T2[args]: BODY[v := E2] ...   - an extracted "which case is it, or
       None" helper reads like the tests it was extracted from."""
    new = clone(fn)

    def steps_of(h: FuncNode) -> Optional[List[Tuple[ast.expr, ast.expr]]]:
        h2 = inline_pure_temps(h)
        body = [b for b in h2.body if not (isinstance(b, ast.Expr) and isinstance(b.value, ast.Constant))]
        out: List[Tuple[ast.expr, ast.expr]] = []
        for k, st in enumerate(body):
            last = k == len(body) - 1
            if isinstance(st, ast.If):
                cur: Any = st
                while True:            # an if / elif chain of `return E` arms (temporaries local to an arm are substituted)
                    arm = inline_block(cur.body)
                    if not (len(arm) == 1 and isinstance(arm[0], ast.Return) and arm[0].value is not None):
                        return None
                    out.append((cur.test, arm[0].value))
                    if len(cur.orelse) == 1 and isinstance(cur.orelse[0], ast.If):
                        cur = cur.orelse[0]
                        continue
                    if cur.orelse:
                        return None
                    break
            elif last and isinstance(st, ast.Return) and (st.value is None or (isinstance(st.value, ast.Constant) and st.value.value is None)):
                pass
            else:
                return None
        return out or None

    def helper_of(call: ast.Call) -> Optional[FuncNode]:
        d = dotted(call.func)
        name = d.split('.')[-1]
        if not name.startswith('_') or name.startswith('__') or call.keywords:
            return None
        if d == name and repo.has_func(rel, name):
            return repo.func(rel, name)
        if d == f'self.{name}' and cls:
            for c_ in _class_chain(repo, rel, cls):
                if repo.has_func(rel, f'{c_}.{name}'):
                    return repo.func(rel, f'{c_}.{name}')
        return None

    def fix(stmts: List[ast.stmt]) -> List[ast.stmt]:
        out: List[ast.stmt] = []
        i = 0
        while i < len(stmts):
            st = stmts[i]
            for fld in ('body', 'orelse', 'finalbody'):
                sub = getattr(st, fld, None)
                if isinstance(sub, list) and sub and isinstance(sub[0], ast.stmt):
                    setattr(st, fld, fix(sub))
            if isinstance(st, ast.Try):
                for hd in st.handlers:
                    hd.body = fix(hd.body)
            nxt = stmts[i + 1] if i + 1 < len(stmts) else None
            if isinstance(st, ast.Assign) and len(st.targets) == 1 and isinstance(st.targets[0], ast.Name) and isinstance(st.value, ast.Call) \
                    and helper_of(st.value) is not None and isinstance(nxt, ast.If) and not nxt.orelse and nxt.body \
                    and isinstance(nxt.body[-1], (ast.Return, ast.Raise, ast.Continue, ast.Break)):
                v = st.targets[0].id
                t = nxt.test
                is_not_none = isinstance(t, ast.Compare) and len(t.ops) == 1 and isinstance(t.ops[0], ast.IsNot) and norm(t.left) == v \
                    and isinstance(t.comparators[0], ast.Constant) and t.comparators[0].value is None
                h = helper_of(st.value)
                assert h is not None
                params = [a.arg for a in h.args.args]
                if params and params[0] in ('self', 'cls') and dotted(st.value.func).startswith('self.'):
                    params = params[1:]
                steps = steps_of(h) if is_not_none and len(params) == len(st.value.args) else None
                uses_elsewhere = sum(1 for x in ast.walk(new) if isinstance(x, ast.Name) and x.id == v and isinstance(x.ctx, ast.Load)) \
                    - sum(1 for b in [nxt] for x in ast.walk(b) if isinstance(x, ast.Name) and x.id == v and isinstance(x.ctx, ast.Load))
                pure_args = not any(isinstance(x, (ast.Call, ast.Await, ast.Yield)) for a in st.value.args for x in ast.walk(a))
                if steps is not None and uses_elsewhere == 0 and pure_args:
                    b = dict(zip(params, st.value.args))

                    class Bind(ast.NodeTransformer):
                        def __init__(self, m: Dict[str, ast.expr]):
                            self.m = m

                        def visit_Name(self, node: ast.Name) -> ast.AST:
                            return clone(self.m[node.id]) if isinstance(node.ctx, ast.Load) and node.id in self.m else node
                    for test, val in steps:
                        t2 = Bind(b).visit(clone(test))
                        v2 = Bind(b).visit(clone(val))
                        body2 = [Bind({v: v2}).visit(clone(x)) for x in nxt.body]
                        out.append(ast.copy_location(ast.If(test=t2, body=body2, orelse=[]), nxt))
                    i += 2
                    continue
            out.append(st)
            i += 1
        return out
    new.body = fix(new.body)
    return relink(ast.fix_missing_locations(new))


def resolve_names(fn: FuncNode, e: ast.expr, *, allow_calls: bool = False, depth: int = 4, keep: Sequence[str] = ()) -> ast.expr:
    """e with every name that fn binds exactly once (anywhere in fn, also inside a loop body) by a plain assignment replaced by
    that value, repeatedly - a reading aid: `last = start + length - 1` ... `f(start, last)` reads `f(start, start + length - 1)`.
    Values containing calls are substituted only with allow_calls (the text of the call is then duplicated: read, do not count)."""
    stores: Dict[str, int] = {}
    vals: Dict[str, ast.expr] = {}
    for n in walk_no_nested(fn):
        if isinstance(n, ast.Name) and isinstance(n.ctx, ast.Store):
            stores[n.id] = stores.get(n.id, 0) + 1
        if isinstance(n, (ast.Assign, ast.AnnAssign)) and n.value is not None:
            tg = n.targets[0] if isinstance(n, ast.Assign) and len(n.targets) == 1 else (n.target if isinstance(n, ast.AnnAssign) else None)
            if isinstance(tg, ast.Name):
                vals[tg.id] = n.value
    for a in fn.args.args + fn.args.kwonlyargs:
        stores[a.arg] = stores.get(a.arg, 0) + 1
    ok = {k: v for k, v in vals.items() if stores.get(k) == 1 and k not in keep and (allow_calls or not any(
        isinstance(x, (ast.Await, ast.Yield)) or (isinstance(x, ast.Call) and dotted(x.func) not in PURE_BUILTINS) for x in ast.walk(v)))}

    class S(ast.NodeTransformer):
        def visit_Name(self, node: ast.Name) -> ast.AST:
            return clone(ok[node.id]) if isinstance(node.ctx, ast.Load) and node.id in ok else node
    out = clone(e)
    for _ in range(depth):
        nxt = S().visit(clone(out))
        if ast.dump(nxt) == ast.dump(out):
            break
        out = nxt
    return ast.fix_missing_locations(out)


def inline_tail_return_helpers(repo: 'Repo', rel: str, fn: FuncNode) -> FuncNode:
    """a copy of fn in which `x = _h(a, b)` - _h a private module-level helper of the same file whose every `return V` stands in tail
    position of an if / try structure (`try: return A` / `except E: return B`) and whose arguments are call-free - reads as the helper's
    body with the parameters substituted and every `return V` replaced by `x = V`: an extracted "read, or fall back" helper reads like
    the block it was extracted from."""
    def tail_only(stmts: List[ast.stmt]) -> bool:
        if not stmts:
            return True
        for st in stmts[:-1]:
            if any(isinstance(x, ast.Return) for x in ast.walk(st)):
                return False
        last = stmts[-1]
        if isinstance(last, ast.Return):
            return last.value is not None
        if isinstance(last, ast.If):
            return tail_only(last.body) and tail_only(last.orelse)
        if isinstance(last, ast.Try):
            return not last.finalbody and tail_only(last.body) and tail_only(last.orelse) and all(tail_only(h.body) for h in last.handlers)
        return not any(isinstance(x, ast.Return) for x in ast.walk(last))

    def helper_of(call: ast.Call) -> Optional[FuncNode]:
        d = dotted(call.func)
        if not d or '.' in d or not d.startswith('_') or d.startswith('__') or not repo.has_func(rel, d):
            return None
        h = repo.func(rel, d)
        hb = [x for x in h.body if not (isinstance(x, ast.Expr) and isinstance(x.value, ast.Constant))]
        if not hb or not isinstance(hb[-1], (ast.If, ast.Try)) or not tail_only(hb) or h.args.vararg or h.args.kwarg:
            return None
        if any(isinstance(x, (ast.Yield, ast.YieldFrom, ast.Await, ast.Global, ast.Nonlocal)) for x in ast.walk(h)):
            return None
        return h

    def bind(h: FuncNode, call: ast.Call) -> Optional[Dict[str, ast.expr]]:
        params = [a.arg for a in h.args.args]
        if len(call.args) > len(params):
            return None
        b: Dict[str, ast.expr] = dict(zip(params, call.args))
        for k in call.keywords:
            if k.arg is None or k.arg not in params or k.arg in b:
                return None
            b[k.arg] = k.value
        if set(b) != set(params) or any(isinstance(x, (ast.Call, ast.NamedExpr, ast.Await)) for v in b.values() for x in ast.walk(v)):
            return None
        if any(isinstance(x, ast.Name) and isinstance(x.ctx, ast.Store) for x in ast.walk(h)):
            return None                 # a helper with locals of its own would need renaming: left as a call
        return b

    class Sub(ast.NodeTransformer):
        def __init__(self, b: Dict[str, ast.expr], target: ast.expr):
            self.b, self.target = b, target

        def visit_Name(self, node: ast.Name) -> ast.AST:
            return clone(self.b[node.id]) if isinstance(node.ctx, ast.Load) and node.id in self.b else node

        def visit_Return(self, node: ast.Return) -> ast.AST:
            self.generic_visit(node)
            return ast.copy_location(ast.Assign(targets=[clone(self.target)], value=node.value, lineno=node.lineno), node)

    def expand(stmts: List[ast.stmt]) -> List[ast.stmt]:
        out: List[ast.stmt] = []
        for st in stmts:
            for fld in ('body', 'orelse', 'finalbody'):
                sub = getattr(st, fld, None)
                if isinstance(sub, list) and sub and isinstance(sub[0], ast.stmt):
                    setattr(st, fld, expand(sub))
            if isinstance(st, ast.Try):
                for hd in st.handlers:
                    hd.body = expand(hd.body)
            if isinstance(st, ast.Assign) and len(st.targets) == 1 and isinstance(st.targets[0], ast.Name) and isinstance(st.value, ast.Call):
                h = helper_of(st.value)
                b = bind(h, st.value) if h is not None else None
                if h is not None and b is not None:
                    for x in h.body:
                        if isinstance(x, ast.Expr) and isinstance(x.value, ast.Constant):
                            continue
                        y = Sub(b, st.targets[0]).visit(clone(x))
                        for z in ast.walk(y):
                            if hasattr(z, 'lineno'):
                                z.lineno = z.end_lineno = st.lineno          # reports point at the call site
                        out.append(y)
                    continue
            out.append(st)
        return out
    new = clone(fn)
    new.body = expand(new.body)
    return relink(ast.fix_missing_locations(new))
