"""fjfront: an independent lexer + parser for .fj sources (used for the standard-library rules).

It deliberately does not reuse the repository's sly parser: the stl rules must not change meaning when
the parser under verification changes. It parses macro definitions (params / @ locals / < globals /
> externs), namespaces, rep, wflip, pad, segment, reserve, labels and expressions with the reference
precedence of C12. Comments are kept (the doc block above a macro is its specification).
Nothing here executes FlipJump code; expressions are only evaluated as assembly-time constants.
"""
from __future__ import annotations

import json
import operator
import re
from dataclasses import dataclass, field
from pathlib import Path
from typing import Any, Dict, List, Optional, Set, Tuple

from .core import AnalysisError
from .pyfacts import Repo

TOK = re.compile(r'''
  (?P<cont>\\[ \t]*\n) | (?P<comment>//[^\n]*) | (?P<ws>[ \t]+) | (?P<nl>[\r\n]) |
  (?P<dotid>(?:[a-zA-Z_][a-zA-Z_0-9]*|\.*)?(?:\.[a-zA-Z_][a-zA-Z_0-9]*)+) |
  (?P<id>[a-zA-Z_][a-zA-Z_0-9]*) |
  (?P<num>0[bB][01]+|0[xX][0-9a-fA-F]+|'(?:[\x20-\x5B\x5D-\x7E]|\\[0abefnrtv\\'"?]|\\[xX][0-9a-fA-F]{2})'|[0-9]+) |
  (?P<str>"(?:[\x20-\x5B\x5D-\x7E]|\\[0abefnrtv\\'"?]|\\[xX][0-9a-fA-F]{2})*") |
  (?P<op><=|>=|==|!=|<<|>>|\*\*|&&|\|\||[=+\-*/%()$^|&~?:<>#{}@,;])
''', re.X)
ESC = {'0': 0, 'a': 7, 'b': 8, 'e': 0x1b, 'f': 0xc, 'n': 0xa, 'r': 0xd, 't': 9, 'v': 0xb, '\\': 0x5c, "'": 0x27, '"': 0x22, '?': 0x3f}
KW = {'def', 'rep', 'ns', 'wflip', 'pad', 'segment', 'reserve'}
BIN = {'?': (1, 'R'), '||': (2, 'L'), '&&': (3, 'L'), '|': (4, 'L'), '^': (5, 'L'), '<': (6, 'N'), '>': (6, 'N'), '<=': (6, 'N'), '>=': (6, 'N'),
       '==': (7, 'L'), '!=': (7, 'L'), '&': (8, 'L'), '<<': (9, 'L'), '>>': (9, 'L'), '+': (10, 'L'), '-': (10, 'L'), '*': (11, 'L'), '/': (11, 'L'),
       '%': (11, 'L'), '**': (13, 'R')}
UNARY = 12

Expr = Any      # int | ('id', name) | (op, a, b) | ('neg', a) | ('~', a) | ('#', a) | ('?:', c, a, b)


def _charval(s: str) -> Tuple[int, int]:
    if s[0] != '\\':
        return ord(s[0]), 1
    if s[1] in ESC:
        return ESC[s[1]], 2
    return int(s[2:4], 16), 4


def lex(text: str, fname: str = '') -> Tuple[List[Tuple[str, Any, int]], Dict[int, str]]:
    toks: List[Tuple[str, Any, int]] = []
    comments: Dict[int, str] = {}
    line, pos = 1, 0
    while pos < len(text):
        m = TOK.match(text, pos)
        if not m:
            raise AnalysisError(f'{fname}:{line}: cannot tokenise {text[pos:pos + 20]!r}')
        k = m.lastgroup
        v = m.group(k)          # type: ignore[arg-type]
        pos = m.end()
        if k == 'cont':
            line += 1
        elif k == 'comment':
            comments[line] = v
        elif k == 'ws':
            pass
        elif k == 'nl':
            toks.append(('NL', '\n', line))
            line += 1
        elif k == 'id' and v in KW:
            toks.append((v.upper(), v, line))
        elif k == 'num':
            if v[0] == "'":
                val = _charval(v[1:-1])[0]
            elif v[:2].lower() == '0x':
                val = int(v, 16)
            elif v[:2].lower() == '0b':
                val = int(v, 2)
            else:
                val = int(v)
            toks.append(('NUM', val, line))
        elif k == 'str':
            s, i, val, n = v[1:-1], 0, 0, 0
            while i < len(s):
                c, ln = _charval(s[i:])
                val |= c << (8 * n)
                n += 1
                i += ln
            toks.append(('NUM', val, line))
        else:
            toks.append(({'id': 'ID', 'dotid': 'DOTID', 'op': v}[k], v, line))      # type: ignore[index]
    toks.append(('NL', '\n', line))
    toks.append(('EOF', '', line))
    return toks, comments


@dataclass
class Macro:
    name: str
    params: List[str]
    local: List[str]
    glob: List[str]
    ext: List[str]
    body: List[Tuple[Any, ...]]
    ns: str
    file: str
    line: int
    doc: List[str] = field(default_factory=list)

    @property
    def key(self) -> Tuple[str, int]:
        return self.name, len(self.params)


class Parser:
    def __init__(self, toks: List[Tuple[str, Any, int]], comments: Dict[int, str], fname: str):
        self.t, self.i, self.ns = toks, 0, []          # type: ignore[var-annotated]
        self.macros: Dict[Tuple[str, int], Macro] = {}
        self.top: List[Tuple[Any, ...]] = []
        self.comments, self.f = comments, fname
        self.consts: Dict[str, Expr] = {}

    def peek(self, k: int = 0) -> Tuple[str, Any, int]:
        return self.t[self.i + k]

    def eat(self, kind: Optional[str] = None) -> Tuple[str, Any, int]:
        tok = self.t[self.i]
        if kind and tok[0] != kind:
            raise AnalysisError(f'{self.f}:{tok[2]}: expected {kind}, got {tok[:2]}')
        self.i += 1
        return tok

    def resolve(self, name: str) -> str:
        nd = len(name) - len(name.lstrip('.'))
        if nd == 0:
            return name
        base = self.ns[:len(self.ns) - (nd - 1)]
        return '.'.join(base + [name.lstrip('.')])

    def expr(self, minp: int = 0) -> Expr:
        lhs = self.atom()
        while True:
            k = self.peek()[0]
            if k not in BIN:
                return lhs
            lv, assoc = BIN[k]
            if lv < minp:
                return lhs
            self.eat()
            if k == '?':
                mid = self.expr(0)
                self.eat(':')
                rhs = self.expr(lv)
                lhs = ('?:', lhs, mid, rhs)
                continue
            rhs = self.expr(lv + 1 if assoc in 'LN' else lv)
            lhs = (k, lhs, rhs)

    def atom(self) -> Expr:
        k, v, l = self.peek()
        if k == 'NUM':
            self.eat()
            return v
        if k in ('ID', 'DOTID'):
            self.eat()
            name = self.resolve(v) if k == 'DOTID' else v
            # constants are substituted where they are used, as the assembler's parser does (the width constants w / dw / dbit
            # stay symbolic: the rules evaluate them per width)
            if name in self.consts and name not in ('w', 'dw', 'dbit'):
                return self.consts[name]
            return ('id', name)
        if k == '$':
            self.eat()
            return ('id', '$')
        if k == '(':
            self.eat()
            e = self.expr(0)
            self.eat(')')
            return e
        if k == '-':
            self.eat()
            return ('neg', self.expr(UNARY))
        if k == '~':
            self.eat()
            return ('~', self.expr(UNARY))
        if k == '#':
            self.eat()
            return ('#', self.expr(UNARY))
        raise AnalysisError(f'{self.f}:{l}: unexpected token {k} {v!r} in expression')

    def exprs(self) -> List[Expr]:
        r = [self.expr()]
        while self.peek()[0] == ',':
            self.eat()
            r.append(self.expr())
        return r

    def starts_expr(self) -> bool:
        return self.peek()[0] in ('NUM', 'ID', 'DOTID', '$', '(', '-', '~', '#')

    def statement(self) -> List[Tuple[Any, ...]]:
        k, v, l = self.peek()
        if k == 'ID' and self.peek(1)[0] == ':':
            self.eat()
            self.eat()
            return [('label', '.'.join(self.ns + [v]), l)] + self.statement()
        if k in ('NL', '}', 'EOF'):
            return []
        if k == 'ID' and self.peek(1)[0] == '=':
            self.eat()
            self.eat()
            self.consts['.'.join(self.ns + [v])] = self.expr()
            return []
        if k == 'WFLIP':
            self.eat()
            return [('wflip', self.exprs(), l)]
        if k in ('PAD', 'SEGMENT', 'RESERVE'):
            self.eat()
            return [(v, self.expr(), l)]
        if k == 'REP':
            self.eat()
            self.eat('(')
            n = self.expr()
            self.eat(',')
            it = self.eat('ID')[1]
            self.eat(')')
            name = self.resolve(self.eat()[1])
            args = self.exprs() if self.starts_expr() else []
            return [('rep', n, it, name, args, l)]
        if k == ';':
            self.eat()
            j = self.expr() if self.starts_expr() else None
            return [('fj', 0, j, l)]
        if k in ('ID', 'DOTID'):
            nk = self.peek(1)[0]
            if nk in ('NL', '}', 'EOF'):
                self.eat()
                return [('call', self.resolve(v), [], l)]
            if nk in BIN or nk == ';':
                pass
            else:
                self.eat()
                return [('call', self.resolve(v), self.exprs(), l)]
        f = self.expr()
        self.eat(';')
        j = self.expr() if self.starts_expr() else None
        return [('fj', f, j, l)]

    def ids(self) -> List[str]:
        r = []
        while self.peek()[0] in ('ID', 'DOTID'):
            t = self.eat()
            r.append(self.resolve(t[1]) if t[0] == 'DOTID' else t[1])
            if self.peek()[0] == ',':
                self.eat()
            else:
                break
        return r

    def block(self) -> List[Tuple[Any, ...]]:
        ops: List[Tuple[Any, ...]] = []
        while True:
            k, v, l = self.peek()
            if k in ('EOF', '}'):
                return ops
            if k == 'NL':
                self.eat()
                continue
            if k == 'NS':
                self.eat()
                name = self.eat('ID')[1]
                self.eat('{')
                self.ns.append(name)
                ops += self.block()
                self.eat('}')
                self.ns.pop()
                continue
            if k == 'DEF':
                self.eat()
                name = self.eat('ID')[1]
                params = self.ids()
                local: List[str] = []
                glob: List[str] = []
                ext: List[str] = []
                if self.peek()[0] == '@':
                    self.eat()
                    local = self.ids()
                if self.peek()[0] == '<':
                    self.eat()
                    glob = self.ids()
                if self.peek()[0] == '>':
                    self.eat()
                    ext = self.ids()
                self.eat('{')
                body: List[Tuple[Any, ...]] = []
                while self.peek()[0] != '}':
                    if self.peek()[0] == 'NL':
                        self.eat()
                        continue
                    body += self.statement()
                self.eat('}')
                full = '.'.join(self.ns + [name])
                m = Macro(full, params, local, glob, ext, body, '.'.join(self.ns), self.f, l)
                self.macros[m.key] = m
                continue
            ops += self.statement()


class Stl:
    """the parsed standard library (all files of conf.json, in order)."""

    def __init__(self, repo: Repo):
        self.repo = repo
        conf = json.loads(repo.src('flipjump/stl/conf.json'))
        self.files = [f'flipjump/stl/{x}.fj' for x in conf['all']]
        self.macros: Dict[Tuple[str, int], Macro] = {}
        self.top: List[Tuple[Any, ...]] = []
        self.consts: Dict[str, Expr] = {}
        self.lines: Dict[str, List[str]] = {}
        for rel in self.files:
            text = repo.src(rel)
            toks, comments = lex(text, rel)
            p = Parser(toks, comments, rel)
            p.consts = self.consts           # one table for all files, in conf.json order (as in the assembler)
            p.top = p.block()
            if p.peek()[0] != 'EOF':
                raise AnalysisError(f'{rel}:{p.peek()[2]}: trailing input {p.peek()[:2]}')
            lines = text.split('\n')
            self.lines[rel] = lines
            for key, m in p.macros.items():
                i = m.line - 2
                blk = []
                while i >= 0 and lines[i].strip().startswith('//'):
                    blk.append(lines[i].strip())
                    i -= 1
                m.doc = blk[::-1]
                if key in self.macros:
                    raise AnalysisError(f'{rel}:{m.line}: macro {key} defined twice')
                self.macros[key] = m
            self.top += p.top
        # cross-check the inventory with a textual scan of `def` lines
        n_defs = sum(1 for rel in self.files for ln in self.lines[rel] if re.match(r'\s*def\s+[A-Za-z_]', ln))
        if n_defs != len(self.macros):
            raise AnalysisError(f'fjfront parsed {len(self.macros)} macros but the sources contain {n_defs} `def` lines')

    def by_name(self, name: str) -> List[Macro]:
        return [m for (n, _), m in self.macros.items() if n == name]


# ---------------------------------------------------------------- linear evaluation of assembly-time expressions

class NeedConcrete(Exception):
    def __init__(self, name: str):
        self.name = name


class OpaqueValue(Exception):
    """bitwise arithmetic on a symbolic address: a value (e.g. a wflip operand), not an address that is touched."""

    def __init__(self, name: str = ''):
        self.name = name


Lin = Dict[str, int]


def lin_add(a: Lin, b: Lin, s: int) -> Lin:
    r = dict(a)
    for k, v in b.items():
        r[k] = r.get(k, 0) + s * v
    return {k: v for k, v in r.items() if v != 0 or k == ''}


def is_const(a: Lin) -> bool:
    return all(k == '' for k in a)


def first_sym(a: Lin) -> str:
    for k in a:
        if k != '':
            return k
    return ''


def conc(a: Lin) -> int:
    if not is_const(a):
        raise NeedConcrete(first_sym(a))
    return a.get('', 0)


_OPS = {'/': operator.floordiv, '%': operator.mod, '<<': operator.lshift, '>>': operator.rshift, '&': operator.and_, '|': operator.or_,
        '^': operator.xor, '<': lambda p, q: int(p < q), '>': lambda p, q: int(p > q), '<=': lambda p, q: int(p <= q), '>=': lambda p, q: int(p >= q),
        '==': lambda p, q: int(p == q), '!=': lambda p, q: int(p != q), '&&': lambda p, q: int(bool(p and q)), '||': lambda p, q: int(bool(p or q)),
        '**': operator.pow}


def ev(e: Expr, env: Dict[str, Any]) -> Lin:
    """linear form: symbol -> coefficient, '' -> constant. env: name -> int | Lin."""
    if isinstance(e, int):
        return {'': e}
    t = e[0]
    if t == 'id':
        n = e[1]
        if n in env:
            v = env[n]
            return {'': v} if isinstance(v, int) else dict(v)
        base = n.split('.')[-1]
        if base in env and n not in env and '.' in n:
            v = env[base]
            # a namespaced spelling of a parameter (hex.x for parameter x inside ns hex)
            return {'': v} if isinstance(v, int) else dict(v)
        return {n: 1}
    if t == 'neg':
        return {k: -v for k, v in ev(e[1], env).items()}
    if t in ('~', '#'):
        try:
            a = conc(ev(e[1], env))
        except OpaqueValue as ov:
            raise NeedConcrete(ov.name)
        return {'': (~a if t == '~' else a.bit_length())}
    if t == '?:':
        try:
            c = conc(ev(e[1], env))
        except OpaqueValue as ov:
            raise NeedConcrete(ov.name)
        return ev(e[2] if c else e[3], env)
    a, b = ev(e[1], env), ev(e[2], env)
    if t == '+':
        return lin_add(a, b, 1)
    if t == '-':
        return lin_add(a, b, -1)
    if t == '*':
        if is_const(a):
            return {k: v * a.get('', 0) for k, v in b.items()}
        if is_const(b):
            return {k: v * b.get('', 0) for k, v in a.items()}
        raise NeedConcrete(first_sym(a) or first_sym(b))
    if t in ('==', '!=') and not (is_const(a) and is_const(b)):
        # compile-time aliasing tests (`dst == src`): identical forms are equal, forms differing by a constant are
        # different, and DISTINCT symbolic operands are assumed to denote distinct variables (generic position)
        d = lin_add(a, b, -1)
        same = all(v == 0 for v in d.values())
        return {'': int(same) if t == '==' else int(not same)}
    if t in ('^', '&', '|') and not (is_const(a) and is_const(b)):
        raise OpaqueValue(first_sym(a) or first_sym(b))
    x, y = conc(a), conc(b)
    try:
        return {'': _OPS[t](x, y)}
    except (ZeroDivisionError, ValueError) as ex:
        raise AnalysisError(f'constant expression failed: {t} {x} {y}: {ex}') from ex


def base_env(w: int) -> Dict[str, Any]:
    return {'w': w, 'dw': 2 * w, 'dbit': w + w.bit_length()}
