from . import M
DM = 'flipjump/interpreter/io_devices/device_memory.py'
SC = 'flipjump/interpreter/io_devices/ScreenIO.py'
RUN = 'flipjump/interpreter/fjm_run.py'
C = 'flipjump/interpreter/_fjcore.c'
MUTANTS = [
    M('C19', 'reader adapter does not mask written values', DM, "        self._reader.memory[word_address & word_mask] = value & word_mask", "        self._reader.memory[word_address & word_mask] = value", 'C19.ADAPTERS'),
    M('C19', 'native adapter overrides the packed-byte read', DM, "    def write_word(self, word_address: int, value: int) -> None:\n        self._core_memory.set_word(word_address, value & ((1 << self.memory_width) - 1))",
      "    def write_word(self, word_address: int, value: int) -> None:\n        self._core_memory.set_word(word_address, value & ((1 << self.memory_width) - 1))\n\n    def read_data_byte(self, op_bit_address: int) -> int:\n        return self.read_word(op_bit_address >> (self.memory_width.bit_length() - 1)) & 0xFF", 'C19.ADAPTERS'),
    M('C19', 'fast loop runs without an attached memory', RUN, "        io_device.attach_memory(ReaderDeviceMemory(mem))\n        return _run_fast(mem, io_device, statistics)", "        return _run_fast(mem, io_device, statistics)", 'C19.ATTACH'),
    M('C19', 'native adapter attached after the run', RUN, "    io_device.attach_memory(NativeDeviceMemory(core, mem.memory_width))\n\n    last_ops = statistics.last_ops_addresses",
      "    last_ops = statistics.last_ops_addresses", 'C19.ATTACH'),
    M('C19', 'C API get_word ignores segment membership', C, "    if (self->flat && word_address < self->flat_count && flat_seg_contains(self, word_address)) {\n        return PyLong_FromUnsignedLongLong(self->flat[word_address]);",
      "    if (self->flat && word_address < self->flat_count) {\n        return PyLong_FromUnsignedLongLong(self->flat[word_address]);", 'C07.ROUTE'),
    M('C19', 'screen: rectangle command length misses a field', SC, "            return 1 + 2 + 2 + 2 + 2 + self._address_bytes()", "            return 1 + 2 + 2 + 2 + self._address_bytes()", 'C19.SCREEN-TABLES'),
    M('C19', 'screen: init decoder reads palette size at the wrong offset', SC, "self._init_screen(self._u16(payload, 0), self._u16(payload, 2), payload[4], self._u16(payload, 5))",
      "self._init_screen(self._u16(payload, 0), self._u16(payload, 2), payload[4], self._u16(payload, 4))", 'C19.SCREEN-TABLES'),
    M('C19', 'screen: big-endian u16', SC, "        return payload[offset] | (payload[offset + 1] << 8)", "        return (payload[offset] << 8) | payload[offset + 1]", 'C19.SCREEN-TABLES'),
    M('C19', 'screen: rectangle overflow check dropped for y', SC, "        if x + rect_width > self.width or y + rect_height > self.height:", "        if x + rect_width > self.width:", 'C19.SCREEN-REJECT'),
    M('C19', 'screen: raises a builtin', SC, "            raise IODeviceException(f'screen bpp must be 4 or 8, got {bpp}')", "            raise ValueError(f'screen bpp must be 4 or 8, got {bpp}')", 'C19.SCREEN-REJECT'),
    M('C19', 'device data-bit offset off by one', DM, "        return self.memory_width.bit_length()\n", "        return self.memory_width.bit_length() - 1\n", 'C19.DBIT'),
    M('C19', 'EQ reader adapter names its mask', 'flipjump/interpreter/io_devices/device_memory.py', "        return self._reader.memory.get(word_address & ((1 << self.memory_width) - 1), 0)", "        word_mask = (1 << self.memory_width) - 1\n        return self._reader.memory.get(word_address & word_mask, 0)", None),
    M('C19', 'update_rectangle stores the raw byte (seed C19_3)', SC, "= line[col] & pixel_mask\n", "= line[col]\n", 'C19.PIXEL-MASK'),
    M('C19', 'update_screen_raw keeps the stream bytes unmasked', SC, "        self.pixel_indices = [pixel & pixel_mask for pixel in pixels]\n", "        self.pixel_indices = list(pixels)\n", 'C19.PIXEL-MASK'),
    M('C19', 'update_screen masks with the palette size instead of bpp', SC, "        pixel_mask = (1 << self.bpp) - 1\n        raw = ", "        pixel_mask = self.palette_size - 1\n        raw = ", 'C19.PIXEL-MASK'),
    M('C19', 'EQ update_screen masks through a private helper', SC, "        pixel_mask = (1 << self.bpp) - 1\n        raw = self._read_packed_bytes(screen_bit_address, self.width * self.height)\n        self.pixel_indices = [pixel & pixel_mask for pixel in raw]\n", "        self.pixel_indices = self._read_pixels(screen_bit_address, self.width * self.height)\n", None,
      also=[(SC, "    def _set_palette(self, palette_bit_address: int) -> None:\n", "    def _read_pixels(self, first_op_bit_address: int, count: int) -> List[int]:\n        pixel_mask = (1 << self.bpp) - 1\n        return [pixel & pixel_mask for pixel in self._read_packed_bytes(first_op_bit_address, count)]\n\n    def _set_palette(self, palette_bit_address: int) -> None:\n")]),
    M('C19', 'EQ update_screen_raw reduces modulo 2**bpp', SC, "        self.pixel_indices = [pixel & pixel_mask for pixel in pixels]\n", "        self.pixel_indices = [pixel % (1 << self.bpp) for pixel in pixels]\n", None),
    M('C19', 'packed bytes refused at w = 16 (mutation survey)', 'flipjump/interpreter/io_devices/device_memory.py', "        if self.memory_width < 16:", "        if self.memory_width <= 16:", 'C19.SCREEN-INIT'),
    M('C19', 'pixel buffer sized width + height (mutation survey)', 'flipjump/interpreter/io_devices/ScreenIO.py', "        self.pixel_indices = [0] * (width * height)", "        self.pixel_indices = [0] * (width + height)", 'C19.SCREEN-INIT'),
    M('C19', 'a fresh screen counts as initialised', 'flipjump/interpreter/io_devices/ScreenIO.py', "        self.width = 0\n        self.height = 0\n        self.bpp = 8", "        self.width = 1\n        self.height = 1\n        self.bpp = 8", 'C19.SCREEN-INIT'),
    M('C19', 'EQ pixel buffer sized height * width', 'flipjump/interpreter/io_devices/ScreenIO.py', "        self.pixel_indices = [0] * (width * height)", "        self.pixel_indices = (height * width) * [0]", None),
]
