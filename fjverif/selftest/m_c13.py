from . import M
PARSER = 'flipjump/assembler/fj_parser.py'
PRE = 'flipjump/assembler/preprocessor.py'
OPS = 'flipjump/assembler/inner_classes/ops.py'
MUTANTS = [
    M('C13', 'error flag not reset per assembly', PARSER, "    global error_occurred, all_errors\n    error_occurred = False\n    all_errors = ''\n\n    if not input_files:",
      "    global error_occurred, all_errors\n    all_errors = ''\n\n    if not input_files:", 'C13.GLOBALS'),
    M('C13', 'namespace stack survives a failed parse', PARSER, "    curr_namespace = []\n\n    lex_res", "    lex_res", 'C13.GLOBALS'),
    M('C13', 'cache key ignores the warning mode', PARSER, "    return memory_width, warning_as_errors, tuple(files_key)", "    return memory_width, tuple(files_key)", 'C13.CACHE-KEY'),
    M('C13', 'cache key ignores file modification', PARSER, "files_key.append((short_name, str(file_path.resolve()), file_stat.st_mtime_ns, file_stat.st_size))",
      "files_key.append((short_name, str(file_path.resolve())))", 'C13.CACHE-KEY'),
    M('C13', 'restore shares the cached dictionaries', PARSER, "    parser.consts = dict(cached_consts)\n    parser.macros = dict(cached_macros)", "    parser.consts = cached_consts\n    parser.macros = dict(cached_macros)", 'C13.CACHE-ALIAS'),
    M('C13', 'restore reuses the cached main macro op list', PARSER, "        list(cached_main_ops),\n", "        cached_main_macro.ops,\n", 'C13.CACHE-ALIAS'),
    M('C13', 'snapshot taken after user files', PARSER, "        if cache_key is not None and file_index == prefix_length - 1:", "        if cache_key is not None and file_index == len(input_files) - 1:", 'C13.CACHE-ALIAS'),
    M('C13', 'rep op mutated before it is cloned', PRE,
      "            op = op.rename_iterator(hygienic_iterator)\n            op = op.eval_new(params_dict)\n            rep_times = get_rep_times(op, preprocessor_data)",
      "            rep_times = get_rep_times(op, preprocessor_data)\n            op = op.rename_iterator(hygienic_iterator)\n            op = op.eval_new(params_dict)", 'C13.IMMUT'),
    M('C13', 'RepCall.eval_new shares when nothing changes', OPS,
      "        evaluated.source_iterator_name = self.source_iterator_name  # keep the source name for traces\n        return evaluated",
      "        evaluated.source_iterator_name = self.source_iterator_name  # keep the source name for traces\n        if all(a is b for a, b in zip(evaluated.arguments, self.arguments)):\n            return self\n        return evaluated", 'C13.IMMUT'),
    M('C13', 'FlipJump.eval_new caches on self', OPS, "        if flip is self.flip and jump is self.jump:\n            return self  # FlipJump ops are immutable - share them (data ops dominate LUT programs)\n        return FlipJump(flip, jump, self.code_position)",
      "        if flip is self.flip and jump is self.jump:\n            return self  # FlipJump ops are immutable - share them (data ops dominate LUT programs)\n        self.flip, self.jump = flip, jump\n        return self", 'C13.IMMUT'),
    M('C13', 'recursion limit only ever raised', PRE, "        sys.setrecursionlimit(max_recursion_depth + GAP_BETWEEN_PYTHONS_AND_PREPROCESSOR_MACRO_RECURSION_DEPTH)",
      "        sys.setrecursionlimit(max(sys.getrecursionlimit(), max_recursion_depth + GAP_BETWEEN_PYTHONS_AND_PREPROCESSOR_MACRO_RECURSION_DEPTH))", 'C13.RECLIMIT'),
    M('C13', 'label ids from object identity', PRE, "        self.labels[f'{wflip_start_label}{self.curr_segment_index}'] = self.curr_address", "        self.labels[f'{wflip_start_label}{id(self)}'] = self.curr_address", 'C13.NONDET'),
    M('C13', 'EQ snapshot copies the constants with .copy()', 'flipjump/assembler/fj_parser.py', "        dict(parser.consts),\n        dict(parser.macros),", "        parser.consts.copy(),\n        dict(parser.macros),", None),
    M('C13', 'a shared module-level dict is returned as the parameter dictionary (seed C13_4)', PRE, "    params_dict: Dict[str, Expr] = dict(zip(current_macro.params, args))\n", "    if not current_macro.params and not current_macro.local_params:\n        return NO_PARAMS\n    params_dict: Dict[str, Expr] = dict(zip(current_macro.params, args))\n", 'C13.GLOBALS', also=[(PRE, "wflip_start_label = ':wflip_area_start:'", "NO_PARAMS: Dict[str, Expr] = {}\nwflip_start_label = ':wflip_area_start:'")]),
    M('C13', 'EQ a module-level constant tuple of reserved prefixes is only iterated', PRE, "wflip_start_label = ':wflip_area_start:'", "_RESERVED_PREFIXES = [':wflip_area_start:']\nwflip_start_label = _RESERVED_PREFIXES[0]", None),
]
