from . import M
MUTANTS = [
    M('C09', 'output_char emits msb first', 'flipjump/stl/runlib.fj', "        rep(8, i) .output_bit (ascii>>i)&1", "        rep(8, i) .output_bit (ascii>>(7-i))&1", 'C09.BITORDER'),
    M('C09', 'constant strings emitted from the last byte', 'flipjump/stl/runlib.fj', "        rep(((#str)+7)>>3, i) .output_char (str>>(8*i))&0xff", "        rep(((#str)+7)>>3, i) .output_char (str>>(8*((((#str)+7)>>3)-1-i)))&0xff", 'C09.BITORDER'),
    M('C09', 'bit.print walks the byte downwards', 'flipjump/stl/bit/output.fj', "        rep(8, i) .output x+i*dw", "        rep(8, i) .output x+(7-i)*dw", 'C09.BITORDER'),
    M('C09', 'bit.input fills 7 bits', 'flipjump/stl/bit/input.fj', "        rep(8, i) .input_bit dst+i*dw", "        rep(7, i) .input_bit dst+i*dw", 'C09.EXTENT'),
    M('C09', 'hex.print high hex first', 'flipjump/stl/hex/output.fj', "        .output x\n        .output x+dw", "        .output x+dw\n        .output x", 'C09.BITORDER'),
    M('C09', 'hex.input n strides by one hex', 'flipjump/stl/hex/input.fj', "        rep(n, i) .input bytes+2*i*dw", "        rep(n, i) .input bytes+i*dw", 'C09.BITORDER'),
    M('C09', 'print_dec_uint clears one flag less than it sets (seed C09_1)', 'flipjump/stl/bit/output.fj', "        .zero n*28/93+1, print_buffer_flag", "        .zero n*28/93, print_buffer_flag", 'C09.SCRATCH'),
    M('C09', 'print_hex_int keeps its sign flag between executions', 'flipjump/stl/bit/output.fj', "        .zero neg\n", "", 'C09.SCRATCH', count=2),
    M('C09', 'EQ hex input_dec clears one hex less of its digit register (the top hex is only ever read)', 'flipjump/stl/hex/input.fj', "        .zero n, digit\n", "        .zero n-1, digit\n", None, count=2),
    M('C09', 'bit2hex n clears only the full hexes (seed C09_2)', 'flipjump/stl/casting.fj', "        hex.zero (n+3)/4, hex", "        hex.zero n/4, hex", 'C09.SCRATCH'),
    M('C09', 'hex2bit no longer clears the destination bits', 'flipjump/stl/casting.fj', "        bit.zero 4, bit\n", "", 'C09.SCRATCH'),
    M('C09', 'hex.output falls off its end with the jump word in the switch', 'flipjump/stl/hex/output.fj', "        stl.IO+1;print_c+1*dw\n\n      end:\n        wflip hex+w, switch\n", "        stl.IO+1;print_c+1*dw\n\n      end:\n", 'C09.JW-RESTORE'),
    M('C09', 'input_as_hex: the out-of-range entries leave to error directly (seed C09_3)', 'flipjump/stl/hex/input.fj', "        ;hex_switch                     //  7\n", "        ;error                          //  7\n", 'C09.JW-RESTORE'),
    M('C09', 'ascii2hex compares against a 4-bit nine spelled as 25', 'flipjump/stl/bit/casting.fj', "        .vec 5, 0x60>>3", "        .vec 4, 0x60>>1", 'C09.CONST-FITS'),
]
