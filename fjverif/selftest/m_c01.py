from . import M
RUN = 'flipjump/interpreter/fjm_run.py'
C = 'flipjump/interpreter/_fjcore.c'
RD = 'flipjump/fjm/fjm_reader.py'
MUTANTS = [
    # ---- arming
    M('C01', 'featured: the bit to flip is read before the IO of the op, written after it', RUN,
      """        _handle_output(flip_address, io_device, w)
""", """        flipped_bit = not mem.read_bit(flip_address)
        _handle_output(flip_address, io_device, w)
""", 'C01.ORDER', also=[(RUN, "        mem.write_bit(flip_address, not mem.read_bit(flip_address))", "        mem.write_bit(flip_address, flipped_bit)")]),
    M('C01', 'EQ featured: the flipped bit named in a local right before the store', RUN,
      "        mem.write_bit(flip_address, not mem.read_bit(flip_address))",
      "        flipped_bit = not mem.read_bit(flip_address)\n        mem.write_bit(flip_address, flipped_bit)", None),
    M('C01', 'EQ fast: flip as an in-place xor with the missing-word fallback in the handler', RUN,
      """            try:
                flip_word_value = memory[flip_word_address]
            except KeyError:
                flip_word_value = read_missing_word(flip_word_address)
            memory[flip_word_address] = flip_word_value ^ (1 << (flip_address & bit_mask))
""", """            flip_bit = 1 << (flip_address & bit_mask)
            try:
                memory[flip_word_address] ^= flip_bit
            except KeyError:
                memory[flip_word_address] = read_missing_word(flip_word_address) ^ flip_bit
""", None),
    M('C01', 'fast: in-place xor whose handler re-reads another word', RUN,
      """            try:
                flip_word_value = memory[flip_word_address]
            except KeyError:
                flip_word_value = read_missing_word(flip_word_address)
            memory[flip_word_address] = flip_word_value ^ (1 << (flip_address & bit_mask))
""", """            flip_bit = 1 << (flip_address & bit_mask)
            try:
                memory[flip_word_address] ^= flip_bit
            except KeyError:
                memory[flip_word_address] = read_missing_word(flip_address) ^ flip_bit
""", 'C01.FASTMEM'),
    M('C01', 'fast: flip-target word fetched before the IO of the op (seed C01_8)', RUN,
      """                    flip_address = read_missing_word(word_address)

            # handle IO""",
      """                    flip_address = read_missing_word(word_address)
            flip_word_address = flip_address >> ww
            try:
                flip_word_value = memory[flip_word_address]
            except KeyError:
                flip_word_value = read_missing_word(flip_word_address)

            # handle IO""", 'C01.ORDER',
      also=[(RUN, """            # FLIP!
            flip_word_address = flip_address >> ww
            try:
                flip_word_value = memory[flip_word_address]
            except KeyError:
                flip_word_value = read_missing_word(flip_word_address)
            memory[flip_word_address]""", """            # FLIP!
            memory[flip_word_address]""")]),
    M('C01', 'EQ fast: flip-target word INDEX computed before the IO, the word still read after it', RUN,
      """                    flip_address = read_missing_word(word_address)

            # handle IO""",
      """                    flip_address = read_missing_word(word_address)
            flip_word_address = flip_address >> ww

            # handle IO""", None,
      also=[(RUN, """            # FLIP!
            flip_word_address = flip_address >> ww
            try:""", """            # FLIP!
            try:""")]),
    M('C01', 'EQ reader decodes words with int.from_bytes after a whole-word length check', RD,
      """        data = [
            unpack(read_tag, file_data[i : i + word_bytes_size])[0]  # noqa: E203
            for i in range(0, len(file_data), word_bytes_size)
        ]
""",
      """        if len(file_data) % word_bytes_size:
            raise FlipJumpReadFjmException('Error: the data ends inside a word.')
        data = [
            int.from_bytes(file_data[i : i + word_bytes_size], 'little')  # noqa: E203
            for i in range(0, len(file_data), word_bytes_size)
        ]
""", None),
    M('C01', 'reader decodes words big-endian with int.from_bytes', RD,
      """            unpack(read_tag, file_data[i : i + word_bytes_size])[0]  # noqa: E203""",
      """            int.from_bytes(file_data[i : i + word_bytes_size], 'big')  # noqa: E203""", 'C01.WIDTHS'),
    M('C01', 'reader decodes words as signed with int.from_bytes', RD,
      """            unpack(read_tag, file_data[i : i + word_bytes_size])[0]  # noqa: E203""",
      """            int.from_bytes(file_data[i : i + word_bytes_size], 'little', signed=True)  # noqa: E203""", 'C01.WIDTHS'),
    M('C01', 'fast: jump word read before the flip', RUN,
      """            # FLIP!
            flip_word_address = flip_address >> ww
            try:
                flip_word_value = memory[flip_word_address]
            except KeyError:
                flip_word_value = read_missing_word(flip_word_address)
            memory[flip_word_address] = flip_word_value ^ (1 << (flip_address & bit_mask))

            # read jump word (after the flip - the flip may modify it)
            if bit_offset:
                jump_address = get_word(ip + w)
            else:
                jump_word_address = (ip >> ww) + 1
                try:
                    jump_address = memory[jump_word_address]
                except KeyError:
                    jump_address = read_missing_word(jump_word_address)
""",
      """            # read jump word
            if bit_offset:
                jump_address = get_word(ip + w)
            else:
                jump_word_address = (ip >> ww) + 1
                try:
                    jump_address = memory[jump_word_address]
                except KeyError:
                    jump_address = read_missing_word(jump_word_address)

            # FLIP!
            flip_word_address = flip_address >> ww
            try:
                flip_word_value = memory[flip_word_address]
            except KeyError:
                flip_word_value = read_missing_word(flip_word_address)
            memory[flip_word_address] = flip_word_value ^ (1 << (flip_address & bit_mask))
""", 'C01.ORDER'),
    M('C01', 'featured: op counted before the jump fetch', RUN,
      """        jump_address = mem.get_word(ip + w)
        _trace_jump(jump_address, show_trace)
        statistics.register_op(ip, flip_address, jump_address)
""",
      """        statistics.register_op(ip, flip_address, 0)
        jump_address = mem.get_word(ip + w)
        _trace_jump(jump_address, show_trace)
""", 'C01.ORDER'),
    M('C01', 'featured: input before output', RUN,
      """        _handle_output(flip_address, io_device, w)
        try:
            _handle_input(io_device, ip, mem, statistics)
        except IOReadOnEOF:
            return TerminationStatistics(statistics, TerminationCause.EOF)
""",
      """        try:
            _handle_input(io_device, ip, mem, statistics)
        except IOReadOnEOF:
            return TerminationStatistics(statistics, TerminationCause.EOF)
        _handle_output(flip_address, io_device, w)
""", 'C01.ORDER'),
    M('C01', 'fast: in_addr off by one', RUN, "    in_addr = 3 * w + w.bit_length()  # 3w + #w\n    in_lo",
      "    in_addr = 3 * w + w.bit_length() - 1  # 3w + #w\n    in_lo", 'C01.GUARDS'),
    M('C01', 'fast: input window lower bound inclusive', RUN, "if ip <= in_addr and ip > in_lo:", "if ip <= in_addr and ip >= in_lo:", 'C01.GUARDS'),
    M('C01', 'fast: null test <=', RUN, "            if jump_address < dw:\n                statistics.op_counter = ops",
      "            if jump_address <= dw:\n                statistics.op_counter = ops", 'C01.GUARDS'),
    M('C01', 'fast: self-flip exception dropped', RUN, "if jump_address == ip and not ip <= flip_address < ip + dw:",
      "if jump_address == ip:", 'C01.GUARDS'),
    M('C01', 'featured: output bit inverted', RUN, "io_device.write_bit(out_addr + 1 == flip_address)", "io_device.write_bit(out_addr == flip_address)", 'C01.GUARDS'),
    M('C01', 'fast: flip uses or', RUN, "flip_word_value ^ (1 << (flip_address & bit_mask))", "flip_word_value | (1 << (flip_address & bit_mask))", 'C01.FLIP-EXPR'),
    M('C01', 'fast: fallback dropped for the jump word', RUN,
      """                try:
                    jump_address = memory[jump_word_address]
                except KeyError:
                    jump_address = read_missing_word(jump_word_address)
""",
      """                jump_address = memory[jump_word_address]
""", 'C01.FASTMEM'),
    M('C01', 'flat C: jump word read before flip (cold path rejoins wrong label)', C,
      """        if (mem_flip_bit(self, f) < 0) {
            goto memory_error;
        }
        goto after_flip;

    cold_flip_garbage:""",
      """        if (mem_flip_bit(self, f) < 0) {
            goto memory_error;
        }
        goto jump_word_ready;

    cold_flip_garbage:""", 'C01.ORDER'),
    M('C01', 'paged C: cold output skips the input check', C,
      """        Py_DECREF(result);
        goto after_output;
    }

    cold_input:
    {
        PyObject* result;
        int bit_value;
        double io_start = monotonic_seconds();
        result = PyObject_CallNoArgs(read_bit);
        *paused_seconds_out += monotonic_seconds() - io_start;
        if (!result) {
            if (PyErr_ExceptionMatches(eof_exception_type)) {
                PyErr_Clear();
                cause = TERM_EOF;
                goto loop_done;""",
      """        Py_DECREF(result);
        goto jump_word_ready;
    }

    cold_input:
    {
        PyObject* result;
        int bit_value;
        double io_start = monotonic_seconds();
        result = PyObject_CallNoArgs(read_bit);
        *paused_seconds_out += monotonic_seconds() - io_start;
        if (!result) {
            if (PyErr_ExceptionMatches(eof_exception_type)) {
                PyErr_Clear();
                cause = TERM_EOF;
                goto loop_done;""", 'C01.ORDER'),
    M('C01', 'measured C: in_addr off by one', C,
      "    const uint64_t out1 = dw + 1;\n    const uint64_t in_addr = 3 * width + ww + 1; /* 3w + #w */",
      "    const uint64_t out1 = dw + 1;\n    const uint64_t in_addr = 3 * width + ww; /* 3w + #w */", 'C01.GUARDS'),
    M('C01', 'flat C: output compare widened', C, "            if (f - dw <= 1) {\n                goto cold_output;\n            }\n        after_output:\n            if (ip - in_lo_exclusive - 1 < dw) {\n                goto cold_input;\n            }\n        after_input:\n\n            /* FLIP! */",
      "            if (f - dw <= 2) {\n                goto cold_output;\n            }\n        after_output:\n            if (ip - in_lo_exclusive - 1 < dw) {\n                goto cold_input;\n            }\n        after_input:\n\n            /* FLIP! */", 'C01.GUARDS'),
    M('C01', 'paged C: self-flip exception weakened', C,
      """    cold_maybe_looping:
        if (f >= ip && f - ip < dw) {
            goto not_looping; /* the op flips its own words - not a halt */
        }
        cause = TERM_LOOPING;
        goto loop_done;""",
      """    cold_maybe_looping:
        if (f >= ip && f - ip < width) {
            goto not_looping; /* the op flips its own words - not a halt */
        }
        cause = TERM_LOOPING;
        goto loop_done;""", 'C01.GUARDS'),
    M('C01', 'C dispatch: wrong ww literal', C, "paused_seconds_out, 16, 4);", "paused_seconds_out, 16, 5);", 'C01.WIDTHS'),
    M('C01', 'C: unaligned combine shift', C, "*out = ((lsw >> bit_offset) | (msw << (m->w - bit_offset))) & m->word_mask;",
      "*out = ((lsw >> bit_offset) | (msw << (m->w - bit_offset - 1))) & m->word_mask;", 'C01.UNALIGNED'),
    M('C01', 'native: EOF mapped to looping', RUN, "        return TerminationStatistics(statistics, TerminationCause.EOF)\n    if cause == _fjcore.TERM_NULL_IP:",
      "        return TerminationStatistics(statistics, TerminationCause.Looping)\n    if cause == _fjcore.TERM_NULL_IP:", 'C01.TERM'),
    M('C01', 'native: callbacks swapped', RUN, "            io_device.read_bit,\n            io_device.write_bit,\n            IOReadOnEOF,",
      "            io_device.write_bit,\n            io_device.read_bit,\n            IOReadOnEOF,", 'C01.FFI'),
    M('C01', 'reader: garbage fault reports the word address', RD, "memory_address = word_address << (self.memory_width.bit_length() - 1)",
      "memory_address = word_address", 'C01.UNALIGNED'),
    # ---- equivalence (must stay silent)
    M('C01', 'EQ fast: rename a local', RUN, "flip_word_value", "fwv", None, count=3),
    M('C01', 'EQ fast: commuted compare', RUN, "if ip <= in_addr and ip > in_lo:", "if in_lo < ip and in_addr >= ip:", None),
    M('C01', 'EQ fast: dw spelled w*2', RUN, "    dw = 2 * w\n", "    dw = w * 2\n", None),
    M('C01', 'EQ featured: halt guard respelled', RUN, "if jump_address == ip and not ip <= flip_address < ip + 2 * w:",
      "if ip == jump_address and not (flip_address >= ip and flip_address < ip + w + w):", None),
    M('C01', 'EQ flat C: input range spelled as two compares', C,
      "            if (ip - in_lo_exclusive - 1 < dw) {\n                goto cold_input;\n            }\n        after_input:\n\n            /* FLIP! */",
      "            if (ip > in_lo_exclusive && ip <= in_addr) {\n                goto cold_input;\n            }\n        after_input:\n\n            /* FLIP! */", None),
    M('C01', 'EQ measured C: operands swapped', C, "if (f <= out1 && f >= dw) {", "if (dw <= f && out1 >= f) {", None),
    M('C01', 'reader word-address mask shifts the wrong way (mutation survey)', 'flipjump/fjm/fjm_reader.py', "    def _get_memory_word(self, word_address: int) -> int:\n        word_address &= (1 << self.memory_width) - 1", "    def _get_memory_word(self, word_address: int) -> int:\n        word_address &= (1 >> self.memory_width) - 1", 'C01.MASKS'),
    M('C01', 'reader keeps one bit too many of a stored word (mutation survey)', 'flipjump/fjm/fjm_reader.py', "        value &= (1 << self.memory_width) - 1", "        value &= (2 << self.memory_width) - 1", 'C01.MASKS'),
    M('C01', 'EQ reader masks spelled 2**w - 1', 'flipjump/fjm/fjm_reader.py', "        value &= (1 << self.memory_width) - 1", "        value &= 2 ** self.memory_width - 1", None),
]
