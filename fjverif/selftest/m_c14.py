from . import M
ASM = 'flipjump/assembler/assembler.py'
PRE = 'flipjump/assembler/preprocessor.py'
OPS = 'flipjump/assembler/inner_classes/ops.py'
EXPR = 'flipjump/assembler/inner_classes/expr.py'
PARSER = 'flipjump/assembler/fj_parser.py'
WRITER = 'flipjump/fjm/fjm_writer.py'
MUTANTS = [
    M('C14', 'expr: eval_new no longer wraps arithmetic errors', EXPR,
      "            try:\n                return Expr(op_string_to_function[op](*(arg.value for arg in evaluated_args)))  # type: ignore[arg-type]\n            except Exception as e:\n                raise FlipJumpExprException(f'{repr(e)}. bad math operation ({op}): {str(self)}.')\n",
      "            return Expr(op_string_to_function[op](*(arg.value for arg in evaluated_args)))  # type: ignore[arg-type]\n", 'C14.ESCAPE'),
    M('C14', 'expr: parse-time folding unwrapped again', EXPR,
      "        try:\n            return Expr(op_string_to_function[op](*map(int, params)))\n        except FlipJumpExprException:\n            raise\n        except Exception as e:\n            raise FlipJumpExprException(f'{repr(e)}. bad math operation ({op}): {str(Expr((op, params)))}.')\n",
      "        return Expr(op_string_to_function[op](*map(int, params)))\n", 'C14.ESCAPE'),
    M('C14', 'pad: positive-alignment guard dropped', PRE,
      "    if ops_alignment <= 0:\n        macro_resolve_error(\n            preprocessor_data.curr_tree,\n            f\"'pad' must get a positive ops-alignment, but got {ops_alignment}. In {op.code_position}.\",\n        )\n", "", 'C14.ESCAPE'),
    M('C14', 'macro existence check dropped', PRE,
      "            if macro_name not in self.macros:\n                macro_resolve_error(\n                    self.curr_tree,\n                    f\"macro {macro_name} is used but isn't defined. \" f\"In {self.calling_op.code_position}.\",\n                )\n", "", 'C14.ESCAPE'),
    M('C14', 'label swap without membership test', OPS, "        if self.name in labels_dict:\n            new_name = labels_dict[self.name].value", "        if True:\n            new_name = labels_dict[self.name].value", 'C14.ESCAPE'),
    M('C14', 'wflip: flip value range check dropped', ASM, "            assert_address_in_memory(self.memory_width, flip_value)\n", "", 'C14.ESCAPE'),
    M('C14', 'preprocessor raises a builtin', PRE, "    raise FlipJumpPreprocessorException(error_str) from orig_exception", "    raise RuntimeError(error_str) from orig_exception", 'C14.RAISES'),
    M('C14', 'assembler raises the base class', ASM, "        raise FlipJumpAssemblerException(f\"Not enough space with the {memory_width}-bits memory-width.\")",
      "        raise FlipJumpException(f\"Not enough space with the {memory_width}-bits memory-width.\")", 'C14.RAISES'),
    M('C14', 'writer: output opened before packing', WRITER,
      "        fjm_data = pack(f'<{len(self.data)}{word_format}', *self.data)\n        if FJMVersion.CompressedVersion == self.version:\n            fjm_data = self._compress_data(fjm_data)\n\n        with open(self.output_file, 'wb') as f:\n            f.write(fjm_header)\n            f.write(fjm_segments)\n            f.write(fjm_data)\n",
      "        with open(self.output_file, 'wb') as f:\n            f.write(fjm_header)\n            f.write(fjm_segments)\n            fjm_data = pack(f'<{len(self.data)}{word_format}', *self.data)\n            if FJMVersion.CompressedVersion == self.version:\n                fjm_data = self._compress_data(fjm_data)\n            f.write(fjm_data)\n", 'C14.WRITE-LAST'),
    M('C14', 'assemble: label file saved before the labels are resolved', ASM,
      "        with PrintTimer('  labels resolve:  ', print_time=print_time):\n            labels_resolve(ops, labels, memory_width, fjm_writer)\n",
      "        save_debugging_labels(debugging_file_path, labels)\n        with PrintTimer('  labels resolve:  ', print_time=print_time):\n            labels_resolve(ops, labels, memory_width, fjm_writer)\n", 'C14.WRITE-LAST'),
    M('C14', 'lexer STRING loop can stall', PARSER, "            i += length\n", "            i += length - 1\n", 'C14.PROGRESS'),
    M('C14', 'utf-8 conversion removed', PARSER,
      "    try:\n        curr_text = curr_file.open('r', encoding='utf-8').read()\n    except UnicodeDecodeError as decode_error:\n        raise FlipJumpParsingException(\n            f\"file {curr_file} is not a valid utf-8 text file: {decode_error}.\"\n        ) from decode_error\n",
      "    curr_text = curr_file.open('r', encoding='utf-8').read()\n", 'C14.ESCAPE'),
    M('C14', 'synthetic label prefix user-spellable again', PRE, "wflip_start_label = ':wflip_area_start:'", "wflip_start_label = '_.wflip_area_start_'", 'C14.ESCAPE'),
    M('C14', 'funnel swallows library exceptions into the generic one', ASM, "    except FlipJumpException as fj_exception:\n        raise fj_exception\n    except RecursionError as recursion_error:",
      "    except RecursionError as recursion_error:", 'C14.FUNNEL'),
    M('C14', 'funnel no longer converts RecursionError (F07 reverted)', ASM, "    except RecursionError as recursion_error:\n        raise FlipJumpAssemblerException(", "    except MemoryError as recursion_error:\n        raise FlipJumpAssemblerException(", 'C14.RECURSION', count=1),
    M('C14', 'RecursionError handler re-raises a builtin', ASM, "    except RecursionError as recursion_error:\n        raise FlipJumpAssemblerException(", "    except RecursionError as recursion_error:\n        raise RuntimeError(", 'C14.FUNNEL'),
    M('C14', 'EQ membership test spelled via early return', OPS,
      "        if self.name in labels_dict:\n            new_name = labels_dict[self.name].value\n            if isinstance(new_name, str):\n                return new_name\n            raise FlipJumpExprException(\n                f'Bad label swap (from {self.name} to {labels_dict[self.name]}) in {self.code_position}.'\n            )\n        return self.name",
      "        if self.name not in labels_dict:\n            return self.name\n        new_name = labels_dict[self.name].value\n        if isinstance(new_name, str):\n            return new_name\n        raise FlipJumpExprException(\n            f'Bad label swap (from {self.name} to {labels_dict[self.name]}) in {self.code_position}.'\n        )", None),
]
