from . import M
C = 'flipjump/interpreter/_fjcore.c'
RUN = 'flipjump/interpreter/fjm_run.py'
MUTANTS = [
    M('C07', 'paged loop re-reads the cache slot after the flip (F01 reverted)', C, "                if (op_offset + 1 >= op_valid_end) {", "                if (op_offset + 1 >= self->page_cache_valid_end[op_slot]) {", 'C07.CACHE'),
    M('C07', 'cache words pointer re-read after the flip', C, "                j = op_words[op_offset + 1];\n            } else if (ip & bit_mask) {", "                j = self->page_cache_words[op_slot][op_offset + 1];\n            } else if (ip & bit_mask) {", 'C07.CACHE'),
    M('C07', 'page miss path trusts the slot without the lookup', C,
      "    cold_op_page_miss:\n        if (!mem_get_page(self, word_address >> PAGE_BITS)) {\n            goto memory_or_python_error;\n        }\n        goto op_page_cached; /* mem_get_page filled slot op_slot */",
      "    cold_op_page_miss:\n        goto op_page_cached;", 'C07.CACHE'),
    M('C07', 'per-op reset of the flat jump pointer dropped', C, "                ring_writes++;\n                op_flat_jump = NULL;\n", "                ring_writes++;\n", 'C01.PER-OP-STATE'),
    M('C07', 'run-time read routes by flat only', C, "    Page* page;\n    if (m->flat && word_address < m->flat_count) {\n        uint64_t value = m->flat[word_address];\n        if (flat_is_garbage(m, value) && flat_garbage_check(m, word_address, &value) < 0) {\n            return -1;\n        }\n        *out = value;",
      "    Page* page;\n    if (m->flat && word_address <= m->flat_count) {\n        uint64_t value = m->flat[word_address];\n        if (flat_is_garbage(m, value) && flat_garbage_check(m, word_address, &value) < 0) {\n            return -1;\n        }\n        *out = value;", 'C07.ROUTE'),
    M('C07', 'API set_word does not mask in the paged branch', C, "    page->words[word_address & PAGE_MASK] = value & self->word_mask;\n    Py_RETURN_NONE;\n}\n\nstatic PyObject* Memory_get_word",
      "    page->words[word_address & PAGE_MASK] = value;\n    Py_RETURN_NONE;\n}\n\nstatic PyObject* Memory_get_word", 'C07.ROUTE'),
    M('C07', 'flat jump word used without the sentinel test', C,
      "            j = flat[word_address + 1];\n            if (width <= 32 ? ((j & GARBAGE_SENTINEL) != 0) : (j == FLAT_GARBAGE_MAGIC)) {\n                goto cold_jump_word_garbage;\n            }\n",
      "            j = flat[word_address + 1];\n", 'C07.SENTINEL'),
    M('C07', 'sentinel width threshold differs in the flip lane', C, "            if (width <= 32 ? ((flip_value & GARBAGE_SENTINEL) != 0) : (flip_value == FLAT_GARBAGE_MAGIC)) {",
      "            if (width <= 16 ? ((flip_value & GARBAGE_SENTINEL) != 0) : (flip_value == FLAT_GARBAGE_MAGIC)) {", 'C07.SENTINEL'),
    M('C07', 'w=64 collision path skips the segment lookup', C, "    if (m->w > 32 && flat_seg_contains(m, word_address)) {", "    if (m->w > 64 && flat_seg_contains(m, word_address)) {", 'C07.SENTINEL'),
    M('C07', 'copy-in before the zero fill', C,
      "    for (seg = 0; seg < m->segment_count; seg++) {\n        const uint64_t start = m->segments[seg].start;\n        const uint64_t end_clamped =\n            (m->segments[seg].end < low_max_end) ? m->segments[seg].end : low_max_end;\n        if (start < end_clamped) {\n            memset(m->flat + start, 0, (size_t)(end_clamped - start) * sizeof(uint64_t));\n        }\n    }\n", "", 'C07.COPYIN'),
    M('C07', 'copy-in clamps lo with min', C, "uint64_t lo = (m->segments[seg].start > page_start) ? m->segments[seg].start : page_start;", "uint64_t lo = (m->segments[seg].start < page_start) ? m->segments[seg].start : page_start;", 'C07.COPYIN'),
    M('C07', 'flat loop chosen even with a last-ops ring', C, "    if (self->flat && last_ops_length == 0) {\n        /* the common fast case", "    if (self->flat) {\n        /* the common fast case", 'C07.MODE'),
    M('C07', 'ring emitted newest first', C, "last_ops_ring[(start + i) % (uint64_t)last_ops_length]", "last_ops_ring[(start + total - 1 - i) % (uint64_t)last_ops_length]", 'C07.RECORD'),
    M('C07', 'native run asks for a ring of maxlen+1', RUN, "last_ops_length=last_ops.maxlen if last_ops is not None and last_ops.maxlen else 0,", "last_ops_length=last_ops.maxlen + 1 if last_ops is not None and last_ops.maxlen else 0,", 'C07.MODE'),
    M('C07', 'EQ routing predicate operand order', C, "    if (m->flat && word_address < m->flat_count) {\n        uint64_t value = m->flat[word_address];\n        if (flat_is_garbage(m, value) && flat_garbage_check(m, word_address, &value) < 0) {\n            return -1;\n        }\n        m->flat[word_address] = value ^",
      "    if (m->flat && (word_address < m->flat_count)) {\n        uint64_t value = m->flat[word_address];\n        if (flat_is_garbage(m, value) && flat_garbage_check(m, word_address, &value) < 0) {\n            return -1;\n        }\n        m->flat[word_address] = value ^", None),
]
