from . import M
PRE = 'flipjump/assembler/preprocessor.py'
ASM = 'flipjump/assembler/assembler.py'
FUNCS = 'flipjump/utils/functions.py'
BRK = 'flipjump/interpreter/debugging/breakpoints.py'
MUTANTS = [
    M('C16', 'wflip label takes the cursor of the wflip area, not the address of the spot (seed C16_8)', ASM,
      """                    wflip_spot = self.get_wflip_spot()
                    self._insert_wflip_label(wflip_spot.address)
""", """                    self._insert_wflip_label(self.next_wflip_address)
                    wflip_spot = self.get_wflip_spot()
""", 'C16.WFLIP-LABEL'),
    M('C16', 'EQ wflip label address and spot list read through locals', ASM,
      """                    wflip_spot = self.get_wflip_spot()
                    self._insert_wflip_label(wflip_spot.address)

                    ops_list[last_address_index] = wflip_spot.address
                    return_dict[flips_key] = wflip_spot.address

                    wflip_spot.list[wflip_spot.index] = flip_addresses.pop()
""", """                    spot = self.get_wflip_spot()
                    spot_address = spot.address
                    spot_words = spot.list

                    ops_list[last_address_index] = spot_address
                    return_dict[flips_key] = spot_address

                    spot_words[spot.index] = flip_addresses.pop()
                    self._insert_wflip_label(spot_address)
                    wflip_spot = spot
""", None),
    M('C16', 'label file saved before the labels are resolved', ASM,
      "        with PrintTimer('  labels resolve:  ', print_time=print_time):\n            labels_resolve(ops, labels, memory_width, fjm_writer)\n",
      "        save_debugging_labels(debugging_file_path, labels)\n        with PrintTimer('  labels resolve:  ', print_time=print_time):\n            labels_resolve(ops, labels, memory_width, fjm_writer)\n", 'C16.SAME-TABLE'),
    M('C16', 'BinaryData works on a copy of the table', ASM, "        self.labels = labels\n        self.wflips_so_far = 0", "        self.labels = dict(labels)\n        self.wflips_so_far = 0", 'C16.SAME-TABLE'),
    M('C16', 'duplicate labels silently overwritten', PRE,
      "        if label in self.labels:\n            other_position = self.labels_code_positions[label]\n            macro_resolve_error(\n                self.curr_tree, f'label declared twice - \"{label}\" on ' f'{code_position} and {other_position}'\n            )\n", "", 'C16.WRITERS'),
    M('C16', 'wflip labels lose their counter', ASM, "        self.labels[f'{WFLIP_LABEL_PREFIX}{self.wflips_so_far}'] = address", "        self.labels[f'{WFLIP_LABEL_PREFIX}'] = address", 'C16.WRITERS'),
    M('C16', 'a fourth raw writer of the label table', PRE, "        self.macro_start_labels.append((self.curr_address, label, code_position))",
      "        self.macro_start_labels.append((self.curr_address, label, code_position))\n        self.labels[label] = self.curr_address", 'C16.WRITERS'),
    M('C16', 'load uses a different encoding', FUNCS, "json.loads(data.decode(DEBUG_JSON_ENCODING))", "json.loads(data.decode('latin-1'))", 'C16.CODEC'),
    M('C16', 'substring breakpoints match prefixes only', BRK, "                if bcl in label:", "                if label.startswith(bcl):", 'C16.RESOLVE'),
    M('C16', 'address map prefers the longest label', BRK, "            if len(label) >= len(address_to_label[address]):", "            if len(label) <= len(address_to_label[address]):", 'C16.RESOLVE'),
    M('C16', 'start labels inserted even where a label sits', PRE, "            if address not in self.addresses_with_labels:\n                self.insert_label(label, code_position, address=address)",
      "            if True:\n                self.insert_label(label, code_position, address=address)", 'C16.START-LABELS'),
    M('C16', 'wflip label counter restarts per segment (seed C16_2)', 'flipjump/assembler/assembler.py', "        self.current_address = self.first_address\n\n        self.padding_ops_indices.clear()\n\n    def insert_reserve_bits", "        self.current_address = self.first_address\n        self.wflips_so_far = 0\n\n        self.padding_ops_indices.clear()\n\n    def insert_reserve_bits", 'C16.WRITERS'),
    M('C16', 'EQ wflip label counter initialised through an annotation', 'flipjump/assembler/assembler.py', "        self.wflips_so_far = 0\n", "        self.wflips_so_far: int = 0\n", None),
]
