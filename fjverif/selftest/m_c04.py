from . import M
H = 'flipjump/stl/hex/'
MUTANTS = [
    M('C04', 'add table (carry=1) adds 2', H + 'math.fj', "                ((((d&0xf)+(d>>4)+1)&0xf)^(d&0xf))*dw, \\\n                (((d&0xf)+(d>>4)+1 > 0xf)", "                ((((d&0xf)+(d>>4)+2)&0xf)^(d&0xf))*dw, \\\n                (((d&0xf)+(d>>4)+1 > 0xf)", 'C04.LUT'),
    M('C04', 'add table carry-out threshold off by one', H + 'math.fj', "                (((d&0xf)+(d>>4)   > 0xf) ? (flip_carry+d*dw) : (clean_table_entry+d*dw))", "                (((d&0xf)+(d>>4)   >= 0xf) ? (flip_carry+d*dw) : (clean_table_entry+d*dw))", 'C04.LUT'),
    M('C04', 'sub table borrow routing swapped', H + 'math.fj', "                (((d&0xf)-(d>>4)-1 < 0) ? (clean_table_entry+d*dw) : (flip_carry+d*dw))", "                (((d&0xf)-(d>>4)-1 < 0) ? (flip_carry+d*dw) : (clean_table_entry+d*dw))", 'C04.LUT'),
    M('C04', 'or table computes xor', H + 'logics.fj', "                (((d&0xf)|(d>>4))^(d&0xf))*dw, \\", "                (((d&0xf)^(d>>4))^(d&0xf))*dw, \\", 'C04.LUT'),
    M('C04', 'cmp table treats equal as greater', H + 'cond_jumps.fj', "            rep(256, d) stl.fj  ((d&0xf) > (d>>4)) \\", "            rep(256, d) stl.fj  ((d&0xf) >= (d>>4)) \\", 'C04.LUT'),
    M('C04', 'mul table uses the wrong operand nibble', H + 'mul.fj', "switch_small_table    + (((d&0xf)*(d>>4)) & 0xf) * dw", "switch_small_table    + (((d&0xf)*(d>>3)) & 0xf) * dw", 'C04.LUT'),
    M('C04', 'vector add forgets the final clear_carry', H + 'math.fj', "        .add.clear_carry\n        rep(n, i) .add dst+i*dw, src+i*dw\n        .add.clear_carry\n", "        .add.clear_carry\n        rep(n, i) .add dst+i*dw, src+i*dw\n", 'C04.CARRY'),
    M('C04', 'vector sub strides by w', H + 'math.fj', "        rep(n, i) .sub dst+i*dw, src+i*dw\n        .sub.clear_carry\n    }", "        rep(n, i) .sub dst+i*w, src+i*dw\n        .sub.clear_carry\n    }", 'C04.EXTENT'),
    M('C04', 'vector or skips the top hex', H + 'logics.fj', "        rep(n, i) .or dst+i*dw, src+i*dw", "        rep(n-1, i) .or dst+i*dw, src+i*dw", 'C04.EXTENT'),
    M('C04', 'call with a wrong arity', H + 'math.fj', "            hex.add_shifted n_dst, n_const, dst, shifted_constant, hex_shift\n", "            hex.add_shifted n_dst, n_const, dst, shifted_constant\n", 'C04.CLOSURE'),
    M('C04', 'global label never exported', H + 'math.fj', "        def not_carry < .dst {\n            .dst+dbit+8;\n        }\n\n        //  Time Complexity: 2@+1\n        // Space Complexity: 2@+13",
      "        def not_carry < .dsst {\n            .dsst+dbit+8;\n        }\n\n        //  Time Complexity: 2@+1\n        // Space Complexity: 2@+13", 'C04.CLOSURE'),
    M('C04', 'EQ stride spelled 2*w*i', H + 'math.fj', "        rep(n, i) .add dst+i*dw, src+i*dw\n", "        rep(n, i) .add dst+2*w*i, src+i*dw\n", None),
    M('C04', 'hex.div clears one hex less of the remainder register', 'flipjump/stl/hex/div.fj', "        .zero nb+1, _r", "        .zero nb, _r", 'C04.SCRATCH'),
    M('C04', 'hex.mul keeps its accumulator between executions', 'flipjump/stl/hex/mul.fj', "        .zero n, dst\n        .zero n, src\n", "        .zero n, src\n", 'C04.SCRATCH'),
    M('C04', 'hex.add_mul n leaves the multiply carry behind (seed C04_2)', 'flipjump/stl/hex/mul.fj', "        .xor .mul.dst, b\n        .mul.clear_carry\n    }", "        .xor .mul.dst, b\n    }", 'C04.CARRY'),
    M('C04', 'add.clear_carry leaves tables.ret pointing at its own label', 'flipjump/stl/hex/math.fj', "        def clear_carry @ ret < ..tables.ret, .dst, ..tables.res {\n            wflip ..tables.ret+w, ret, .dst\n          ret:\n            wflip ..tables.ret+w, ret\n            ..zero ..tables.res", "        def clear_carry @ ret < ..tables.ret, .dst, ..tables.res {\n            wflip ..tables.ret+w, ret, .dst\n          ret:\n            ..zero ..tables.res", 'C04.RET-RESTORE'),
]
