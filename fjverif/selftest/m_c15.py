from . import M
BRK = 'flipjump/interpreter/debugging/breakpoints.py'
RUN = 'flipjump/interpreter/fjm_run.py'
MUTANTS = [
    M('C15', 'pause test after the flip word fetch', RUN,
      "        # handle breakpoints\n        if breakpoint_handler and breakpoint_handler.should_break(ip, statistics.op_counter):\n            breakpoint_handler = handle_breakpoint(breakpoint_handler, ip, mem, statistics)\n\n        # read flip word\n        flip_address = mem.get_word(ip)\n",
      "        # read flip word\n        flip_address = mem.get_word(ip)\n\n        # handle breakpoints\n        if breakpoint_handler and breakpoint_handler.should_break(ip, statistics.op_counter):\n            breakpoint_handler = handle_breakpoint(breakpoint_handler, ip, mem, statistics)\n", 'C15.PAUSE-FIRST'),
    M('C15', 'step pauses after two ops', BRK, "            self.next_break = op_counter + 1", "            self.next_break = op_counter + 2", 'C15.COMMANDS'),
    M('C15', 'skip N is off by one', BRK, "            self.next_break = op_counter + argument", "            self.next_break = op_counter + argument - 1", 'C15.COMMANDS'),
    M('C15', 'skip accepts zero', BRK, "                if count <= 0:", "                if count < 0:", 'C15.COMMANDS'),
    M('C15', 'quit continues the run', BRK, "        elif command == 'exit':\n            raise KeyboardInterrupt()", "        elif command == 'exit':\n            self.next_break = None", 'C15.COMMANDS'),
    M('C15', 'a produced command is not handled', BRK, "                return ('continue_all', 0)", "                return ('continueall', 0)", 'C15.COMMANDS'),
    M('C15', 'should_break compares with >=', BRK, "        return self.next_break == op_counter or ip in self.breakpoints", "        return (self.next_break is not None and self.next_break <= op_counter + 1) or ip in self.breakpoints", 'C15.PAUSE-FIRST'),
    M('C15', 'breakpoint preview unguarded again', BRK,
      "        try:\n            return self.get_address_str(mem.get_word(word_bit_address))\n        except FlipJumpException:\n            return '<unreadable memory>'\n",
      "        return self.get_address_str(mem.get_word(word_bit_address))\n", 'C15.READONLY'),
    M('C15', 'memory read command writes the word back', BRK, "            memory_word_value = mem.get_word(address)\n", "            memory_word_value = mem.get_word(address)\n            mem._set_memory_word(address // w, memory_word_value)\n", 'C15.READONLY'),
    M('C15', 'variable decode reads the flip words', BRK, "range(first_address + w, last_address, 2 * w)", "range(first_address, last_address, 2 * w)", 'C15.DECODE'),
    M('C15', 'variable decode data offset w/o #w', BRK, "        data_bits = (word >> w.bit_length()) & ((1 << bits_per_word) - 1)", "        data_bits = (word >> (w.bit_length() - 1)) & ((1 << bits_per_word) - 1)", 'C15.DECODE'),
    M('C15', 'EQ continue and continue_all share the reset', 'flipjump/interpreter/debugging/breakpoints.py', "        elif command == 'continue':\n            self.next_break = None\n        elif command == 'continue_all':\n            self.next_break = None\n            raise BreakpointHandlerUnnecessary()", "        elif command in ('continue', 'continue_all'):\n            self.next_break = None\n            if command == 'continue_all':\n                raise BreakpointHandlerUnnecessary()", None),
]
