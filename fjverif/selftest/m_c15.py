from . import M
BRK = 'flipjump/interpreter/debugging/breakpoints.py'
RUN = 'flipjump/interpreter/fjm_run.py'
MUTANTS = [
    M('C15', 'pause test after the flip word fetch', RUN,
      "        # handle breakpoints\n        if breakpoint_handler and breakpoint_handler.should_break(ip, statistics.op_counter):\n            breakpoint_handler = handle_breakpoint(breakpoint_handler, ip, mem, statistics)\n\n        # read flip word\n        flip_address = mem.get_word(ip)\n",
      "        # read flip word\n        flip_address = mem.get_word(ip)\n\n        # handle breakpoints\n        if breakpoint_handler and breakpoint_handler.should_break(ip, statistics.op_counter):\n            breakpoint_handler = handle_breakpoint(breakpoint_handler, ip, mem, statistics)\n", 'C15.PAUSE-FIRST'),
    M('C15', 'step pauses after two ops', BRK, "            self.next_break = op_counter + 1", "            self.next_break = op_counter + 2", 'C15.COMMANDS'),
    M('C15', 'skip N is off by one', BRK, "            self.next_break = op_counter + argument", "            self.next_break = op_counter + argument - 1", 'C15.COMMANDS'),
    M('C15', 'skip accepts zero', BRK, "                if count <= 0:", "                if count < 0:", 'C15.COMMANDS'),
    M('C15', 'quit continues the run', BRK, "        elif command == 'exit':\n            raise KeyboardInterrupt()", "        elif command == 'exit':\n            self.next_break = None", 'C15.COMMANDS'),
    M('C15', 'a produced command is not handled', BRK, "                return ('continue_all', 0)", "                return ('continueall', 0)", 'C15.COMMANDS'),
    M('C15', 'should_break compares with >=', BRK, "        return self.next_break == op_counter or ip in self.breakpoints", "        return (self.next_break is not None and self.next_break <= op_counter + 1) or ip in self.breakpoints", 'C15.PAUSE-FIRST'),
    M('C15', 'breakpoint preview unguarded again', BRK,
      "        try:\n            return self.get_address_str(mem.get_word(word_bit_address))\n        except FlipJumpException:\n            return '<unreadable memory>'\n",
      "        return self.get_address_str(mem.get_word(word_bit_address))\n", 'C15.READONLY'),
    M('C15', 'memory read command writes the word back', BRK, "            memory_word_value = mem.get_word(address)\n", "            memory_word_value = mem.get_word(address)\n            mem._set_memory_word(address // w, memory_word_value)\n", 'C15.READONLY'),
    M('C15', 'variable decode reads the flip words', BRK, "range(first_address + w, last_address, 2 * w)", "range(first_address, last_address, 2 * w)", 'C15.DECODE'),
    M('C15', 'variable decode data offset w/o #w', BRK, "        data_bits = (word >> w.bit_length()) & ((1 << bits_per_word) - 1)", "        data_bits = (word >> (w.bit_length() - 1)) & ((1 << bits_per_word) - 1)", 'C15.DECODE'),
    M('C15', 'EQ continue and continue_all share the reset', 'flipjump/interpreter/debugging/breakpoints.py', "        elif command == 'continue':\n            self.next_break = None\n        elif command == 'continue_all':\n            self.next_break = None\n            raise BreakpointHandlerUnnecessary()", "        elif command in ('continue', 'continue_all'):\n            self.next_break = None\n            if command == 'continue_all':\n                raise BreakpointHandlerUnnecessary()", None),
    M('C15', 'variable length / index converted outside any handler (F17 reverted)', 'flipjump/interpreter/debugging/breakpoints.py', "            try:\n                index = int(index_string[:-1]) if index_string else 0\n                variable_prefix = (variable_type, int(variable_length), index)\n            except ValueError:", "            index = int(index_string[:-1]) if index_string else 0\n            variable_prefix = (variable_type, int(variable_length), index)\n            try:\n                pass\n            except ValueError:", 'C15.CMD-ESCAPE'),
    M('C15', 'vector value printed in decimal (F17 reverted)', 'flipjump/interpreter/debugging/breakpoints.py', "f' = {int_to_str(value)}  (or {hex(value)}).'", "f' = {value}  (or {hex(value)}).'", 'C15.CMD-ESCAPE'),
    M('C15', 'rejected skip count printed in decimal (F17 reverted)', 'flipjump/interpreter/debugging/breakpoints.py', "got {int_to_str(count)}.", "got {count}.", 'C15.CMD-ESCAPE'),
    M('C15', 'skip count converted outside its handler', 'flipjump/interpreter/debugging/breakpoints.py', "                try:\n                    count = int(argument, 0)  # accepts decimal and 0x-hex\n                except ValueError:\n                    show_message(f\"skip needs a number (decimal or 0x-hex), got {argument!r}.\", 'Debugger')\n                    continue\n", "                count = int(argument, 0)  # accepts decimal and 0x-hex\n", 'C15.CMD-ESCAPE'),
    M('C15', 'label lookup without the membership test', 'flipjump/interpreter/debugging/breakpoints.py', "        if target in self.label_to_address:\n            show_memory_address(variable_prefix, query, self.label_to_address[target], mem, None)\n            return\n", "        if not target.isdigit():\n            show_memory_address(variable_prefix, query, self.label_to_address[target], mem, None)\n            return\n", 'C15.CMD-ESCAPE'),
    M('C15', 'EQ rejected skip count printed in hex', 'flipjump/interpreter/debugging/breakpoints.py', "got {int_to_str(count)}.", "got {hex(count)}.", None),
    M('C15', 'EQ rejected skip count echoes the typed text', 'flipjump/interpreter/debugging/breakpoints.py', "got {int_to_str(count)}.", "got {argument!r}.", None),
    M('C15', 'EQ vector value printed only in hex', 'flipjump/interpreter/debugging/breakpoints.py', "f' = {int_to_str(value)}  (or {hex(value)}).'", "f' = {hex(value)}.'", None),
]
