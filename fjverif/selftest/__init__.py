"""Self-test of the checkers (thorough tier).

arming variants: one rule instance broken by a small edit of the anchored source (still compiles);
the named rule must report a NEW violation.   equivalence variants: behaviour-preserving edits; every
rule of the property must stay silent (no violation, no analysis error).
Variants are analysed through an in-memory overlay (Python) or a temporary copy of _fjcore.c handed to
clang (C, under $TMPDIR, removed at once); /repo is never touched.
"""
from __future__ import annotations

import importlib
import io
import py_compile
import subprocess
import sys
import tempfile
import time
from concurrent.futures import ProcessPoolExecutor
from pathlib import Path
from typing import Any, Dict, List, Optional, Tuple

from ..core import AnalysisError, Report, _match_known, load_known_findings
from ..pyfacts import Repo


def M(prop: str, name: str, rel: str, old: str, new: str, expect: Optional[str], count: int = 1,
      also: Optional[List[Tuple[str, str, str]]] = None) -> Dict[str, Any]:
    """expect = rule name that must fire (arming) or None (equivalence: must stay silent)."""
    return dict(prop=prop, name=name, rel=rel, old=old, new=new, expect=expect, count=count, also=also or [])


def _apply(repo: Repo, m: Dict[str, Any]) -> Optional[Dict[str, str]]:
    if m.get('overlay') is not None:
        return dict(m['overlay'])               # a generated variant (alpha-renaming): the edited text itself
    overlay: Dict[str, str] = {}
    for rel, old, new in [(m['rel'], m['old'], m['new'])] + list(m['also']):
        src = overlay.get(rel, repo.src(rel))
        if src.count(old) != (m['count'] if rel == m['rel'] and old == m['old'] else 1):
            return None
        overlay[rel] = src.replace(old, new)
    return overlay


def _compiles(rel: str, text: str) -> bool:
    if rel.endswith('.py'):
        try:
            compile(text, rel, 'exec')
            return True
        except SyntaxError:
            return False
    if rel.endswith('.c'):
        import sysconfig
        with tempfile.TemporaryDirectory(prefix='fjverif-st-') as td:
            p = Path(td) / '_fjcore.c'
            p.write_text(text)
            r = subprocess.run(['clang', '-fsyntax-only', '-I' + sysconfig.get_paths()['include'], str(p)],
                               capture_output=True, text=True)
            return r.returncode == 0
    if rel.endswith('.fj'):
        from ..fjfront import lex, Parser
        try:
            toks, com = lex(text, rel)
            pp = Parser(toks, com, rel)
            pp.block()
            return pp.peek()[0] == 'EOF'
        except Exception:
            return False
    return True


def run_one(m: Dict[str, Any]) -> Dict[str, Any]:
    base = Repo()
    overlay = _apply(base, m)
    res = dict(prop=m['prop'], name=m['name'], expect=m['expect'])
    if overlay is None:
        return dict(res, status='STALE', detail='the edit no longer applies to the current source')
    for rel, text in overlay.items():
        if not _compiles(rel, text):
            return dict(res, status='BROKEN-VARIANT', detail=f'{rel} does not compile')
    repo = Repo(overlay=overlay)
    mod = importlib.import_module(f'fjverif.rules.{m["prop"].lower()}')
    rep = Report(m['prop'], 'quick')
    try:
        mod.check(rep, repo)
        for rule, floor in rep.floors.items():
            if rep.count(rule) < floor:
                raise AnalysisError(f'{rule}: {rep.count(rule)} instances < floor {floor}')
    except AnalysisError as e:
        if m['expect'] is None:
            return dict(res, status='FALSE-ALARM', detail=f'analysis error on an equivalent variant: {e}')
        return dict(res, status='ANALYSIS-ERROR', detail=str(e)[:300])
    known = load_known_findings()
    new = [i for i in rep.instances if not i.ok and _match_known(i, m['prop'], known) is None]
    if m['expect'] is None:
        if new:
            return dict(res, status='FALSE-ALARM', detail='; '.join(f'{i.rule}@{i.construct}: {i.fact}' for i in new[:3])[:400])
        return dict(res, status='SILENT-OK', detail='')
    hit = [i for i in new if i.rule == m['expect']]
    if hit:
        return dict(res, status='FIRED-OK', detail=f'{hit[0].rule}@{hit[0].construct} ({hit[0].site})')
    if new:
        return dict(res, status='FIRED-OTHER', detail='; '.join(f'{i.rule}@{i.construct}' for i in new[:3]))
    return dict(res, status='MISSED', detail='no rule fired')


def corpus(props: List[str]) -> List[Dict[str, Any]]:
    out: List[Dict[str, Any]] = []
    for p in props:
        try:
            mod = importlib.import_module(f'fjverif.selftest.m_{p.lower()}')
        except ModuleNotFoundError:
            continue
        out.extend(mod.MUTANTS)
    # behaviour-preserving refactorings contributed by independent sub-agents (tools_eq.py): must stay silent
    import json
    for f in sorted((Path(__file__).parent / 'equiv').glob('*.json')):
        rec = json.loads(f.read_text())
        eds = [tuple(e) for e in rec['edits']]
        for p in props:
            if p in rec['props']:
                out.append(M(p, rec['name'], eds[0][0], eds[0][1], eds[0][2], None, also=list(eds[1:])))
    out.extend(alpha_corpus(props))
    return out


def alpha_corpus(props: List[str]) -> List[Dict[str, Any]]:
    """for every file a property's check reads: each function / macro of it with all its locals renamed (generated from the current
    source; C additionally with the parameters of its static functions renamed)"""
    from . import alpha
    out: List[Dict[str, Any]] = []
    base = Repo()
    gen_cache: Dict[Any, List[Tuple[str, str]]] = {}
    for p in props:
        class Rec(Repo):
            def src(self, rel: str) -> str:
                seen.add(rel)
                return super().src(rel)
        seen: set = set()
        mod = importlib.import_module(f'fjverif.rules.{p.lower()}')
        try:
            mod.check(Report(p, 'quick'), Rec())
        except Exception:      # noqa: BLE001 - the check itself reports that; no variants then
            continue
        for rel in sorted(seen):
            for params in (False, True):
                if params and not rel.endswith('.c'):
                    continue
                key = (rel, params)
                if key not in gen_cache:
                    alpha.PARAMS = params
                    try:
                        text = base.src(rel)
                        gen_cache[key] = (alpha.py_variants(rel, text) if rel.endswith('.py') else alpha.c_variants(rel, text) if rel.endswith('.c')
                                          else alpha.fj_variants(rel, text) if rel.endswith('.fj') else [])
                    except Exception:      # noqa: BLE001
                        gen_cache[key] = []
                    alpha.PARAMS = False
                for q, new in gen_cache[key]:
                    out.append(dict(prop=p, name=f'ALPHA {rel.split("/")[-1]}:{q}' + (' (parameters)' if params else ''), rel=rel, old='', new='', expect=None,
                                    count=1, also=[], overlay={rel: new}))
            # comparisons turned round, if / else inverted, conditions named (python: all three plus the renames in one variant)
            key2 = (rel, 'rewrite')
            if key2 not in gen_cache:
                try:
                    text = base.src(rel)
                    gen_cache[key2] = (alpha.py_rewrites(rel, text, 'all') if rel.endswith('.py') else
                                       [(q_ + ' (comparisons)', t_) for q_, t_ in alpha.c_rewrites(rel, text, 'flip')] +
                                       [(q_ + ' (operand order)', t_) for q_, t_ in alpha.c_rewrites(rel, text, 'commute')] if rel.endswith('.c') else [])
                except Exception:      # noqa: BLE001
                    gen_cache[key2] = []
            for q, new in gen_cache[key2]:
                out.append(dict(prop=p, name=f'REWRITE {rel.split("/")[-1]}:{q}', rel=rel, old='', new='', expect=None, count=1, also=[], overlay={rel: new}))
    return out


def run_selftest(props: List[str], jobs: int = 16, verbose: bool = True) -> int:
    ms = corpus(props)
    if not ms:
        print(f'selftest: no variants registered for {props}')
        return 0
    t0 = time.time()
    with ProcessPoolExecutor(max_workers=min(jobs, len(ms))) as ex:
        results = list(ex.map(run_one, ms))
    bad = 0
    tally: Dict[str, int] = {}
    for r in results:
        tally[r['status']] = tally.get(r['status'], 0) + 1
        good = r['status'] in ('FIRED-OK', 'SILENT-OK')
        soft = r['status'] in ('STALE',)
        if not good and not soft:
            bad += 1
        if verbose or not good:
            print(f'  selftest {r["prop"]} {r["name"]:<44} {r["status"]:<15} {r["detail"]}')
    stale = tally.get('STALE', 0)
    print(f'selftest: {len(results)} variants, {tally}, {time.time() - t0:.1f}s')
    if stale > len(results) // 3:
        print('ANALYSIS-ERROR selftest: more than a third of the variants no longer apply to the current source')
        return 2
    if bad:
        print('ANALYSIS-ERROR selftest: the checker failed its own arming/equivalence self-test (see lines above)')
        return 2
    return 0
