from . import M
PRE = 'flipjump/assembler/preprocessor.py'
OPS = 'flipjump/assembler/inner_classes/ops.py'
EXPR = 'flipjump/assembler/inner_classes/expr.py'
PARSER = 'flipjump/assembler/fj_parser.py'
MUTANTS = [
    M('C03', 'rep iterator renamed after substitution', PRE, "            op = op.rename_iterator(hygienic_iterator)\n            op = op.eval_new(params_dict)\n",
      "            op = op.eval_new(params_dict)\n            op = op.rename_iterator(hygienic_iterator)\n", 'C03.RENAME-FIRST'),
    M('C03', 'hygienic iterator without the marker', PRE, 'f"{op.code_position.short_str()}:rep:{op.iterator_name}"', 'f"{op.code_position.short_str()}_{op.iterator_name}"', 'C03.FRESH-NAMES'),
    M('C03', 'hygienic iterator without the position', PRE, '            ) + f"{op.code_position.short_str()}:rep:{op.iterator_name}"', '            ) + f":rep:{op.iterator_name}"', 'C03.RENAME-FIRST'),
    M('C03', 'substitution re-substitutes the replacement', EXPR, "            return replacement if replacement is not None else self", "            return replacement.eval_new(params_dict) if replacement is not None else self", 'C03.SIMULT-SUBST'),
    M('C03', 'local label separator made an identifier char', 'flipjump/utils/constants.py', 'MACRO_SEPARATOR_STRING = "---"', 'MACRO_SEPARATOR_STRING = "___"', 'C03.FRESH-NAMES'),
    M('C03', 'wflip area label spelled like an identifier', PRE, "wflip_start_label = ':wflip_area_start:'", "wflip_start_label = 'wflip_area_start.'", 'C03.FRESH-NAMES'),
    M('C03', 'macro path without the line', OPS, '        return f"{self.file_short_name}:l{self.line}"', '        return f"{self.file_short_name}"', 'C03.PREFIX'),
    M('C03', 'rep path without the index', PRE, "next_macro_path.format(i)\n", "next_macro_path.format('')\n", 'C03.PREFIX'),
    M('C03', 'parser keeps the namespace stack across files', PARSER, "    curr_namespace = []\n\n    lex_res", "    lex_res", 'C03.FILE-STATE'),
    M('C03', 'EQ rename/eval chained', PRE, "            op = op.rename_iterator(hygienic_iterator)\n            op = op.eval_new(params_dict)\n",
      "            op = op.rename_iterator(hygienic_iterator)\n            op = op.eval_new(params_dict)  # substitute params after the rename\n", None),
]
