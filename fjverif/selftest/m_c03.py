from . import M
PRE = 'flipjump/assembler/preprocessor.py'
OPS = 'flipjump/assembler/inner_classes/ops.py'
EXPR = 'flipjump/assembler/inner_classes/expr.py'
PARSER = 'flipjump/assembler/fj_parser.py'
MUTANTS = [
    M('C03', 'rep iterator renamed after substitution', PRE, "            op = op.rename_iterator(hygienic_iterator)\n            op = op.eval_new(params_dict)\n",
      "            op = op.eval_new(params_dict)\n            op = op.rename_iterator(hygienic_iterator)\n", 'C03.RENAME-FIRST'),
    M('C03', 'hygienic iterator without the marker', PRE, 'f"{op.code_position.short_str()}:rep:{op.iterator_name}"', 'f"{op.code_position.short_str()}_{op.iterator_name}"', 'C03.FRESH-NAMES'),
    M('C03', 'hygienic iterator without the position', PRE, '            ) + f"{op.code_position.short_str()}:rep:{op.iterator_name}"', '            ) + f":rep:{op.iterator_name}"', 'C03.RENAME-FIRST'),
    M('C03', 'substitution re-substitutes the replacement', EXPR, "            return replacement if replacement is not None else self", "            return replacement.eval_new(params_dict) if replacement is not None else self", 'C03.SIMULT-SUBST'),
    M('C03', 'local label separator made an identifier char', 'flipjump/utils/constants.py', 'MACRO_SEPARATOR_STRING = "---"', 'MACRO_SEPARATOR_STRING = "___"', 'C03.FRESH-NAMES'),
    M('C03', 'wflip area label spelled like an identifier', PRE, "wflip_start_label = ':wflip_area_start:'", "wflip_start_label = 'wflip_area_start.'", 'C03.FRESH-NAMES'),
    M('C03', 'macro path without the line', OPS, '        return f"{self.file_short_name}:l{self.line}"', '        return f"{self.file_short_name}"', 'C03.PREFIX'),
    M('C03', 'rep path without the index', PRE, "next_macro_path.format(i)\n", "next_macro_path.format('')\n", 'C03.PREFIX'),
    M('C03', 'parser keeps the namespace stack across files', PARSER, "    curr_namespace = []\n\n    lex_res", "    lex_res", 'C03.FILE-STATE'),
    M('C03', 'wflip shares self although the destination changed (seed C03_1)', OPS,
      "        if (\n            word_address is self.word_address\n            and flip_value is self.flip_value\n            and return_address is self.return_address\n        ):",
      "        if flip_value is self.flip_value and return_address is self.return_address:", 'C03.SUBST-COMPLETE'),
    M('C03', 'flip;jump shares self when only the flip is unchanged', OPS, "        if flip is self.flip and jump is self.jump:", "        if flip is self.flip:", 'C03.SUBST-COMPLETE'),
    M('C03', 'rep count not substituted', OPS, "            self.repeat_times.eval_new(labels_dict),\n            self.iterator_name,", "            self.repeat_times,\n            self.iterator_name,", 'C03.SUBST-COMPLETE'),
    M('C03', 'macro call arguments not substituted', OPS, "self.macro_name.name, [arg.eval_new(labels_dict) for arg in self.arguments], self.code_position", "self.macro_name.name, list(self.arguments), self.code_position", 'C03.SUBST-COMPLETE'),
    M('C03', 'pad operand not substituted', OPS, "        return Pad(self.ops_alignment.eval_new(labels_dict), self.code_position)", "        return Pad(self.ops_alignment, self.code_position)", 'C03.SUBST-COMPLETE'),
    M('C03', 'wflip builds the new op with the old return address', OPS, "        return WordFlip(word_address, flip_value, return_address, self.code_position)", "        return WordFlip(word_address, flip_value, self.return_address, self.code_position)", 'C03.SUBST-COMPLETE'),
    M('C03', 'operator node shared when only the LAST argument is unchanged', EXPR, "            if evaluated_arg is not arg:\n                unchanged = False", "            unchanged = evaluated_arg is arg", 'C03.SUBST-COMPLETE'),
    M('C03', 'EQ flip;jump guard operands swapped', OPS, "        if flip is self.flip and jump is self.jump:", "        if jump is self.jump and flip is self.flip:", None),
    M('C03', 'relative names limited to two leading dots (seed C03_2)', PARSER, "dot_id_re = fr'(({id_re})|\\.*)?(\\.({id_re}))+'", "dot_id_re = fr'(({id_re})|\\.)?(\\.({id_re}))+'", 'C03.REL-NAMES'),
    M('C03', 'resolver drops one namespace level too many', PARSER, "        return '.'.join(curr_namespace[: len(curr_namespace) - (num_of_dots - 1)] + [without_dots])", "        return '.'.join(curr_namespace[: len(curr_namespace) - num_of_dots] + [without_dots])", 'C03.REL-NAMES'),
    M('C03', 'EQ resolver slice bound spelled differently', PARSER, "        return '.'.join(curr_namespace[: len(curr_namespace) - (num_of_dots - 1)] + [without_dots])", "        return '.'.join(curr_namespace[: len(curr_namespace) + 1 - num_of_dots] + [without_dots])", None),
    M('C03', 'EQ rename/eval chained', PRE, "            op = op.rename_iterator(hygienic_iterator)\n            op = op.eval_new(params_dict)\n",
      "            op = op.rename_iterator(hygienic_iterator)\n            op = op.eval_new(params_dict)  # substitute params after the rename\n", None),
    M('C03', 'a rep iterator is no longer compared with the constants (F25 returns)', 'flipjump/assembler/fj_parser.py',
      "        macro_name, lineno = p.id\n        self.validate_rep_iterator(p.ID, lineno)\n        code_position = get_position(lineno)\n        return RepCall(p.expr, p.ID, macro_name, p.expressions, code_position)",
      "        macro_name, lineno = p.id\n        code_position = get_position(lineno)\n        return RepCall(p.expr, p.ID, macro_name, p.expressions, code_position)", 'C03.BINDERS'),
    M('C03', 'EQ the rep iterator test written in the rule itself', 'flipjump/assembler/fj_parser.py',
      "        macro_name, lineno = p.id\n        self.validate_rep_iterator(p.ID, lineno)\n        code_position = get_position(lineno)\n        return RepCall(p.expr, p.ID, macro_name, [], code_position)",
      "        macro_name, lineno = p.id\n        if p.ID in self.consts:\n            syntax_error(lineno, f'rep iterator {p.ID} is also defined as a constant variable (with value {self.consts[p.ID]})')\n        code_position = get_position(lineno)\n        return RepCall(p.expr, p.ID, macro_name, [], code_position)", None),
]
