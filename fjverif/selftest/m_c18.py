from . import M
RUN = 'flipjump/interpreter/fjm_run.py'
C = 'flipjump/interpreter/_fjcore.c'
MUTANTS = [
    M('C18', 'run: library exceptions wrapped instead of re-raised', RUN,
      "    except FlipJumpException as fj_exception:\n        raise fj_exception\n    except KeyboardInterrupt:\n        return TerminationStatistics(statistics, TerminationCause.KeyboardInterrupt)",
      "    except KeyboardInterrupt:\n        return TerminationStatistics(statistics, TerminationCause.KeyboardInterrupt)", 'C18.CLASSIFY'),
    M('C18', 'run: handler order swapped (memory exception after library exception)', RUN,
      """    except FlipJumpRuntimeMemoryException as mem_e:
        return TerminationStatistics(
            statistics, TerminationCause.RuntimeMemoryError, memory_error_address=mem_e.memory_address
        )
    except FlipJumpException as fj_exception:
        raise fj_exception
""",
      """    except FlipJumpException as fj_exception:
        raise fj_exception
    except FlipJumpRuntimeMemoryException as mem_e:
        return TerminationStatistics(
            statistics, TerminationCause.RuntimeMemoryError, memory_error_address=mem_e.memory_address
        )
""", 'C18.CLASSIFY'),
    M('C18', 'fast: finally no longer publishes the op count', RUN,
      "    finally:\n        # keep op_counter valid on the exception paths too (memory errors, Ctrl+C)\n        statistics.op_counter = ops\n",
      "    finally:\n        pass\n", 'C18.FINALLY'),
    M('C18', 'native: finally restores op_counter from the wrong source', RUN,
      "        statistics.op_counter = core.last_run_op_count\n", "        statistics.op_counter = 0\n", 'C18.FINALLY'),
    M('C18', 'fast: device errors swallowed around output', RUN,
      "                if flip_address >= dw:\n                    io_write_bit(out1 == flip_address)\n",
      "                if flip_address >= dw:\n                    try:\n                        io_write_bit(out1 == flip_address)\n                    except Exception:\n                        pass\n", 'C18.CLASSIFY'),
    M('C18', 'flat C: failed output callback continues the op', C,
      "        PyObject* result = PyObject_CallFunctionObjArgs(write_bit, (f == dw + 1) ? Py_True : Py_False, NULL);\n        if (!result) {\n            goto done;\n        }\n        Py_DECREF(result);\n        goto after_output;",
      "        PyObject* result = PyObject_CallFunctionObjArgs(write_bit, (f == dw + 1) ? Py_True : Py_False, NULL);\n        if (!result) {\n            goto after_output;\n        }\n        Py_DECREF(result);\n        goto after_output;", 'C18.CFAIL'),
    M('C18', 'paged C: exit that skips publishing the op count', C,
      "loop_done:\n    self->last_run_op_count = ops;\n", "loop_done:\n", 'C18.FINALLY'),
    M('C18', 'measured C: any callback error is cleared', C,
      "            if (!result) {\n                if (PyErr_ExceptionMatches(eof_exception_type)) {\n                    PyErr_Clear();\n                    cause = TERM_EOF;\n                    goto done;\n                }\n                goto done;\n            }\n            bit_value = PyObject_IsTrue(result);\n            Py_DECREF(result);\n            if (bit_value < 0) {\n                goto done;\n            }\n            if (mem_write_bit(self, in_addr, bit_value) < 0) {\n                goto memory_error;\n            }\n        }\n\n        /* FLIP! */",
      "            if (!result) {\n                PyErr_Clear();\n                cause = TERM_EOF;\n                goto done;\n            }\n            bit_value = PyObject_IsTrue(result);\n            Py_DECREF(result);\n            if (bit_value < 0) {\n                goto done;\n            }\n            if (mem_write_bit(self, in_addr, bit_value) < 0) {\n                goto memory_error;\n            }\n        }\n\n        /* FLIP! */", 'C18.CFAIL'),
    M('C18', 'flat C: cold block re-enters the loop head without the budget', C,
      "    cold_maybe_looping:\n        if (f >= ip && f - ip < dw) {\n            goto not_looping; /* the op flips its own words - not a halt */\n        }\n        cause = TERM_LOOPING;\n        goto done;\n    }\n\nmemory_error:",
      "    cold_maybe_looping:\n        if (f >= ip && f - ip < dw) {\n            goto not_looping; /* the op flips its own words - not a halt */\n        }\n        cause = TERM_LOOPING;\n        goto done;\n    }\n    inner_left = 0;\n\nmemory_error:", 'C18.SIGNAL'),
    M('C18', 'C: signal cadence widened', C, "#define SIGNAL_CHECK_MASK 0x3FFFFull", "#define SIGNAL_CHECK_MASK 0x3FFFFFFFFFull", 'C18.SIGNAL'),
    M('C18', 'EQ run: re-raise spelled bare', RUN, "    except FlipJumpException as fj_exception:\n        raise fj_exception\n",
      "    except FlipJumpException as fj_exception:\n        raise\n", None),
    M('C18', 'native exception path no longer reports the last ops (F09 reverted)', 'flipjump/interpreter/fjm_run.py', "    except BaseException:\n        if last_ops is not None:\n            last_ops.extend(core.last_run_last_ops)  # the ops executed before the exception\n        raise\n", "", 'C18.STATS-ON-RAISE'),
    M('C18', 'the last-ops handler swallows the exception', 'flipjump/interpreter/fjm_run.py', "            last_ops.extend(core.last_run_last_ops)  # the ops executed before the exception\n        raise\n", "            last_ops.extend(core.last_run_last_ops)  # the ops executed before the exception\n        return TerminationStatistics(statistics, TerminationCause.KeyboardInterrupt)\n", 'C18.CLASSIFY'),
    M('C18', 'python-error branch drops the fetched exception', 'flipjump/interpreter/_fjcore.c', "            PyErr_Restore(error_type, error_value, error_traceback);\n            free(last_ops_ring);\n            return NULL;", "            free(last_ops_ring);\n            return NULL;", 'C18.CFAIL'),
    M('C18', 'kept list is not cleared between runs', 'flipjump/interpreter/_fjcore.c', "    Py_CLEAR(self->last_run_last_ops);\n", "", 'C18.KEPT-RING'),
    M('C18', 'kept list built with the wrong write count', 'flipjump/interpreter/_fjcore.c', "self->last_run_last_ops = last_ops_ring_to_list(last_ops_ring, last_ops_length, loop_ring_writes);", "self->last_run_last_ops = last_ops_ring_to_list(last_ops_ring, last_ops_length, loop_ops);", 'C18.KEPT-RING'),
]
