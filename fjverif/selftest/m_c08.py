from . import M
P = 'flipjump/stl/hex/pointers/'
MUTANTS = [
    M('C08', 'push_hex writes before incrementing sp', P + 'stack.fj', "        .sp_inc\n        .write_hex hex.pointers.sp, hex", "        .write_hex hex.pointers.sp, hex\n        .sp_inc", 'C08.SP'),
    M('C08', 'pop_byte forgets to decrement sp', P + 'stack.fj', "        .read_byte byte, hex.pointers.sp\n        .sp_dec", "        .read_byte byte, hex.pointers.sp", 'C08.SP'),
    M('C08', 'push n pushes the odd hex twice', P + 'stack.fj', "        rep(n%2, i) .push_hex hex+(n-1)*dw", "        rep(n%2+n%2, i) .push_hex hex+(n-1)*dw", 'C08.SP'),
    M('C08', 'pop n reads cells in push order', P + 'stack.fj', "        rep(n/2, i) .pop_byte hex+(n-n%2-2*(i+1))*dw", "        rep(n/2, i) .pop_byte hex+2*i*dw", 'C08.SP'),
    M('C08', 'ptr_inc advances by one word', P + 'pointer_arithmetics.fj', "        hex.add_constant w/4, ptr, dw", "        hex.add_constant w/4, ptr, w", 'C08.PTR-STRIDE'),
    M('C08', 'ptr_sub over half the pointer', P + 'pointer_arithmetics.fj', "        hex.sub_constant w/4, ptr, value * dw", "        hex.sub_constant w/8, ptr, value * dw", 'C08.PTR-STRIDE'),
    M('C08', 'ptr_index scales by w', P + 'pointer_arithmetics.fj', "        rep(8-#w, i) .shr_bit w/4, dst", "        rep(9-#w, i) .shr_bit w/4, dst", 'C08.PTR-STRIDE'),
    M('C08', 'call with args forgets to drop them', 'flipjump/stl/ptrlib.fj', "hex.sp_sub", "hex.sp_add", 'C08.SP'),
    M('C08', 'sp_dec decrements another pointer', P + 'stack.fj', "        .ptr_dec hex.pointers.sp", "        .ptr_dec hex.pointers.to_flip", 'C08.SP'),
    M('C08', 'zero_ptr clears the low hex only (seed C08_2)', 'flipjump/stl/hex/pointers/write_pointers.fj', "        .pointers.read_byte_from_inners_ptrs\n        .pointers.xor_byte_to_flip_ptr hex.pointers.read_byte\n    }\n\n    //  Time Complexity: w(0.75@+5)  + 17@+37", "        .pointers.read_byte_from_inners_ptrs\n        .pointers.xor_hex_to_flip_ptr hex.pointers.read_byte\n    }\n\n    //  Time Complexity: w(0.75@+5)  + 17@+37", 'C08.CELL-WIDTH'),
    M('C08', 'write_byte xors back one hex only', 'flipjump/stl/hex/pointers/write_pointers.fj', "        .xor 2, hex.pointers.read_byte, src\n        .pointers.xor_byte_to_flip_ptr hex.pointers.read_byte", "        .xor 2, hex.pointers.read_byte, src\n        .pointers.xor_hex_to_flip_ptr hex.pointers.read_byte", 'C08.CELL-WIDTH'),
    M('C08', 'xor_byte_to_flip_ptr shifts the second hex by 8', 'flipjump/stl/hex/pointers/xor_to_pointer.fj', "            rep(2, i) .xor_hex_to_flip_ptr hex+i*dw, 4*i", "            rep(2, i) .xor_hex_to_flip_ptr hex+i*dw, 8*i", 'C08.CELL-WIDTH'),
    M('C08', 'EQ push n stride spelled i*2*dw', 'flipjump/stl/hex/pointers/stack.fj', "        rep(n/2, i) .push_byte hex+2*i*dw", "        rep(n/2, i) .push_byte hex+i*2*dw", None),
    M('C08', 'EQ pop n offset with the product expanded', 'flipjump/stl/hex/pointers/stack.fj', "        rep(n/2, i) .pop_byte hex+(n-n%2-2*(i+1))*dw", "        rep(n/2, i) .pop_byte hex+(n-n%2-2*i-2)*dw", None),
    M('C08', 'bit.ptr_inc carry chain one bit short (seed C08_4)', 'flipjump/stl/bit/pointers.fj', "        .inc w-#w, ptr+(#w)*dw", "        .inc w-#dw, ptr+(#dw-1)*dw", 'C08.PTR-STRIDE'),
    M('C08', 'bit.ptr_dec starts one bit too low', 'flipjump/stl/bit/pointers.fj', "        .dec w-#w, ptr+(#w)*dw", "        .dec w-#w+1, ptr+(#w-1)*dw", 'C08.PTR-STRIDE'),
    M('C08', 'EQ bit.ptr_inc spelled with #dw', 'flipjump/stl/bit/pointers.fj', "        .inc w-#w, ptr+(#w)*dw", "        .inc w-(#dw-1), ptr+(#dw-1)*dw", None),
]
