from . import M
CLI = 'flipjump/flipjump_cli.py'
QS = 'flipjump/flipjump_quickstart.py'
MUTANTS = [
    M('C20', 'cli: lzma preset not passed to the Writer', CLI, "        flags=args.flags,\n        lzma_preset=args.lzma_preset,\n", "        flags=args.flags,\n", 'C20.SINKS'),
    M('C20', 'cli: width hard-coded for the assembler', CLI, "    assembler.assemble(\n        file_tuples,\n        args.width,", "    assembler.assemble(\n        file_tuples,\n        64,", 'C20.SINKS'),
    M('C20', 'cli: silent inverted for the run', CLI, "        print_termination=not args.silent,", "        print_termination=args.silent,", 'C20.SINKS'),
    M('C20', 'cli: breakpoint sets crossed', CLI, "        breakpoints=set(args.breakpoint),\n        breakpoints_contains=set(args.breakpoint_contains),",
      "        breakpoints=set(args.breakpoint_contains),\n        breakpoints_contains=set(args.breakpoint),", 'C20.SINKS'),
    M('C20', 'cli: version default ignores the outfile', CLI, "        get_version(args.version, args.outfile is not None, error_func),", "        get_version(args.version, True, error_func),", 'C20.SINKS'),
    M('C20', 'cli: default width 32', CLI, "        default=64,\n        choices=[8, 16, 32, 64],", "        default=32,\n        choices=[8, 16, 32, 64],", 'C20.DEFAULTS'),
    M('C20', 'cli: outfile default version is normal', CLI, "    if is_outfile_specified:\n        return FJMVersion.CompressedVersion\n    return FJMVersion.NormalVersion", "    if is_outfile_specified:\n        return FJMVersion.NormalVersion\n    return FJMVersion.NormalVersion", 'C20.VERSION-DEFAULT'),
    M('C20', 'api: assemble_and_run drops max_recursion_depth', QS,
      "        print_time=print_time,\n        max_recursion_depth=max_recursion_depth,\n        io_device=io_device,\n        show_trace=show_trace,\n        print_termination=print_termination,\n        last_ops_debugging_list_length=last_ops_debugging_list_length,\n    )\n\n\ndef assemble_and_debug(",
      "        print_time=print_time,\n        io_device=io_device,\n        show_trace=show_trace,\n        print_termination=print_termination,\n        last_ops_debugging_list_length=last_ops_debugging_list_length,\n    )\n\n\ndef assemble_and_debug(", 'C20.FORWARD'),
    M('C20', 'api: run forwards profile as trace', QS, "        show_trace=show_trace,\n        print_time=print_time,\n        print_termination=print_termination,\n        last_ops_debugging_list_length=last_ops_debugging_list_length,\n        profile=profile,\n        flat_max_words=flat_max_words,\n    )\n\n\ndef debug(",
      "        show_trace=profile,\n        print_time=print_time,\n        print_termination=print_termination,\n        last_ops_debugging_list_length=last_ops_debugging_list_length,\n        profile=profile,\n        flat_max_words=flat_max_words,\n    )\n\n\ndef debug(", 'C20.FORWARD'),
    M('C20', 'api: Writer width differs from the assembler width', QS, "    fjm_writer = Writer(output_fjm_path, memory_width, fjm_version)", "    fjm_writer = Writer(output_fjm_path, 64, fjm_version)", 'C20.WIDTH-ONE'),
    M('C20', 'api: one wrapper defaults to width 32', QS, "def assemble_and_debug(\n    fj_file_paths: List[Path],\n    *,\n    memory_width: int = 64,", "def assemble_and_debug(\n    fj_file_paths: List[Path],\n    *,\n    memory_width: int = 32,", 'C20.DEFAULTS'),
    M('C20', 'cli: --asm still runs', CLI, "        if not args.asm:\n            run(in_fjm_path, debug_path, args, error_func)", "        if not args.run:\n            run(in_fjm_path, debug_path, args, error_func)", 'C20.FLOWS'),
    M('C20', 'cli: option defined but never read', CLI, "        show_statistics=args.stats,\n", "        show_statistics=False,\n", 'C20.SINKS'),
    M('C20', 'silent mode also drops the implicit debug file (seed C20_2)', 'flipjump/flipjump_cli.py', "            print(f\"{parser_warning} Debugging data will be saved.\")\n        debug_file = ''", "            print(f\"{parser_warning} Debugging data will be saved.\")\n            debug_file = ''", 'C20.REPORT-ONLY'),
    M('C20', 'print_termination also decides the returned value', 'flipjump/flipjump_quickstart.py', "    if print_termination:\n", "    if print_termination:\n        return termination_statistics\n", 'C20.REPORT-ONLY'),
    M('C20', 'EQ silent warning text bound outside the gate', 'flipjump/flipjump_cli.py', "        if not args.silent:\n            parser_warning = 'Parser Warning - breakpoints are used but the debugging flag (-d) is not specified.'\n", "        parser_warning = 'Parser Warning - breakpoints are used but the debugging flag (-d) is not specified.'\n        if not args.silent:\n", None),
    M('C20', 'temporary debug file only in assemble-only runs (mutation survey)', 'flipjump/flipjump_cli.py', "    debug_file_needed = not args.asm and any((args.breakpoint, args.breakpoint_contains))", "    debug_file_needed = args.asm and any((args.breakpoint, args.breakpoint_contains))", 'C20.DEBUG-FILE'),
    M('C20', 'EQ breakpoint test spelled with or', 'flipjump/flipjump_cli.py', "    debug_file_needed = not args.asm and any((args.breakpoint, args.breakpoint_contains))", "    debug_file_needed = not args.asm and bool(args.breakpoint or args.breakpoint_contains)", None),
]
