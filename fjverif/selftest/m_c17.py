from . import M
D = 'flipjump/interpreter/io_devices/'
MUTANTS = [
    M('C17', 'keyboard queue served from the tail (the newest bit first)', D + 'KeyboardIO.py',
      "        return self._pending_input_bits.popleft()", "        return self._pending_input_bits.pop()", 'C17.EOF'),
    M('C17', 'EQ keyboard queue is a list served with pop(0), one shared `queue n bits` helper', D + 'KeyboardIO.py',
      "        return self._pending_input_bits.popleft()", "        return self._pending_input_bits.pop(0)", None,
      also=[(D + 'KeyboardIO.py', "        self._pending_input_bits: Deque[bool] = deque()", "        self._pending_input_bits: List[bool] = []")]),
    M('C17', 'keyboard queue bound at class level: one deque for every device (seed C17_7)', D + 'KeyboardIO.py',
      """    def __init__(self, event_source: KeyEventSource):
        self.event_source = event_source

        self.tic = 0
        self._pending_input_bits: Deque[bool] = deque()
""", """    tic: int = 0
    _pending_input_bits: Deque[bool] = deque()

    def __init__(self, event_source: KeyEventSource):
        self.event_source = event_source
""", 'C17.INSTANCE-STATE'),
    M('C17', 'EQ keyboard queue declared at class level, created per instance in __init__', D + 'KeyboardIO.py',
      """    def __init__(self, event_source: KeyEventSource):
        self.event_source = event_source

        self.tic = 0
        self._pending_input_bits: Deque[bool] = deque()
""", """    tic: int = 0
    _pending_input_bits: Deque[bool] = deque()

    def __init__(self, event_source: KeyEventSource):
        self.event_source = event_source

        self._pending_input_bits = deque()
""", None),
    M('C17', 'EQ keyboard queue only annotated at class level', D + 'KeyboardIO.py',
      """    def __init__(self, event_source: KeyEventSource):
        self.event_source = event_source
""", """    _pending_input_bits: Deque[bool]

    def __init__(self, event_source: KeyEventSource):
        self.event_source = event_source
""", None),
    M('C17', 'FixedIO packs msb-first', D + 'FixedIO.py', "        self.current_output_byte |= bit << self.bits_to_write_in_output_byte\n",
      "        self.current_output_byte |= bit << (7 - self.bits_to_write_in_output_byte)\n", 'C17.PACK'),
    M('C17', 'StandardIO flushes at 7 bits', D + 'StandardIO.py', "        if 8 == self.bits_to_write_in_output_byte:", "        if 7 == self.bits_to_write_in_output_byte:", 'C17.PACK'),
    M('C17', 'KeyboardIO forgets to reset the accumulator', D + 'KeyboardIO.py', "            self._current_output_byte = 0\n            self._output_bits_count = 0\n", "            self._output_bits_count = 0\n", 'C17.PACK'),
    M('C17', 'screen resets before emitting', D + 'ScreenIO.py', "            byte, self._current_byte, self._bits_count = self._current_byte, 0, 0\n            self._handle_byte(byte)",
      "            self._current_byte, self._bits_count = 0, 0\n            self._handle_byte(self._current_byte)", 'C17.PACK'),
    M('C17', 'FixedIO reads msb-first', D + 'FixedIO.py', "        bit = (self.current_input_byte & 1) == 1\n        self.current_input_byte >>= 1\n",
      "        bit = (self.current_input_byte & 128) == 128\n        self.current_input_byte <<= 1\n", 'C17.UNPACK'),
    M('C17', 'FixedIO EOF raised one byte early', D + 'FixedIO.py', "            if not self.remaining_input:", "            if len(self.remaining_input) <= 1:", 'C17.EOF'),
    M('C17', 'StandardIO incomplete check inverted', D + 'StandardIO.py', "        if not allow_incomplete_output and 0 != self.bits_to_write_in_output_byte:",
      "        if allow_incomplete_output and 0 != self.bits_to_write_in_output_byte:", 'C17.INCOMPLETE'),
    M('C17', 'keyboard: tic not advanced when idle', D + 'KeyboardIO.py',
      "        event = self.event_source.next_due_event(self.tic)\n        self.tic += 1\n        if event is None:\n            self._queue_input_hex(self.NO_KEY_STATUS)\n            return\n",
      "        event = self.event_source.next_due_event(self.tic)\n        if event is None:\n            self._queue_input_hex(self.NO_KEY_STATUS)\n            return\n        self.tic += 1\n", 'C17.KBD'),
    M('C17', 'keyboard: keycode queued before the status', D + 'KeyboardIO.py',
      "        self._queue_input_hex(self.KEY_DOWN_STATUS if is_down else self.KEY_UP_STATUS)\n        self._queue_input_byte(keycode)\n",
      "        self._queue_input_byte(keycode)\n        self._queue_input_hex(self.KEY_DOWN_STATUS if is_down else self.KEY_UP_STATUS)\n", 'C17.KBD'),
    M('C17', 'keyboard: nibble queued msb-first', D + 'KeyboardIO.py', "        for i in range(4):\n            self._pending_input_bits.append((value >> i) & 1 == 1)",
      "        for i in range(3, -1, -1):\n            self._pending_input_bits.append((value >> i) & 1 == 1)", 'C17.UNPACK'),
    M('C17', 'scripted source delivers strictly after the tic', D + 'KeyboardIO.py', "self.events[self._next_index].tic <= tic:", "self.events[self._next_index].tic < tic:", 'C17.KBD'),
    M('C17', 'EQ FixedIO flush test operand order', D + 'FixedIO.py', "        if 8 == self.bits_to_write_in_output_byte:", "        if self.bits_to_write_in_output_byte == 8:", None),
    M('C17', 'StandardIO collects its output through the default codec (seed C17_4)', D + 'StandardIO.py', "            self._output += curr_output\n", "            self._output += chr(self.current_output_byte).encode()\n", 'C17.CODEC'),
    M('C17', 'StandardIO reads its input through utf-8', D + 'StandardIO.py', "stdin.read(1).encode(encoding=IO_BYTES_ENCODING)", "stdin.read(1).encode('utf-8')", 'C17.CODEC'),
    M('C17', 'the io codec constant is utf-8', 'flipjump/utils/constants.py', "IO_BYTES_ENCODING = 'raw_unicode_escape'", "IO_BYTES_ENCODING = 'utf-8'", 'C17.CODEC'),
    M('C17', 'EQ FixedIO appends the byte through bytes([..])', D + 'FixedIO.py', "self._output += self.current_output_byte.to_bytes(1, 'little')", "self._output += bytes([self.current_output_byte])", None),
    M('C17', 'EQ StandardIO appends chr(..) encoded with the io codec', D + 'StandardIO.py', "            self._output += curr_output\n", "            self._output += chr(self.current_output_byte).encode(IO_BYTES_ENCODING)\n", None),
]
