from . import M
B = 'flipjump/stl/bit/'
MUTANTS = [
    M('C05', 'bit vector zero stops one short', B + 'memory.fj', "        rep(n, i) .zero x+i*dw", "        rep(n-1, i) .zero x+i*dw", 'C05.EXTENT'),
    M('C05', 'bit vector xor wrong stride', B + 'logics.fj', "        rep(n, i) .xor dst+dw*i, src+dw*i", "        rep(n, i) .xor dst+dw*i, src+w*i", 'C05.EXTENT'),
    M('C05', 'bit inc calls a missing overload', B + 'math.fj', "        rep(n, i) .inc.inc1_with_carry0_jump x+i*dw, carry, end", "        rep(n, i) .inc.inc1_with_carry0_jump x+i*dw, carry", 'C05.CLOSURE'),
    M('C05', 'bit add touches cell -1', B + 'math.fj', "        rep(n, i) .add1 dst+i*dw, src+i*dw, carry\n", "        rep(n, i) .add1 dst+(i-1)*dw, src+i*dw, carry\n", 'C05.EXTENT', count=2),
    M('C05', 'EQ swap stride spelled dw*i', B + 'memory.fj', "        rep(n, i) .swap a+i*dw, b+i*dw", "        rep(n, i) .swap a+dw*i, b+i*dw", None),
]
