from . import M
B = 'flipjump/stl/bit/'
MUTANTS = [
    M('C05', 'bit vector zero stops one short', B + 'memory.fj', "        rep(n, i) .zero x+i*dw", "        rep(n-1, i) .zero x+i*dw", 'C05.EXTENT'),
    M('C05', 'bit vector xor wrong stride', B + 'logics.fj', "        rep(n, i) .xor dst+dw*i, src+dw*i", "        rep(n, i) .xor dst+dw*i, src+w*i", 'C05.EXTENT'),
    M('C05', 'bit inc calls a missing overload', B + 'math.fj', "        rep(n, i) .inc.inc1_with_carry0_jump x+i*dw, carry, end", "        rep(n, i) .inc.inc1_with_carry0_jump x+i*dw, carry", 'C05.CLOSURE'),
    M('C05', 'bit add touches cell -1', B + 'math.fj', "        rep(n, i) .add1 dst+i*dw, src+i*dw, carry\n", "        rep(n, i) .add1 dst+(i-1)*dw, src+i*dw, carry\n", 'C05.EXTENT', count=2),
    M('C05', 'bit.add no longer clears its private carry (seed C05_1)', B + 'math.fj', "        .zero carry\n        rep(n, i) .add1 dst+i*dw, src+i*dw, carry\n", "        rep(n, i) .add1 dst+i*dw, src+i*dw, carry\n", 'C05.SCRATCH'),
    M('C05', 'bit.sub no longer sets its private carry', B + 'math.fj', "        .not n, src\n        .one carry\n", "        .not n, src\n", 'C05.SCRATCH'),
    M('C05', 'bit.inc toggles the carry instead of setting it', B + 'math.fj', "        .one carry\n        rep(n, i) .inc.inc1_with_carry0_jump", "        .not carry\n        rep(n, i) .inc.inc1_with_carry0_jump", 'C05.SCRATCH'),
    M('C05', 'bit.mul clears one cell less of its accumulator', B + 'mul.fj', "        .zero n, res\n", "        .zero n-1, res\n", 'C05.SCRATCH', count=2),
    M('C05', 'EQ bit.add clears the carry through the vector form', B + 'math.fj', "        .zero carry\n        rep(n, i) .add1 dst+i*dw, src+i*dw, carry\n", "        .zero 1, carry\n        rep(n, i) .add1 dst+i*dw, src+i*dw, carry\n", None),
    M('C05', 'bit.shl copies with the unguarded mov (seed C05_2)', B + 'shifts.fj', "        rep(n-times, i) .mov x+(n-1-i)*dw, x+(n-1-i-times)*dw", "        rep(n-times, i) .unsafe_mov x+(n-1-i)*dw, x+(n-1-i-times)*dw", 'C05.ALIAS'),
    M('C05', 'EQ swap stride spelled dw*i', B + 'memory.fj', "        rep(n, i) .swap a+i*dw, b+i*dw", "        rep(n, i) .swap a+dw*i, b+i*dw", None),
    M('C05', 'bit.exact_xor no longer gives the jump word of src back', B + 'logics.fj', "      cleanup:\n        wflip src+w, base_jump_label\n    }", "      cleanup:\n    }", 'C05.JW-RESTORE', count=2),
    M('C05', 'signed divisions sample the sign of b after a was negated in place (seed C05_3)', B + 'div.fj', "        .mov negative_b, b+dw*(n-1)\n        .zero one_negative\n\n        .if0 negative_a, neg_b_1\n        .not one_negative\n        .neg n, a\n      neg_b_1:\n", "        .zero one_negative\n\n        .if0 negative_a, neg_b_1\n        .not one_negative\n        .neg n, a\n      neg_b_1:\n        .mov negative_b, b+dw*(n-1)\n", 'C05.SNAPSHOT', count=2),
    M('C05', 'EQ signed divisions sample the sign of b first', B + 'div.fj', "        .mov negative_a, a+dw*(n-1)\n        .mov negative_b, b+dw*(n-1)\n", "        .mov negative_b, b+dw*(n-1)\n        .mov negative_a, a+dw*(n-1)\n", None, count=2),
    M('C05', 'EQ signed divisions clear the flag before sampling', B + 'div.fj', "        .mov negative_a, a+dw*(n-1)\n        .mov negative_b, b+dw*(n-1)\n        .zero one_negative\n", "        .zero one_negative\n        .mov negative_a, a+dw*(n-1)\n        .mov negative_b, b+dw*(n-1)\n", None, count=2),
    M('C05', 'bit.mov n loses its same-address guard while the doc still says it works', B + 'memory.fj', "    def mov n, dst, src @ end {\n        stl.comp_if1 dst==src, end\n        rep(n, i) .unsafe_mov dst+i*dw, src+i*dw\n      end:\n    }", "    def mov n, dst, src {\n        rep(n, i) .unsafe_mov dst+i*dw, src+i*dw\n    }", 'C05.ALIAS-SAFE'),
    M('C05', 'mul_loop adds into the low half of its accumulator', 'flipjump/stl/bit/mul.fj', "        .add n, res, dst          //Comp: n(8@+14)", "        .add n-1, res, dst          //Comp: n(8@+14)", 'C05.CARRY-TOP'),
]
