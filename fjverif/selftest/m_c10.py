from . import M
R = 'flipjump/fjm/fjm_reader.py'
RUN = 'flipjump/interpreter/fjm_run.py'
MUTANTS = [
    M('C10', 'reader: struct.error no longer mapped', R, "        except struct.error as se:", "        except ZeroDivisionError as se:", 'C10.ESCAPE'),
    M('C10', 'reader: version conversion unwrapped', R,
      "        try:\n            self.version = FJMVersion(version)\n        except ValueError:\n            raise FlipJumpReadFjmException(\n                f'Error: unsupported version ({version}, this program supports {str(SUPPORTED_VERSIONS_NAMES)}).'\n            ) from None\n",
      "        self.version = FJMVersion(version)\n", 'C10.ESCAPE'),
    M('C10', 'reader: pool range check dropped', R,
      "            if data_start + data_length > len(data):\n                raise FlipJumpReadFjmException(\n                    f\"Bad .fjm file: segment data range [{data_start}, {data_start + data_length})\"\n                    f\" exceeds data pool length {len(data)}.\"\n                )\n", "", 'C10.ESCAPE'),
    M('C10', 'reader: lzma error unmapped', R, "        except lzma.LZMAError as e:", "        except KeyError as e:", 'C10.ESCAPE'),
    M('C10', 'reader: header validated after the segments are read', R,
      "                self._validate_header()\n                segments = self._init_segments(fjm_file)\n                data = self._read_decompressed_data(fjm_file)\n",
      "                segments = self._init_segments(fjm_file)\n                data = self._read_decompressed_data(fjm_file)\n                self._validate_header()\n", 'C10.VALIDATE-FIRST'),
    M('C10', 'reader: raises a builtin', R, "            raise FlipJumpReadFjmException(f'Error: bad reserved value ({self.reserved}, should be 0).')",
      "            raise ValueError(f'Error: bad reserved value ({self.reserved}, should be 0).')", 'C10.ESCAPE'),
    M('C10', 'reader: dense zero tail without the threshold', R, "                if segment_length - data_length < _reserved_dict_threshold:", "                if True:", 'C10.BOUNDED'),
    M('C10', 'reader: word count by length division', R,
      "        data = [\n            unpack(read_tag, file_data[i : i + word_bytes_size])[0]  # noqa: E203\n            for i in range(0, len(file_data), word_bytes_size)\n        ]",
      "        data = list(unpack('<' + str(len(file_data) // word_bytes_size) + read_tag[1], file_data[: len(file_data) // word_bytes_size * word_bytes_size]))", 'C10.TORN'),
    M('C10', 'reader: streaming decompressor', R, "            return lzma.decompress(compressed_data, format=_LZMA_FORMAT, filters=_LZMA_DECOMPRESSION_FILTERS)",
      "            return lzma.LZMADecompressor(format=_LZMA_FORMAT, filters=_LZMA_DECOMPRESSION_FILTERS).decompress(compressed_data)", 'C10.TORN'),
    M('C10', 'reader: overlap check dropped', R, "        self._validate_segments_not_overlapping(segments)\n", "", 'C10.INVARIANTS'),
    M('C10', 'reader: parity check weakened to the start only', R, "            if segment_start % 2 != 0 or segment_length % 2 != 0:", "            if segment_start % 2 != 0:", 'C10.INVARIANTS'),
    M('C10', 'run: runnable assertion after dispatch', RUN, "    mem.assert_runnable()  # a program must hold its first op at address 0 (both engines)\n", "", 'C10.VALIDATE-FIRST'),
    M('C10', 'EQ reader: exception variable renamed', R, "        except struct.error as se:\n            exception_message = f\"Bad file {input_file}, can't unpack. Maybe it's not a .fjm file?\"\n            raise FlipJumpReadFjmException(exception_message) from se",
      "        except struct.error as unpack_error:\n            exception_message = f\"Bad file {input_file}, can't unpack. Maybe it's not a .fjm file?\"\n            raise FlipJumpReadFjmException(exception_message) from unpack_error", None),
]
