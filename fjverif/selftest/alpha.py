"""alpha-renaming equivalence variants, generated from the current source: every function / macro with ALL its locals (C: also the
parameters of static functions in a second variant; .fj: the macro-local labels) renamed consistently. behaviour-preserving by
construction; every rule must stay silent (see localnames.py for why it can)."""
from __future__ import annotations

import ast
import re
import sys
from typing import Any, Dict, List

from ..pyfacts import Repo

SUFFIX = '_rn'
SINGLE = False
PARAMS = False


def stores_in_nested(fn):
    out = set()
    for n in ast.walk(fn):
        if isinstance(n, (ast.FunctionDef, ast.AsyncFunctionDef, ast.Lambda)) and n is not fn:
            for x in ast.walk(n):
                if isinstance(x, ast.Name) and isinstance(x.ctx, ast.Store):
                    out.add(x.id)
    return out


def py_variants(rel, text):
    """(function qualname, new text) with every renamable local of that function renamed"""
    tree = ast.parse(text)
    lines = text.split('\n')
    out = []

    def visit(node, prefix):
        for ch in ast.iter_child_nodes(node):
            if isinstance(ch, ast.ClassDef):
                visit(ch, prefix + ch.name + '.')
            elif isinstance(ch, (ast.FunctionDef, ast.AsyncFunctionDef)):
                q = prefix + ch.name
                params = {a.arg for a in ch.args.args + ch.args.kwonlyargs + ch.args.posonlyargs} | ({ch.args.vararg.arg} if ch.args.vararg else set()) \
                    | ({ch.args.kwarg.arg} if ch.args.kwarg else set())
                skip = set(params)
                stores = set()
                nested_params = set()
                for n in ast.walk(ch):
                    if isinstance(n, (ast.Global, ast.Nonlocal)):
                        skip |= set(n.names)
                    if isinstance(n, ast.ExceptHandler) and n.name:
                        skip.add(n.name)
                    if isinstance(n, (ast.Import, ast.ImportFrom)):
                        skip |= {(a.asname or a.name).split('.')[0] for a in n.names}
                    if isinstance(n, (ast.FunctionDef, ast.AsyncFunctionDef, ast.Lambda)) and n is not ch:
                        a = n.args
                        nested_params |= {x.arg for x in a.args + a.kwonlyargs + a.posonlyargs}
                        if isinstance(n, (ast.FunctionDef, ast.AsyncFunctionDef)):
                            skip.add(n.name)
                    if isinstance(n, ast.ClassDef):
                        skip.add(n.name)
                    if isinstance(n, ast.Name) and isinstance(n.ctx, ast.Store):
                        stores.add(n.id)
                    if isinstance(n, ast.MatchAs) and n.name:
                        skip.add(n.name)
                names = {x for x in stores - skip - nested_params if not (x.startswith('__') and x.endswith('__'))}
                if PARAMS:
                    private = (ch.name.startswith('_') and not ch.name.endswith('__')) or isinstance(node, (ast.FunctionDef, ast.AsyncFunctionDef))
                    kw_used = {kw.arg for c in ast.walk(tree) if isinstance(c, ast.Call) for kw in c.keywords
                               if (isinstance(c.func, ast.Name) and c.func.id == ch.name) or (isinstance(c.func, ast.Attribute) and c.func.attr == ch.name)}
                    names = ({a.arg for a in ch.args.args + ch.args.kwonlyargs + ch.args.posonlyargs} - {'self', 'cls'} - kw_used - nested_params - stores_in_nested(ch)) \
                        if private and not ch.args.vararg and not ch.args.kwarg else set()
                    param_nodes = {a.arg: a for a in ch.args.args + ch.args.kwonlyargs + ch.args.posonlyargs}
                groups = [names] if names and not SINGLE else [{x} for x in sorted(names)]
                for names in groups:
                    if not names:
                        continue
                    # positions of every Name node of those identifiers inside the function
                    pos = sorted({(n.lineno, n.col_offset, n.id) for n in ast.walk(ch) if isinstance(n, ast.Name) and n.id in names}
                                 | ({(param_nodes[x].lineno, param_nodes[x].col_offset, x) for x in names} if PARAMS else set()), reverse=True)
                    new_lines = list(lines)
                    ok = True
                    for ln, col, ident in pos:
                        s = new_lines[ln - 1]
                        # col_offset counts utf-8 bytes
                        b = s.encode('utf-8')
                        if b[col:col + len(ident)].decode('utf-8', 'replace') != ident:
                            ok = False
                            break
                        new_lines[ln - 1] = (b[:col] + (ident + SUFFIX).encode() + b[col + len(ident):]).decode('utf-8')
                    if ok:
                        new = '\n'.join(new_lines)
                        try:
                            compile(new, rel, 'exec')
                            out.append((q + (':' + next(iter(names)) if SINGLE else ''), new))
                        except SyntaxError:
                            pass
                visit(ch, prefix + ch.name + '.')
    visit(tree, '')
    return out


def c_variants(rel, text):
    from fjverif.cfacts import CUnit
    from fjverif import localnames as ln
    cu = CUnit(Repo())
    out = []
    for fname, fn in ln.c_functions(cu.tu).items():
        locs = sorted(ln.c_locals(fn))
        if PARAMS:
            locs = sorted(c.get('name') for c in fn.get('inner', []) if isinstance(c, dict) and c.get('kind') == 'ParmVarDecl' and c.get('name')) \
                if fn.get('storageClass') == 'static' else []
        groups = [locs] if not SINGLE else [[x] for x in locs]
        for g in groups:
            if not g:
                continue
            new = ln.c_rename_text(cu.text, fn, {nm: nm + SUFFIX for nm in g})
            if new is not None and new != cu.text:
                out.append((fname + (':' + g[0] if SINGLE else ''), new))
    return out


def fj_variants(rel, text):
    """(macro, new text) with every macro-local label (the names after `@`) of one macro renamed"""
    out = []
    for m in re.finditer(r'^[ \t]*def[ \t]+([\w.]+)((?:[^{\n]|\\\n)*)\{', text, flags=re.M):
        head = m.group(2).replace('\\\n', ' ')
        if '@' not in head:
            continue
        loc_part = head.split('@', 1)[1]
        loc_part = re.split(r'[<>]', loc_part)[0]
        labels = [x.strip() for x in loc_part.split(',') if x.strip()]
        # the macro text: up to the matching closing brace
        depth, i = 1, m.end()
        while i < len(text) and depth:
            c = text[i]
            if c == '/' and text[i:i + 2] == '//':
                i = text.find('\n', i)
                if i < 0:
                    i = len(text)
                continue
            if c == '"' or c == "'":
                j = i + 1
                while j < len(text) and text[j] != c:
                    j += 2 if text[j] == '\\' else 1
                i = j + 1
                continue
            depth += (c == '{') - (c == '}')
            i += 1
        seg = text[m.start():i]
        groups = [labels] if not SINGLE else [[x] for x in labels]
        for g in groups:
            new = seg
            for lb in sorted(g, key=len, reverse=True):
                # code outside comments only
                parts = re.split(r'(//[^\n]*)', new)
                parts = [pt if pt.startswith('//') else re.sub(r'(?<![\w.])' + re.escape(lb) + r'\b(?!\.)', lb + SUFFIX, pt) for pt in parts]
                new = ''.join(parts)
            if new != seg:
                out.append((m.group(1) + (':' + g[0] if SINGLE else '') + f'@{text.count(chr(10), 0, m.start()) + 1}', text[:m.start()] + new + text[i:]))
    return out


