"""alpha-renaming equivalence variants, generated from the current source: every function / macro with ALL its locals (C: also the
parameters of static functions in a second variant; .fj: the macro-local labels) renamed consistently. behaviour-preserving by
construction; every rule must stay silent (see localnames.py for why it can)."""
from __future__ import annotations

import ast
import re
import sys
from typing import Any, Dict, List

from ..pyfacts import Repo

SUFFIX = '_rn'
SINGLE = False
PARAMS = False


def stores_in_nested(fn):
    out = set()
    for n in ast.walk(fn):
        if isinstance(n, (ast.FunctionDef, ast.AsyncFunctionDef, ast.Lambda)) and n is not fn:
            for x in ast.walk(n):
                if isinstance(x, ast.Name) and isinstance(x.ctx, ast.Store):
                    out.add(x.id)
    return out


def py_variants(rel, text):
    """(function qualname, new text) with every renamable local of that function renamed"""
    tree = ast.parse(text)
    lines = text.split('\n')
    out = []

    def visit(node, prefix):
        for ch in ast.iter_child_nodes(node):
            if isinstance(ch, ast.ClassDef):
                visit(ch, prefix + ch.name + '.')
            elif isinstance(ch, (ast.FunctionDef, ast.AsyncFunctionDef)):
                q = prefix + ch.name
                params = {a.arg for a in ch.args.args + ch.args.kwonlyargs + ch.args.posonlyargs} | ({ch.args.vararg.arg} if ch.args.vararg else set()) \
                    | ({ch.args.kwarg.arg} if ch.args.kwarg else set())
                skip = set(params)
                stores = set()
                nested_params = set()
                for n in ast.walk(ch):
                    if isinstance(n, (ast.Global, ast.Nonlocal)):
                        skip |= set(n.names)
                    if isinstance(n, ast.ExceptHandler) and n.name:
                        skip.add(n.name)
                    if isinstance(n, (ast.Import, ast.ImportFrom)):
                        skip |= {(a.asname or a.name).split('.')[0] for a in n.names}
                    if isinstance(n, (ast.FunctionDef, ast.AsyncFunctionDef, ast.Lambda)) and n is not ch:
                        a = n.args
                        nested_params |= {x.arg for x in a.args + a.kwonlyargs + a.posonlyargs}
                        if isinstance(n, (ast.FunctionDef, ast.AsyncFunctionDef)):
                            skip.add(n.name)
                    if isinstance(n, ast.ClassDef):
                        skip.add(n.name)
                    if isinstance(n, ast.Name) and isinstance(n.ctx, ast.Store):
                        stores.add(n.id)
                    if isinstance(n, ast.MatchAs) and n.name:
                        skip.add(n.name)
                names = {x for x in stores - skip - nested_params if not (x.startswith('__') and x.endswith('__'))}
                if PARAMS:
                    private = (ch.name.startswith('_') and not ch.name.endswith('__')) or isinstance(node, (ast.FunctionDef, ast.AsyncFunctionDef))
                    kw_used = {kw.arg for c in ast.walk(tree) if isinstance(c, ast.Call) for kw in c.keywords
                               if (isinstance(c.func, ast.Name) and c.func.id == ch.name) or (isinstance(c.func, ast.Attribute) and c.func.attr == ch.name)}
                    names = ({a.arg for a in ch.args.args + ch.args.kwonlyargs + ch.args.posonlyargs} - {'self', 'cls'} - kw_used - nested_params - stores_in_nested(ch)) \
                        if private and not ch.args.vararg and not ch.args.kwarg else set()
                    param_nodes = {a.arg: a for a in ch.args.args + ch.args.kwonlyargs + ch.args.posonlyargs}
                groups = [names] if names and not SINGLE else [{x} for x in sorted(names)]
                for names in groups:
                    if not names:
                        continue
                    # positions of every Name node of those identifiers inside the function
                    pos = sorted({(n.lineno, n.col_offset, n.id) for n in ast.walk(ch) if isinstance(n, ast.Name) and n.id in names}
                                 | ({(param_nodes[x].lineno, param_nodes[x].col_offset, x) for x in names} if PARAMS else set()), reverse=True)
                    new_lines = list(lines)
                    ok = True
                    for ln, col, ident in pos:
                        s = new_lines[ln - 1]
                        # col_offset counts utf-8 bytes
                        b = s.encode('utf-8')
                        if b[col:col + len(ident)].decode('utf-8', 'replace') != ident:
                            ok = False
                            break
                        new_lines[ln - 1] = (b[:col] + (ident + SUFFIX).encode() + b[col + len(ident):]).decode('utf-8')
                    if ok:
                        new = '\n'.join(new_lines)
                        try:
                            compile(new, rel, 'exec')
                            out.append((q + (':' + next(iter(names)) if SINGLE else ''), new))
                        except SyntaxError:
                            pass
                visit(ch, prefix + ch.name + '.')
    visit(tree, '')
    return out


def c_variants(rel, text):
    from fjverif.cfacts import CUnit
    from fjverif import localnames as ln
    cu = CUnit(Repo())
    out = []
    for fname, fn in ln.c_functions(cu.tu).items():
        locs = sorted(ln.c_locals(fn))
        if PARAMS:
            locs = sorted(c.get('name') for c in fn.get('inner', []) if isinstance(c, dict) and c.get('kind') == 'ParmVarDecl' and c.get('name')) \
                if fn.get('storageClass') == 'static' else []
        groups = [locs] if not SINGLE else [[x] for x in locs]
        for g in groups:
            if not g:
                continue
            new = ln.c_rename_text(cu.text, fn, {nm: nm + SUFFIX for nm in g})
            if new is not None and new != cu.text:
                out.append((fname + (':' + g[0] if SINGLE else ''), new))
    return out


def fj_variants(rel, text):
    """(macro, new text) with every macro-local label (the names after `@`) of one macro renamed"""
    out = []
    for m in re.finditer(r'^[ \t]*def[ \t]+([\w.]+)((?:[^{\n]|\\\n)*)\{', text, flags=re.M):
        head = m.group(2).replace('\\\n', ' ')
        if '@' not in head:
            continue
        loc_part = head.split('@', 1)[1]
        loc_part = re.split(r'[<>]', loc_part)[0]
        labels = [x.strip() for x in loc_part.split(',') if x.strip()]
        # the macro text: up to the matching closing brace
        depth, i = 1, m.end()
        while i < len(text) and depth:
            c = text[i]
            if c == '/' and text[i:i + 2] == '//':
                i = text.find('\n', i)
                if i < 0:
                    i = len(text)
                continue
            if c == '"' or c == "'":
                j = i + 1
                while j < len(text) and text[j] != c:
                    j += 2 if text[j] == '\\' else 1
                i = j + 1
                continue
            depth += (c == '{') - (c == '}')
            i += 1
        seg = text[m.start():i]
        groups = [labels] if not SINGLE else [[x] for x in labels]
        for g in groups:
            new = seg
            for lb in sorted(g, key=len, reverse=True):
                # code outside comments only
                parts = re.split(r'(//[^\n]*)', new)
                parts = [pt if pt.startswith('//') else re.sub(r'(?<![\w.])' + re.escape(lb) + r'\b(?!\.)', lb + SUFFIX, pt) for pt in parts]
                new = ''.join(parts)
            if new != seg:
                out.append((m.group(1) + (':' + g[0] if SINGLE else '') + f'@{text.count(chr(10), 0, m.start()) + 1}', text[:m.start()] + new + text[i:]))
    return out




# ---------------------------------------------------------------- other mechanical, behaviour-preserving rewrites (python)

def _simple(e: ast.AST) -> bool:
    """an operand whose evaluation has no effect and cannot raise differently when moved across its sibling: names, attributes of
    names, constants, subscripts / arithmetic of those, len(..) of those"""
    if isinstance(e, (ast.Name, ast.Constant)):
        return True
    if isinstance(e, ast.Attribute):
        return _simple(e.value)
    if isinstance(e, ast.UnaryOp):
        return _simple(e.operand)
    if isinstance(e, ast.BinOp):
        return _simple(e.left) and _simple(e.right)
    if isinstance(e, ast.Call) and isinstance(e.func, ast.Name) and e.func.id == 'len' and len(e.args) == 1 and not e.keywords:
        return _simple(e.args[0])
    if isinstance(e, ast.Tuple):
        return all(_simple(x) for x in e.elts)
    return False


_FLIP = {ast.Lt: ast.Gt, ast.Gt: ast.Lt, ast.LtE: ast.GtE, ast.GtE: ast.LtE, ast.Eq: ast.Eq, ast.NotEq: ast.NotEq}


def py_rewrites(rel: str, text: str, mode: str) -> List[Any]:
    """(function, new text) per function, rewritten by ast + unparse of that function only:
      flip    every two-operand comparison with simple operands is turned round (a < b -> b > a, a == b -> b == a)
      invert  every if / else with both branches becomes `if not (c): else-branch else: then-branch`; every conditional expression likewise
      name    the condition of every `if` statement is bound to a fresh local first"""
    tree = ast.parse(text)
    lines = text.split('\n')
    out = []

    class Flip(ast.NodeTransformer):
        def visit_Compare(self, n: ast.Compare) -> ast.AST:
            self.generic_visit(n)
            if len(n.ops) == 1 and type(n.ops[0]) in _FLIP and _simple(n.left) and _simple(n.comparators[0]):
                return ast.Compare(left=n.comparators[0], ops=[_FLIP[type(n.ops[0])]()], comparators=[n.left])
            return n

    class Invert(ast.NodeTransformer):
        def visit_If(self, n: ast.If) -> ast.AST:
            self.generic_visit(n)
            if n.orelse and not (len(n.orelse) == 1 and isinstance(n.orelse[0], ast.If)):
                return ast.If(test=ast.UnaryOp(op=ast.Not(), operand=n.test), body=n.orelse, orelse=n.body)
            return n

        def visit_IfExp(self, n: ast.IfExp) -> ast.AST:
            self.generic_visit(n)
            return ast.IfExp(test=ast.UnaryOp(op=ast.Not(), operand=n.test), body=n.orelse, orelse=n.body)

    class NameCond(ast.NodeTransformer):
        def __init__(self) -> None:
            self.k = 0

        def _block(self, stmts: List[ast.stmt]) -> List[ast.stmt]:
            res: List[ast.stmt] = []
            for st in stmts:
                st = self.visit(st)
                # (an `elif` is an If inside orelse: naming its condition there would hoist it in front of the chain; left alone)
                if isinstance(st, ast.If) and not isinstance(st.test, (ast.Name, ast.Constant)):
                    self.k += 1
                    nm = f'cond_{self.k}_rn'
                    res.append(ast.Assign(targets=[ast.Name(id=nm, ctx=ast.Store())], value=st.test))
                    st.test = ast.Name(id=nm, ctx=ast.Load())
                res.append(st)
            return res

        def generic_visit(self, node: ast.AST) -> ast.AST:
            for f in ('body', 'orelse', 'finalbody'):
                v = getattr(node, f, None)
                if isinstance(v, list) and v and isinstance(v[0], ast.stmt):
                    if f == 'orelse' and isinstance(node, ast.If) and len(v) == 1 and isinstance(v[0], ast.If):
                        v[0] = self.generic_visit(v[0])          # elif chain: only descend
                        continue
                    setattr(node, f, self._block(v))
            if isinstance(node, ast.Try):
                for h in node.handlers:
                    h.body = self._block(h.body)
            return node

    class Commute(ast.NodeTransformer):
        """operands of `*`, `&`, `^` swapped when both are simple; of `+` / `|` when one of them is an integer literal"""
        def visit_BinOp(self, n: ast.BinOp) -> ast.AST:
            self.generic_visit(n)
            if not (_simple(n.left) and _simple(n.right)):
                return n
            lit = lambda e: isinstance(e, ast.Constant) and isinstance(e.value, int) and not isinstance(e.value, bool)
            if isinstance(n.op, (ast.Mult, ast.BitAnd, ast.BitXor)) or (isinstance(n.op, (ast.Add, ast.BitOr)) and (lit(n.left) or lit(n.right))):
                if isinstance(n.op, ast.Mult) and (isinstance(n.left, (ast.List, ast.Tuple, ast.JoinedStr)) or isinstance(n.right, (ast.List, ast.Tuple, ast.JoinedStr))
                                                   or (isinstance(n.left, ast.Constant) and isinstance(n.left.value, (str, bytes)))
                                                   or (isinstance(n.right, ast.Constant) and isinstance(n.right.value, (str, bytes)))):
                    return n
                return ast.BinOp(left=n.right, op=n.op, right=n.left)
            return n

    class Reorder(ast.NodeTransformer):
        """adjacent call-free simple statements with disjoint reads / writes swapped (every other eligible pair)"""
        @staticmethod
        def rw(st: ast.stmt) -> Any:
            if not isinstance(st, (ast.Assign, ast.AugAssign, ast.AnnAssign)) or any(isinstance(x, (ast.Call, ast.Await, ast.Yield, ast.NamedExpr, ast.Subscript)) for x in ast.walk(st)):
                return None
            tg = st.targets if isinstance(st, ast.Assign) else [st.target]
            w = set()
            for t in tg:
                for x in ast.walk(t):
                    if isinstance(x, (ast.Name, ast.Attribute)) and isinstance(getattr(x, 'ctx', None), ast.Store):
                        w.add(ast.unparse(x))
            val = st.value
            if val is None:
                return None
            r = {ast.unparse(x) for x in ast.walk(val) if isinstance(x, (ast.Name, ast.Attribute))}
            if isinstance(st, ast.AugAssign):
                r |= w
            # a write to x.y conflicts with any read/write of x or x.y...: compare by prefix
            return w, r

        @staticmethod
        def clash(a: Any, b: Any) -> bool:
            (wa, ra), (wb, rb) = a, b
            def hit(ws: Any, xs: Any) -> bool:
                return any(x == w_ or x.startswith(w_ + '.') or w_.startswith(x + '.') for w_ in ws for x in xs)
            return hit(wa, rb | wb) or hit(wb, ra | wa)

        def block(self, stmts: List[ast.stmt]) -> List[ast.stmt]:
            out = [self.visit(x) for x in stmts]
            i = 0
            while i + 1 < len(out):
                a, b = self.rw(out[i]), self.rw(out[i + 1])
                if a is not None and b is not None and not self.clash(a, b):
                    out[i], out[i + 1] = out[i + 1], out[i]
                    i += 2
                else:
                    i += 1
            return out

        def generic_visit(self, node: ast.AST) -> ast.AST:
            for f in ('body', 'orelse', 'finalbody'):
                v = getattr(node, f, None)
                if isinstance(v, list) and v and isinstance(v[0], ast.stmt):
                    setattr(node, f, self.block(v))
            if isinstance(node, ast.Try):
                for h in node.handlers:
                    h.body = self.block(h.body)
            return node

    def visit(node: ast.AST, prefix: str) -> None:
        for ch in ast.iter_child_nodes(node):
            if isinstance(ch, ast.ClassDef):
                visit(ch, prefix + ch.name + '.')
            elif isinstance(ch, (ast.FunctionDef, ast.AsyncFunctionDef)):
                q = prefix + ch.name
                import copy
                fn = copy.deepcopy(ch)
                before = ast.dump(fn)
                for md in (['flip', 'invert', 'name', 'commute', 'reorder'] if mode == 'all' else [mode]):
                    if md in ('commute', 'reorder'):
                        tr2 = Commute() if md == 'commute' else Reorder()
                        fn = tr2.visit(fn) if md == 'commute' else tr2.generic_visit(fn)
                        continue
                    tr = {'flip': Flip, 'invert': Invert, 'name': NameCond}[md]()
                    fn = tr.generic_visit(fn) if md == 'name' else tr.visit(fn)
                if mode == 'all':
                    # ... and every local renamed on top
                    from ..localnames import py_locals
                    locs = py_locals(fn)
                    for x in ast.walk(fn):
                        if isinstance(x, ast.Name) and x.id in locs and not x.id.endswith('_rn'):
                            x.id = x.id + '_rn'
                ast.fix_missing_locations(fn)
                if ast.dump(fn) != before:
                    # replace the function's lines (decorators included) by the unparsed function, re-indented
                    first = min([d.lineno for d in ch.decorator_list] + [ch.lineno])
                    indent = lines[ch.lineno - 1][:len(lines[ch.lineno - 1]) - len(lines[ch.lineno - 1].lstrip())]
                    new_src = '\n'.join(indent + ln if ln else ln for ln in ast.unparse(fn).split('\n'))
                    new = '\n'.join(lines[:first - 1] + [new_src] + lines[ch.end_lineno:])
                    try:
                        compile(new, rel, 'exec')
                        out.append((q, new))
                    except SyntaxError:
                        pass
                # nested functions are rewritten with their parent
    visit(tree, '')
    return out


# ---------------------------------------------------------------- the same for C (text edits at the positions clang reports)

_CFLIP = {'<': '>', '>': '<', '<=': '>=', '>=': '<=', '==': '==', '!=': '!='}


def c_rewrites(rel: str, text: str, mode: str) -> List[Any]:
    """(function, new text): per function, every comparison with side-effect free operands turned round (mode 'flip'), or every
    if / else with both branches inverted (mode 'invert')"""
    from ..cfacts import CUnit, walk
    from .. import localnames as ln
    cu = CUnit(Repo())
    text = cu.text
    out = []

    def pure(n: Dict[str, Any]) -> bool:
        return not any(x.get('kind') in ('CallExpr', 'CompoundAssignOperator') or (x.get('kind') == 'UnaryOperator' and x.get('opcode') in ('++', '--'))
                       or (x.get('kind') == 'BinaryOperator' and x.get('opcode') == '=') for x in walk(n))

    def in_macro(n: Dict[str, Any]) -> bool:
        r = n.get('range', {})
        return any('spellingLoc' in r.get(k, {}) or 'expansionLoc' in r.get(k, {}) for k in ('begin', 'end'))
    for fname, fn in ln.c_functions(cu.tu).items():
        edits: List[Any] = []
        for n in walk(fn):
            if mode == 'flip' and n.get('kind') == 'BinaryOperator' and n.get('opcode') in _CFLIP and len(n.get('inner', [])) == 2:
                a, b = n['inner']
                sa, sb, sn = cu._span(a), cu._span(b), cu._span(n)
                if not (sa and sb and sn) or in_macro(n) or in_macro(a) or in_macro(b) or not pure(a) or not pure(b):
                    continue
                mid = text[sa[1]:sb[0]]
                if mid.strip() != n['opcode']:
                    continue
                edits.append((sn[0], sn[1], f'{text[sb[0]:sb[1]]} {_CFLIP[n["opcode"]]} {text[sa[0]:sa[1]]}'))
            if mode == 'commute' and n.get('kind') == 'BinaryOperator' and n.get('opcode') in ('*', '&', '^', '|', '+') and len(n.get('inner', [])) == 2:
                a, b = n['inner']
                sa, sb, sn = cu._span(a), cu._span(b), cu._span(n)
                if not (sa and sb and sn) or in_macro(n) or in_macro(a) or in_macro(b) or not pure(a) or not pure(b):
                    continue
                if text[sa[1]:sb[0]].strip() != n['opcode']:
                    continue
                # keep the parse: an operand that is itself an unparenthesised binary operation of lower / equal precedence gets parentheses
                ta, tb = text[sa[0]:sa[1]], text[sb[0]:sb[1]]
                pb = f'({tb})' if ln._c_needs_parens(b, n['opcode'], left=True) else tb
                pa = f'({ta})' if ln._c_needs_parens(a, n['opcode'], left=False) else ta
                edits.append((sn[0], sn[1], f'{pb} {n["opcode"]} {pa}'))
            if mode == 'invert' and n.get('kind') == 'IfStmt' and len(n.get('inner', [])) == 3 and not n.get('hasVar'):
                c, t, e = n['inner']
                sc, st, se = cu._span(c), cu._span(t), cu._span(e)
                if not (sc and st and se) or in_macro(n) or in_macro(c) or t.get('kind') != 'CompoundStmt' or e.get('kind') != 'CompoundStmt':
                    continue
                edits.append((sc[0], se[1], f'!({text[sc[0]:sc[1]]}){text[sc[1]:st[0]]}{text[se[0]:se[1]]}{text[st[1]:se[0]]}{text[st[0]:st[1]]}'))
        # innermost-first is not needed: keep only edits that do not overlap an earlier-kept one (outermost wins by order of walk)
        kept: List[Any] = []
        for e_ in sorted(edits, key=lambda t: (t[0], -t[1])):
            if all(e_[0] >= k_[1] or e_[1] <= k_[0] for k_ in kept):
                kept.append(e_)
        if not kept:
            continue
        new = text
        for a_, b_, rep_ in sorted(kept, reverse=True):
            new = new[:a_] + rep_ + new[b_:]
        out.append((fname, new))
    return out
