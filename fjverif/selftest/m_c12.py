from . import M
PARSER = 'flipjump/assembler/fj_parser.py'
EXPR = 'flipjump/assembler/inner_classes/expr.py'
MUTANTS = [
    M('C12', 'precedence: & moved below ==', PARSER, "        ('left', EQ, NEQ),\n        ('left', '&'),\n", "        ('left', '&'),\n        ('left', EQ, NEQ),\n", 'C12.PREC'),
    M('C12', 'precedence: ** made left-associative', PARSER, "        ('right', POW),", "        ('left', POW),", 'C12.PREC'),
    M('C12', 'precedence: shifts merged with +-', PARSER, "        ('left', SHL, SHR),\n        ('left', '+', '-'),\n", "        ('left', SHL, SHR, '+', '-'),\n", 'C12.PREC'),
    M('C12', 'precedence: unary minus loses %prec', PARSER, "    @_('\"-\" expr_ %prec UMINUS')", "    @_('\"-\" expr_')", 'C12.PREC'),
    M('C12', 'grammar: >= rule passes >', PARSER, "        return get_minimized_expr('>=', (p.expr_0[0], p.expr_1[0])), p.lineno", "        return get_minimized_expr('>', (p.expr_0[0], p.expr_1[0])), p.lineno", 'C12.RULE-OP'),
    M('C12', 'grammar: subtraction operands swapped', PARSER, "        return get_minimized_expr('-', (p.expr_0[0], p.expr_1[0])), p.lineno", "        return get_minimized_expr('-', (p.expr_1[0], p.expr_0[0])), p.lineno", 'C12.RULE-OP'),
    M('C12', 'table: / is true division', EXPR, "from operator import mul, add, sub, floordiv, lshift", "from operator import mul, add, sub, truediv as floordiv, lshift", 'C12.TABLE'),
    M('C12', 'table: <= is strict', EXPR, "    '<=': lambda a, b: 1 if a <= b else 0,", "    '<=': lambda a, b: 1 if a < b else 0,", 'C12.TABLE'),
    M('C12', 'table: ternary branches swapped', EXPR, "    '?:': lambda a, b, c: b if a else c,", "    '?:': lambda a, b, c: c if a else b,", 'C12.TABLE'),
    M('C12', 'table: + masked to 64 bits', EXPR, "    '+': add,", "    '+': lambda a, b: (a + b) & ((1 << 64) - 1),", 'C12.TABLE'),
    M('C12', 'eval: exact_eval special-cases shifts', EXPR, "        op, args = value\n        try:\n            return op_string_to_function[op](*(e.exact_eval(labels) for e in args))",
      "        op, args = value\n        try:\n            if op == '>>':\n                return args[0].exact_eval(labels) // (1 << args[1].exact_eval(labels))\n            return op_string_to_function[op](*(e.exact_eval(labels) for e in args))", 'C12.ONE-TABLE'),
    M('C12', 'literals: escape value wrong', PARSER, "    'e': 0x1B,", "    'e': 0x1C,", 'C12.LITERALS'),
    M('C12', 'literals: string packed big-endian', PARSER, "        t.value = sum(val << (i * 8) for i, val in enumerate(chars))", "        t.value = sum(val << (i * 8) for i, val in enumerate(reversed(chars)))", 'C12.LITERALS'),
    M('C12', 'literals: 0b parsed as hex', PARSER, "            elif n[1] in 'bB':\n                t.value = int(n, 2)", "            elif n[1] in 'bB':\n                t.value = int(n, 16)", 'C12.LITERALS'),
    M('C12', 'EQ table: comparison spelled with int()', EXPR, "    '<': lambda a, b: 1 if a < b else 0,", "    '<': lambda x, y: int(x < y),", None),
    M('C12', 'EQ precedence: token order inside a level', PARSER, "        ('nonassoc', '<', '>', LE, GE),", "        ('nonassoc', LE, GE, '>', '<'),", None),
    M('C12', 'long decimal literals through plain int() again (F16 reverted)', 'flipjump/assembler/fj_parser.py', "                t.value = decimal_to_int(n)", "                t.value = int(n)", 'C12.LITERALS'),
    M('C12', 'decimal chunk fallback drops the scaling by the chunk length', 'flipjump/assembler/fj_parser.py', "value = value * 10 ** len(chunk) + int(chunk)", "value = value * 10 ** 512 + int(chunk)", 'C12.LITERALS'),
    M('C12', 'EQ decimal chunk fallback with the sum commuted', 'flipjump/assembler/fj_parser.py', "value = value * 10 ** len(chunk) + int(chunk)", "value = int(chunk) + value * 10 ** len(chunk)", None),
    M('C12', 'power refuses the exponent 0 (mutation survey)', 'flipjump/assembler/inner_classes/expr.py', "    if exp < 0:", "    if exp <= 0:", 'C12.TABLE'),
]
