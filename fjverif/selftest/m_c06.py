from . import M
W = 'flipjump/fjm/fjm_writer.py'
R = 'flipjump/fjm/fjm_reader.py'
K = 'flipjump/fjm/fjm_consts.py'
MUTANTS = [
    M('C06', 'writer: relative jump uses the wrong index base', W, "(self.data[data_start + i] - (segment_start + i) * self.word_size) & word_mask",
      "(self.data[data_start + i] - (segment_start + i - 1) * self.word_size) & word_mask", 'C06.RELJUMP-INVERSE'),
    M('C06', 'reader: relative jump re-based with data_start', R, "data[data_start + i + 1] + (segment_start + i + 1) * self.memory_width",
      "data[data_start + i + 1] + (data_start + i + 1) * self.memory_width", 'C06.RELJUMP-INVERSE'),
    M('C06', 'writer: relative loop starts at 0', W, "for i in range(1, data_length, 2):", "for i in range(0, data_length, 2):", 'C06.RELJUMP-INVERSE'),
    M('C06', 'reader: header fields swapped', R, "self.magic, self.memory_width, version, self.segment_num = unpack(",
      "self.magic, self.memory_width, self.segment_num, version = unpack(", 'C06.FIELDS'),
    M('C06', 'writer: segment tuple order', W, "self.segments.append((segment_start, segment_length, data_start, data_length))",
      "self.segments.append((segment_start, segment_length, data_length, data_start))", 'C06.FIELDS'),
    M('C06', 'reader: relative gate misses compressed', R, "if self.version in (FJMVersion.RelativeJumpVersion, FJMVersion.CompressedVersion):",
      "if self.version in (FJMVersion.RelativeJumpVersion,):", 'C06.VERSION-GATES'),
    M('C06', 'consts: segment size constant stale', K, "_segment_size = 8 + 8 + 8 + 8", "_segment_size = 8 + 8 + 8", 'C06.FORMATS'),
    M('C06', 'reader: local big-endian word format', R, "read_tag = '<' + {8: 'B', 16: 'H', 32: 'L', 64: 'Q'}[self.memory_width]",
      "read_tag = '>' + {8: 'B', 16: 'H', 32: 'L', 64: 'Q'}[self.memory_width]", 'C06.FORMATS'),
    M('C06', 'reader: lazy zero range off by one', R, "self.zeros_boundaries.append((segment_start + data_length, segment_start + segment_length))",
      "self.zeros_boundaries.append((segment_start + data_length + 1, segment_start + segment_length))", 'C06.ZEROFILL'),
    M('C06', 'reader: decompress with a different filter constant', R, "format=_LZMA_FORMAT, filters=_LZMA_DECOMPRESSION_FILTERS)", "format=lzma.FORMAT_ALONE)", 'C06.LZMA'),
    M('C06', 'writer: even-data check dropped', W,
      "        if data_length % 2 == 1:\n            raise FlipJumpWriteFjmException(\n                f\"data-length must be even - an integer number of ops (in {segment_addresses_str}).\"\n            )\n\n", "", 'C06.WRITER-VALIDATES'),
    M('C06', 'writer: word range check dropped', W,
      "        if data and (min(data) < 0 or max(data) >= (1 << self.word_size)):", "        if False:", 'C06.WRITER-VALIDATES'),
    M('C06', 'writer: overlap validation after the mutation', W,
      "        self._validate_segment_not_overlapping(segment_start, segment_length, data_start, data_length)\n\n        if self.version in (FJMVersion.RelativeJumpVersion, FJMVersion.CompressedVersion):\n            self._update_to_relative_jumps(segment_start, data_start, data_length)\n",
      "        if self.version in (FJMVersion.RelativeJumpVersion, FJMVersion.CompressedVersion):\n            self._update_to_relative_jumps(segment_start, data_start, data_length)\n\n        self._validate_segment_not_overlapping(segment_start, segment_length, data_start, data_length)\n", 'C06.WRITER-VALIDATES'),
    M('C06', 'EQ writer: mask hoisted differently', W, "        word_mask = (1 << self.word_size) - 1\n        for i in range(1, data_length, 2):",
      "        word_mask = (1 << self.word_size) - 1  # w ones\n        for i in range(1, data_length, 2):", None),
    M('C06', 'EQ reader: commuted sum in the relative decode', R, "data[data_start + i + 1] + (segment_start + i + 1) * self.memory_width",
      "data[1 + data_start + i] + self.memory_width * (i + segment_start + 1)", None),
]
