from . import M
W = 'flipjump/fjm/fjm_writer.py'
R = 'flipjump/fjm/fjm_reader.py'
K = 'flipjump/fjm/fjm_consts.py'
MUTANTS = [
    M('C06', 'EQ reader decodes words with int.from_bytes little-endian after a whole-word length check (same codec, other spelling)', R,
      """        data = [
            unpack(read_tag, file_data[i : i + word_bytes_size])[0]  # noqa: E203
            for i in range(0, len(file_data), word_bytes_size)
        ]
""",
      """        if len(file_data) % word_bytes_size:
            raise FlipJumpReadFjmException('Error: the data ends inside a word.')
        data = [
            int.from_bytes(file_data[i : i + word_bytes_size], 'little')  # noqa: E203
            for i in range(0, len(file_data), word_bytes_size)
        ]
""", None),
    M('C06', 'reader decodes words big-endian with int.from_bytes, writer packs little-endian', R,
      """            unpack(read_tag, file_data[i : i + word_bytes_size])[0]  # noqa: E203""",
      """            int.from_bytes(file_data[i : i + word_bytes_size], 'big')  # noqa: E203""", 'C06.FORMATS'),
    M('C06', 'EQ writer packs the words with to_bytes little-endian (same codec, other spelling)', W,
      """        fjm_data = pack(f'<{len(self.data)}{word_format}', *self.data)""",
      """        fjm_data = b''.join(word.to_bytes(self.word_size // 8, 'little') for word in self.data)""", None),
    M('C06', 'writer packs the words with to_bytes of one byte too many', W,
      """        fjm_data = pack(f'<{len(self.data)}{word_format}', *self.data)""",
      """        fjm_data = b''.join(word.to_bytes(self.word_size // 8 + 1, 'little') for word in self.data)""", 'C06.FORMATS'),
    M('C06', 'writer: relative jump uses the wrong index base', W, "(self.data[data_start + i] - (segment_start + i) * self.word_size) & word_mask",
      "(self.data[data_start + i] - (segment_start + i - 1) * self.word_size) & word_mask", 'C06.RELJUMP-INVERSE'),
    M('C06', 'reader: relative jump re-based with data_start', R, "data[data_start + i + 1] + (segment_start + i + 1) * self.memory_width",
      "data[data_start + i + 1] + (data_start + i + 1) * self.memory_width", 'C06.RELJUMP-INVERSE'),
    M('C06', 'writer: relative loop starts at 0', W, "for i in range(1, data_length, 2):", "for i in range(0, data_length, 2):", 'C06.RELJUMP-INVERSE'),
    M('C06', 'reader: header fields swapped', R, "self.magic, self.memory_width, version, self.segment_num = unpack(",
      "self.magic, self.memory_width, self.segment_num, version = unpack(", 'C06.FIELDS'),
    M('C06', 'writer: segment tuple order', W, "self.segments.append((segment_start, segment_length, data_start, data_length))",
      "self.segments.append((segment_start, segment_length, data_length, data_start))", 'C06.FIELDS'),
    M('C06', 'reader: relative gate misses compressed', R, "if self.version in (FJMVersion.RelativeJumpVersion, FJMVersion.CompressedVersion):",
      "if self.version in (FJMVersion.RelativeJumpVersion,):", 'C06.VERSION-GATES'),
    M('C06', 'consts: segment size constant stale', K, "_segment_size = 8 + 8 + 8 + 8", "_segment_size = 8 + 8 + 8", 'C06.FORMATS'),
    M('C06', 'reader: local big-endian word format', R, "read_tag = '<' + {8: 'B', 16: 'H', 32: 'L', 64: 'Q'}[self.memory_width]",
      "read_tag = '>' + {8: 'B', 16: 'H', 32: 'L', 64: 'Q'}[self.memory_width]", 'C06.FORMATS'),
    M('C06', 'reader: lazy zero range off by one', R, "self.zeros_boundaries.append((segment_start + data_length, segment_start + segment_length))",
      "self.zeros_boundaries.append((segment_start + data_length + 1, segment_start + segment_length))", 'C06.ZEROFILL'),
    M('C06', 'reader: decompress with a different filter constant', R, "format=_LZMA_FORMAT, filters=_LZMA_DECOMPRESSION_FILTERS)", "format=lzma.FORMAT_ALONE)", 'C06.LZMA'),
    M('C06', 'writer: even-data check dropped', W,
      "        if data_length % 2 == 1:\n            raise FlipJumpWriteFjmException(\n                f\"data-length must be even - an integer number of ops (in {segment_addresses_str}).\"\n            )\n\n", "", 'C06.WRITER-VALIDATES'),
    M('C06', 'writer: word range check dropped', W,
      "        if data and (min(data) < 0 or max(data) >= (1 << self.word_size)):", "        if False:", 'C06.WRITER-VALIDATES'),
    M('C06', 'writer: overlap validation after the mutation', W,
      "        self._validate_segment_not_overlapping(segment_start, segment_length, data_start, data_length)\n\n        if self.version in (FJMVersion.RelativeJumpVersion, FJMVersion.CompressedVersion):\n            self._update_to_relative_jumps(segment_start, data_start, data_length)\n",
      "        if self.version in (FJMVersion.RelativeJumpVersion, FJMVersion.CompressedVersion):\n            self._update_to_relative_jumps(segment_start, data_start, data_length)\n\n        self._validate_segment_not_overlapping(segment_start, segment_length, data_start, data_length)\n", 'C06.WRITER-VALIDATES'),
    M('C06', 'EQ writer: mask hoisted differently', W, "        word_mask = (1 << self.word_size) - 1\n        for i in range(1, data_length, 2):",
      "        word_mask = (1 << self.word_size) - 1  # w ones\n        for i in range(1, data_length, 2):", None),
    M('C06', 'EQ reader: commuted sum in the relative decode', R, "data[data_start + i + 1] + (segment_start + i + 1) * self.memory_width",
      "data[1 + data_start + i] + self.memory_width * (i + segment_start + 1)", None),
    M('C06', 'decoder falls back to the default 8 MiB dictionary (F13 reverted)', 'flipjump/fjm/fjm_consts.py', '[{"id": lzma.FILTER_LZMA2, "dict_size": _LZMA_MAX_PRESET_DICT_SIZE}]', '[{"id": lzma.FILTER_LZMA2}]', 'C06.LZMA'),
    M('C06', 'decoder dictionary sized for preset 8', 'flipjump/fjm/fjm_consts.py', "_LZMA_MAX_PRESET_DICT_SIZE = 1 << 26", "_LZMA_MAX_PRESET_DICT_SIZE = 1 << 25", 'C06.LZMA'),
    M('C06', 'EQ decoder dictionary given as a preset', 'flipjump/fjm/fjm_consts.py', '[{"id": lzma.FILTER_LZMA2, "dict_size": _LZMA_MAX_PRESET_DICT_SIZE}]', '[{"id": lzma.FILTER_LZMA2, "preset": 9}]', None),
    M('C06', 'writer accepts flags == 2^64 (mutation survey)', 'flipjump/fjm/fjm_writer.py', "        if flags < 0 or flags >= (1 << 64):", "        if flags < 0 or flags > (1 << 64):", 'C06.RANGE-EXACT'),
    M('C06', 'reader accepts a segment that ends at 2^64 while the writer refuses it (mutation survey)', 'flipjump/fjm/fjm_reader.py', "            if segment_start + segment_length >= (1 << 64):", "            if segment_start + segment_length > (1 << 64):", 'C06.RANGE-EXACT'),
    M('C06', 'writer refuses a segment only when both tests hold (mutation survey)', 'flipjump/fjm/fjm_writer.py', "        if segment_start < 0 or segment_start + segment_length >= (1 << 64):", "        if segment_start < 0 and segment_start + segment_length >= (1 << 64):", 'C06.RANGE-EXACT'),
    M('C06', 'EQ writer spells the 64-bit bound as a power', 'flipjump/fjm/fjm_writer.py', "        if flags < 0 or flags >= (1 << 64):", "        if flags < 0 or flags >= 2 ** 64:", None),
    M('C06', 'the first data chunk is adopted instead of copied: the pool aliases the caller list (seed C06_7)', 'flipjump/fjm/fjm_writer.py',
      "        self.data += data\n        return data_start", "        if data_start == 0:\n            self.data = data\n        else:\n            self.data += data\n        return data_start", 'C06.POOL-OWNED'),
    M('C06', 'the pool is adopted through a local name', 'flipjump/fjm/fjm_writer.py',
      "        self.data += data\n        return data_start", "        words = data\n        self.data = words if not self.data else self.data + words\n        return data_start", 'C06.POOL-OWNED'),
    M('C06', 'EQ the pool is rebound to a concatenation', 'flipjump/fjm/fjm_writer.py',
      "        self.data += data\n        return data_start", "        self.data = self.data + data\n        return data_start", None),
    M('C06', 'EQ the first chunk is copied with list()', 'flipjump/fjm/fjm_writer.py',
      "        self.data += data\n        return data_start", "        if data_start == 0:\n            self.data = list(data)\n        else:\n            self.data.extend(data)\n        return data_start", None),
]
