"""pycfg: statement-level control-flow graph for one Python function, plus a small
typestate / dataflow runner shared with the C CFG (ccfg produces the same Graph shape).

Node kinds: 'entry', 'exit', 'stmt' (simple statement), 'cond' (If/While test, ast = the test
expression), 'iter' (For header), 'with' (with-items), 'except' (handler entry), 'join'.
Edge labels: None, 'T', 'F', 'exc' (exceptional edge leaving from the PRE-state of the source
node: the statement's own effect did not complete), 'loop' (back edge of for), 'done'.
"""
from __future__ import annotations

import ast
from collections import defaultdict, deque
from typing import Any, Callable, Dict, Iterable, List, Optional, Sequence, Set, Tuple

from .core import AnalysisError


class Node:
    __slots__ = ('id', 'kind', 'ast', 'name', 'extra')

    def __init__(self, id: int, kind: str, ast_node: Any = None, name: str = '', extra: Any = None):
        self.id, self.kind, self.ast, self.name, self.extra = id, kind, ast_node, name, extra

    def __repr__(self) -> str:
        return f'<{self.id}:{self.kind}:{self.name}>'


class Graph:
    def __init__(self) -> None:
        self.nodes: List[Node] = []
        self.succ: Dict[int, List[Tuple[int, Optional[str]]]] = defaultdict(list)
        self.pred: Dict[int, List[Tuple[int, Optional[str]]]] = defaultdict(list)
        self.entry = -1
        self.exit = -1
        self.labels: Dict[str, int] = {}

    def new(self, kind: str, ast_node: Any = None, name: str = '', extra: Any = None) -> int:
        n = Node(len(self.nodes), kind, ast_node, name, extra)
        self.nodes.append(n)
        return n.id

    def edge(self, a: int, b: int, label: Optional[str] = None) -> None:
        if (b, label) not in self.succ[a]:
            self.succ[a].append((b, label))
            self.pred[b].append((a, label))

    def reachable(self, start: int, *, skip_labels: Sequence[str] = ()) -> Set[int]:
        seen = {start}
        work = [start]
        while work:
            n = work.pop()
            for m, lab in self.succ[n]:
                if lab in skip_labels:
                    continue
                if m not in seen:
                    seen.add(m)
                    work.append(m)
        return seen

    def dominators(self, entry: Optional[int] = None) -> Dict[int, Set[int]]:
        entry = self.entry if entry is None else entry
        reach = self.reachable(entry)
        dom: Dict[int, Set[int]] = {n: set(reach) for n in reach}
        dom[entry] = {entry}
        changed = True
        order = sorted(reach)
        while changed:
            changed = False
            for n in order:
                if n == entry:
                    continue
                preds = [p for p, _ in self.pred[n] if p in reach]
                if not preds:
                    continue
                new = set.intersection(*(dom[p] for p in preds)) | {n}
                if new != dom[n]:
                    dom[n] = new
                    changed = True
        return dom


# ---------------------------------------------------------------- Python CFG builder

class _Ctx:
    """where control goes for break/continue/return/raise at the current nesting."""
    __slots__ = ('brk', 'cont', 'ret', 'handlers')

    def __init__(self, brk: Optional[int], cont: Optional[int], ret: int, handlers: List[int]):
        self.brk, self.cont, self.ret, self.handlers = brk, cont, ret, handlers


def build_py_cfg(fn: ast.AST) -> Graph:
    g = Graph()
    g.entry = g.new('entry')
    g.exit = g.new('exit')
    exc_exit = g.new('exit', name='raise')      # uncaught exception leaves the function
    g.labels['raise'] = exc_exit

    def seq(stmts: Sequence[ast.stmt], nxt: int, cx: _Ctx) -> int:
        cur = nxt
        for st in reversed(stmts):
            cur = one(st, cur, cx)
        return cur

    def exc_targets(cx: _Ctx) -> List[int]:
        return cx.handlers if cx.handlers else [exc_exit]

    def add_exc(n: int, cx: _Ctx) -> None:
        for h in exc_targets(cx):
            g.edge(n, h, 'exc')

    def one(st: ast.stmt, nxt: int, cx: _Ctx) -> int:
        if isinstance(st, ast.If):
            c = g.new('cond', st.test, name='if')
            g.edge(c, seq(st.body, nxt, cx), 'T')
            g.edge(c, seq(st.orelse, nxt, cx) if st.orelse else nxt, 'F')
            add_exc(c, cx)
            return c
        if isinstance(st, ast.While):
            c = g.new('cond', st.test, name='while', extra=st)
            after = seq(st.orelse, nxt, cx) if st.orelse else nxt
            inner = _Ctx(nxt, c, cx.ret, cx.handlers)
            g.edge(c, seq(st.body, c, inner), 'T')
            is_true = isinstance(st.test, ast.Constant) and bool(st.test.value)
            if not is_true:
                g.edge(c, after, 'F')
            add_exc(c, cx)
            return c
        if isinstance(st, (ast.For, ast.AsyncFor)):
            c = g.new('iter', st, name='for')
            after = seq(st.orelse, nxt, cx) if st.orelse else nxt
            inner = _Ctx(nxt, c, cx.ret, cx.handlers)
            g.edge(c, seq(st.body, c, inner), 'T')
            g.edge(c, after, 'F')
            add_exc(c, cx)
            return c
        if isinstance(st, (ast.With, ast.AsyncWith)):
            w = g.new('with', st, name='with')
            g.edge(w, seq(st.body, nxt, cx))
            add_exc(w, cx)
            return w
        if isinstance(st, ast.Try):
            return build_try(st, nxt, cx)
        if isinstance(st, ast.Return):
            n = g.new('stmt', st, name='return')
            g.edge(n, cx.ret)
            add_exc(n, cx)
            return n
        if isinstance(st, ast.Raise):
            n = g.new('stmt', st, name='raise')
            for h in exc_targets(cx):
                g.edge(n, h, 'raise')
            return n
        if isinstance(st, ast.Break):
            n = g.new('stmt', st, name='break')
            if cx.brk is None:
                raise AnalysisError('break outside loop')
            g.edge(n, cx.brk)
            return n
        if isinstance(st, ast.Continue):
            n = g.new('stmt', st, name='continue')
            if cx.cont is None:
                raise AnalysisError('continue outside loop')
            g.edge(n, cx.cont)
            return n
        if isinstance(st, (ast.FunctionDef, ast.AsyncFunctionDef, ast.ClassDef, ast.Pass, ast.Global, ast.Nonlocal,
                           ast.Import, ast.ImportFrom)):
            n = g.new('stmt', st, name='decl')
            g.edge(n, nxt)
            return n
        if isinstance(st, ast.Match):
            raise AnalysisError('match statements are not modelled by pycfg')
        n = g.new('stmt', st, name=type(st).__name__.lower())
        g.edge(n, nxt)
        add_exc(n, cx)
        return n

    def build_try(st: ast.Try, nxt: int, cx: _Ctx) -> int:
        # finally: duplicated per continuation (normal / return / break / continue / exception)
        def through_finally(target: int) -> int:
            if not st.finalbody:
                return target
            return seq(st.finalbody, target, cx)

        after = through_finally(nxt)
        ret = through_finally(cx.ret) if st.finalbody else cx.ret
        brk = (through_finally(cx.brk) if st.finalbody else cx.brk) if cx.brk is not None else None
        cont = (through_finally(cx.cont) if st.finalbody else cx.cont) if cx.cont is not None else None
        outer_exc = [through_finally(h) for h in exc_targets(cx)] if st.finalbody else exc_targets(cx)

        # handlers run with the OUTER handlers (through finally)
        hcx = _Ctx(brk, cont, ret, outer_exc)
        handler_entries: List[int] = []
        for h in st.handlers:
            hn = g.new('except', h, name='except')
            g.edge(hn, seq(h.body, after, hcx))
            handler_entries.append(hn)
        body_handlers = handler_entries + outer_exc     # an exception may not match any handler
        bcx = _Ctx(brk, cont, ret, body_handlers)
        else_entry = seq(st.orelse, after, hcx) if st.orelse else after
        return seq(st.body, else_entry, bcx)

    top = _Ctx(None, None, g.exit, [])
    body = fn.body if hasattr(fn, 'body') else [fn]
    g.edge(g.entry, seq(body, g.exit, top))
    return g


# ---------------------------------------------------------------- typestate runner

Problem = Tuple[int, str, str]     # (node id, event, message)


def run_typestate(g: Graph, start: int, start_state: str,
                  events_of: Callable[[Node], List[str]],
                  allowed: Dict[str, Set[str]],
                  *, reset_at: Optional[Dict[int, Set[str]]] = None,
                  stop_at: Optional[Set[int]] = None,
                  edge_filter: Optional[Callable[[Node, Optional[str], Set[str]], bool]] = None,
                  ) -> Tuple[List[Tuple[int, str, List[str]]], Dict[int, Set[str]], Dict[str, int]]:
    """Forward may-analysis over sets of automaton states.
    events_of(node) -> ordered events executed by the node (applied on non-'exc' out-edges;
    'exc' edges propagate the pre-state).
    allowed[event] = set of states from which the event may occur; after it the state is the event.
    reset_at[node] = states allowed when reaching that node (loop head); state is reset to start_state.
    Returns (problems, IN states per node, event counts)."""
    IN: Dict[int, Set[str]] = defaultdict(set)
    IN[start].add(start_state)
    work = deque([start])
    problems: List[Tuple[int, str, List[str]]] = []
    seen_problem: Set[Tuple[int, str]] = set()
    counts: Dict[str, int] = defaultdict(int)
    counted: Set[Tuple[int, str]] = set()
    while work:
        n = work.popleft()
        node = g.nodes[n]
        cur = set(IN[n])
        if reset_at and n in reset_at:
            bad = cur - reset_at[n] - {start_state}
            if bad and (n, '<head>') not in seen_problem:
                seen_problem.add((n, '<head>'))
                problems.append((n, '<head>', sorted(bad)))
            cur = {start_state}
        pre = set(cur)
        for e in events_of(node):
            if (n, e) not in counted:
                counted.add((n, e))
                counts[e] += 1
            bad = {s for s in cur if s not in allowed.get(e, set())}
            if bad and (n, e) not in seen_problem:
                seen_problem.add((n, e))
                problems.append((n, e, sorted(bad)))
            cur = {e}
        if stop_at and n in stop_at:
            continue
        for m, lab in g.succ[n]:
            out = pre if lab == 'exc' else cur
            if edge_filter is not None and not edge_filter(node, lab, out):
                continue
            if not out <= IN[m]:
                IN[m] |= out
                work.append(m)
    return problems, IN, counts


def must_dataflow(g: Graph, start: int, gen_kill: Callable[[Node, Optional[str]], Tuple[Set[str], Any]],
                  universe_top: bool = True) -> Dict[int, Optional[frozenset]]:
    """Forward MUST analysis (intersection at joins). gen_kill(node, edge_label) -> (gen, kill)
    where kill is a set of facts or the string 'ALL'. Returns IN facts per node (None = unreached)."""
    IN: Dict[int, Optional[frozenset]] = defaultdict(lambda: None)
    IN[start] = frozenset()
    work = deque([start])
    while work:
        n = work.popleft()
        node = g.nodes[n]
        cur = IN[n]
        assert cur is not None
        for m, lab in g.succ[n]:
            gen, kill = gen_kill(node, lab)
            base = frozenset() if kill == 'ALL' else cur - frozenset(kill)
            out = base | frozenset(gen)
            new = out if IN[m] is None else (IN[m] & out)
            if new != IN[m]:
                IN[m] = new
                work.append(m)
    return IN


def path_to(g: Graph, start: int, target: int) -> List[int]:
    """Shortest path (BFS) for diagnostics."""
    prev: Dict[int, int] = {start: -1}
    q = deque([start])
    while q:
        n = q.popleft()
        if n == target:
            break
        for m, _ in g.succ[n]:
            if m not in prev:
                prev[m] = n
                q.append(m)
    if target not in prev:
        return []
    out = []
    n = target
    while n != -1:
        out.append(n)
        n = prev[n]
    return out[::-1]
