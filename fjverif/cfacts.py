"""cfacts: facts about flipjump/interpreter/_fjcore.c from clang's type-resolved JSON AST.

clang is used as a FRONT END only (-fsyntax-only -Xclang -ast-dump=json). Nothing is compiled
to an executable and nothing is run. The reduced AST (main-file declarations only) is cached by
content digest under /verif/.cache (git-ignored, purely an accelerator).
"""
from __future__ import annotations

import bisect
import hashlib
import json
import os
import subprocess
import sysconfig
import tempfile
from pathlib import Path
from typing import Any, Dict, Iterator, List, Optional, Set, Tuple

from .core import AnalysisError, VERIF_ROOT
from .pyfacts import Repo

C_REL = 'flipjump/interpreter/_fjcore.c'
CACHE_DIR = VERIF_ROOT / '.cache'


def _include_dir() -> str:
    inc = sysconfig.get_paths()['include']
    if not (Path(inc) / 'Python.h').is_file():
        raise AnalysisError(f'Python.h not found under {inc}; the C checks cannot run')
    return inc


def _clang_dump(src_text: str) -> Dict[str, Any]:
    inc = _include_dir()
    with tempfile.TemporaryDirectory(prefix='fjverif-c-') as td:
        p = Path(td) / '_fjcore.c'
        p.write_text(src_text)
        try:
            r = subprocess.run(['clang', '-fsyntax-only', '-I' + inc, '-Xclang', '-ast-dump=json', str(p)],
                               capture_output=True, text=True, timeout=120)
        except FileNotFoundError as e:
            raise AnalysisError('clang is not installed; the C checks cannot run') from e
        if r.returncode != 0:
            raise AnalysisError('clang rejected _fjcore.c: ' + r.stderr[-500:])
        tu = json.loads(r.stdout)
        return _reduce(tu, str(p))


def _reduce(tu: Dict[str, Any], main_path: str) -> Dict[str, Any]:
    """keep only top-level declarations located in the main file. clang omits 'file' when it is
    unchanged from the previously printed location, so the current file is tracked in document order."""
    cur = {'file': None}

    def scan(o: Any) -> None:
        if isinstance(o, dict):
            f = o.get('file')
            if isinstance(f, str):
                cur['file'] = f
            for k, v in o.items():
                if k in ('inner', 'includedFrom'):
                    continue
                if isinstance(v, (dict, list)):
                    scan(v)
            inner = o.get('inner')
            if inner:
                scan(inner)
        elif isinstance(o, list):
            for x in o:
                scan(x)

    kept = []
    for node in tu.get('inner', []):
        # the node's own loc is printed first: find which file the declaration is in
        loc = node.get('loc', {})
        f = cur['file']
        if 'spellingLoc' in loc or 'expansionLoc' in loc:
            for part in (loc.get('spellingLoc'), loc.get('expansionLoc')):
                if isinstance(part, dict) and isinstance(part.get('file'), str):
                    f = part['file']
        elif isinstance(loc.get('file'), str):
            f = loc['file']
        in_main = f == main_path
        scan(node)
        if in_main and not node.get('isImplicit'):
            kept.append(node)
    return {'kind': 'TranslationUnitDecl', 'inner': kept}


class CUnit:
    def __init__(self, repo: Repo, rel: str = C_REL):
        self.repo = repo
        self.rel = rel
        self.text = repo.src(rel)
        self.linestarts = [0] + [i + 1 for i, c in enumerate(self.text) if c == '\n']
        digest = hashlib.sha256((self.text + '\0' + _include_dir() + '\0v3').encode()).hexdigest()[:24]
        cache = CACHE_DIR / f'fjcore-{digest}.json'
        tu = None
        if cache.is_file():
            try:
                tu = json.loads(cache.read_text())
            except Exception:  # noqa: BLE001
                tu = None
        if tu is None:
            tu = _clang_dump(self.text)
            try:
                CACHE_DIR.mkdir(parents=True, exist_ok=True)
                tmp = cache.with_suffix(f'.{os.getpid()}.tmp')
                tmp.write_text(json.dumps(tu))
                os.replace(tmp, cache)
            except OSError:
                pass
        self.tu = tu
        self.funcs: Dict[str, Dict[str, Any]] = {}
        self.records: Dict[str, Dict[str, Any]] = {}
        self.vars: Dict[str, Dict[str, Any]] = {}
        for n in tu['inner']:
            k = n.get('kind')
            if k == 'FunctionDecl' and any(c.get('kind') == 'CompoundStmt' for c in n.get('inner', [])):
                self.funcs[n['name']] = n
            elif k == 'VarDecl':
                self.vars[n['name']] = n
            elif k == 'TypedefDecl':
                self.records[n['name']] = n
        self._set_parents()
        self.macros = self._scan_macros()

    # -- parents
    def _set_parents(self) -> None:
        self._parent: Dict[int, Dict[str, Any]] = {}
        for fn in self.funcs.values():
            stack = [fn]
            while stack:
                n = stack.pop()
                for c in n.get('inner', []):
                    if isinstance(c, dict):
                        self._parent[id(c)] = n
                        stack.append(c)

    def parent(self, n: Dict[str, Any]) -> Optional[Dict[str, Any]]:
        return self._parent.get(id(n))

    # -- locations (offsets are reliable; 'line' is omitted by clang when unchanged)
    @staticmethod
    def _off(loc: Dict[str, Any], which: str = 'offset') -> Optional[int]:
        if which in loc:
            return loc[which]
        exp = loc.get('expansionLoc')
        if exp and which in exp:
            return exp[which]
        return None

    def line_of(self, n: Dict[str, Any]) -> int:
        b = n.get('range', {}).get('begin', {})
        off = self._off(b)
        if off is None:
            return 0
        return bisect.bisect_right(self.linestarts, off)

    def src_of(self, n: Dict[str, Any]) -> str:
        r = n.get('range', {})
        b, e = r.get('begin', {}), r.get('end', {})
        bo, eo = self._off(b), self._off(e)
        tl = self._off(e, 'tokLen') or 1
        if bo is None or eo is None:
            return '?'
        return ' '.join(self.text[bo:eo + tl].split())

    def site(self, n: Dict[str, Any], func: str = '') -> str:
        return f'{self.rel}:{self.line_of(n)}' + (f' {func}' if func else '')

    # -- macros: #define NAME value   (object-like, integer-valued where possible)
    def _scan_macros(self) -> Dict[str, str]:
        import re
        out: Dict[str, str] = {}
        for m in re.finditer(r'^[ \t]*#[ \t]*define[ \t]+([A-Za-z_]\w*)[ \t]+(.+?)[ \t]*(?:/\*.*)?$', self.text, re.M):
            out[m.group(1)] = m.group(2).strip()
        return out

    def macro_int(self, name: str, _depth: int = 0) -> int:
        import re
        if name not in self.macros or _depth > 10:
            raise AnalysisError(f'C macro {name} not found')
        expr = self.macros[name]
        expr = re.sub(r'\b(0[xX][0-9a-fA-F]+|\d+)(?:[uU]?[lL]{0,2}|[lL]{0,2}[uU]?)\b', r'\1', expr)

        def sub(m: 're.Match[str]') -> str:
            return str(self.macro_int(m.group(0), _depth + 1))
        expr = re.sub(r'\b[A-Za-z_]\w*\b', sub, expr)
        if not re.fullmatch(r'[\s0-9a-fA-FxX()+\-*<>|&~]+', expr):
            raise AnalysisError(f'C macro {name} is not an integer expression: {expr}')
        return int(eval(expr, {'__builtins__': {}}, {})) & ((1 << 64) - 1) if not expr.strip().startswith('(-') \
            else int(eval(expr, {'__builtins__': {}}, {}))

    def func(self, name: str) -> Dict[str, Any]:
        if name not in self.funcs:
            raise AnalysisError(f'anchor missing: C function {name} in {self.rel}')
        return self.funcs[name]

    def body(self, name: str) -> Dict[str, Any]:
        return [c for c in self.func(name)['inner'] if c.get('kind') == 'CompoundStmt'][0]

    def params(self, name: str) -> List[str]:
        return [c['name'] for c in self.func(name).get('inner', []) if c.get('kind') == 'ParmVarDecl']


# ---------------------------------------------------------------- generic AST helpers

def walk(n: Dict[str, Any]) -> Iterator[Dict[str, Any]]:
    stack = [n]
    while stack:
        x = stack.pop()
        if not isinstance(x, dict):
            continue
        yield x
        stack.extend(reversed(x.get('inner', [])))


def strip(n: Dict[str, Any]) -> Dict[str, Any]:
    while n.get('kind') in ('ImplicitCastExpr', 'ParenExpr', 'CStyleCastExpr', 'ConstantExpr') and n.get('inner'):
        n = n['inner'][-1] if n.get('kind') == 'CStyleCastExpr' else n['inner'][0]
    return n


def calls(n: Dict[str, Any]) -> List[Dict[str, Any]]:
    return [c for c in walk(n) if c.get('kind') == 'CallExpr']


def callee(c: Dict[str, Any]) -> str:
    for x in walk(c['inner'][0]):
        if x.get('kind') == 'DeclRefExpr':
            return x['referencedDecl']['name']
    return ''


def call_args(c: Dict[str, Any]) -> List[Dict[str, Any]]:
    return c['inner'][1:]


def refs(n: Dict[str, Any]) -> Set[str]:
    return {x['referencedDecl']['name'] for x in walk(n) if x.get('kind') == 'DeclRefExpr'}


def members(n: Dict[str, Any]) -> Set[str]:
    return {x['name'] for x in walk(n) if x.get('kind') == 'MemberExpr'}


def is_assign(n: Dict[str, Any]) -> bool:
    return n.get('kind') == 'BinaryOperator' and n.get('opcode') == '='


def int_value(n: Dict[str, Any]) -> Optional[int]:
    """constant-fold a (macro-expanded) integer expression."""
    n = strip(n)
    k = n.get('kind')
    if k == 'IntegerLiteral':
        return int(n['value'])
    if k == 'UnaryOperator' and n.get('opcode') in ('-', '~'):
        v = int_value(n['inner'][0])
        if v is None:
            return None
        return -v if n['opcode'] == '-' else (~v) & ((1 << 64) - 1)
    if k == 'BinaryOperator':
        a, b = int_value(n['inner'][0]), int_value(n['inner'][1])
        if a is None or b is None:
            return None
        op = n.get('opcode')
        try:
            return {'+': a + b, '-': a - b, '*': a * b, '<<': a << b, '>>': a >> b, '|': a | b, '&': a & b}[op]
        except KeyError:
            return None
    return None


def dispatcher_of(cu: 'CUnit', impl: str) -> str:
    """the static function that dispatches to a force-inlined loop body (the unique caller of `impl`) - found by the call, so a
    rename of the dispatcher changes nothing."""
    callers = sorted({f for f in cu.funcs if f != impl and any(c.get('kind') == 'CallExpr' and callee(c) == impl for c in walk(cu.body(f)))})
    if len(callers) != 1:
        from .core import AnalysisError
        raise AnalysisError(f'{impl}: expected exactly one dispatching caller, found {callers}')
    return callers[0]
