"""cfacts: facts about flipjump/interpreter/_fjcore.c from clang's type-resolved JSON AST.

clang is used as a FRONT END only (-fsyntax-only -Xclang -ast-dump=json). Nothing is compiled
to an executable and nothing is run. The reduced AST (main-file declarations only) is cached by
content digest under /verif/.cache (git-ignored, purely an accelerator).
"""
from __future__ import annotations

import bisect
import hashlib
import json
import os
import subprocess
import sysconfig
import tempfile
from pathlib import Path
from typing import Any, Dict, Iterator, List, Optional, Sequence, Set, Tuple

from .core import AnalysisError, VERIF_ROOT
from .pyfacts import Repo

C_REL = 'flipjump/interpreter/_fjcore.c'
CACHE_DIR = VERIF_ROOT / '.cache'


def _include_dir() -> str:
    inc = sysconfig.get_paths()['include']
    if not (Path(inc) / 'Python.h').is_file():
        raise AnalysisError(f'Python.h not found under {inc}; the C checks cannot run')
    return inc


def _clang_dump(src_text: str) -> Dict[str, Any]:
    inc = _include_dir()
    with tempfile.TemporaryDirectory(prefix='fjverif-c-') as td:
        p = Path(td) / '_fjcore.c'
        p.write_text(src_text)
        try:
            r = subprocess.run(['clang', '-fsyntax-only', '-I' + inc, '-Xclang', '-ast-dump=json', str(p)],
                               capture_output=True, text=True, timeout=120)
        except FileNotFoundError as e:
            raise AnalysisError('clang is not installed; the C checks cannot run') from e
        if r.returncode != 0:
            raise AnalysisError('clang rejected _fjcore.c: ' + r.stderr[-500:])
        tu = json.loads(r.stdout)
        return _reduce(tu, str(p))


def _reduce(tu: Dict[str, Any], main_path: str) -> Dict[str, Any]:
    """keep only top-level declarations located in the main file. clang omits 'file' when it is
    unchanged from the previously printed location, so the current file is tracked in document order."""
    cur = {'file': None}

    def scan(o: Any) -> None:
        if isinstance(o, dict):
            f = o.get('file')
            if isinstance(f, str):
                cur['file'] = f
            for k, v in o.items():
                if k in ('inner', 'includedFrom'):
                    continue
                if isinstance(v, (dict, list)):
                    scan(v)
            inner = o.get('inner')
            if inner:
                scan(inner)
        elif isinstance(o, list):
            for x in o:
                scan(x)

    kept = []
    for node in tu.get('inner', []):
        # the node's own loc is printed first: find which file the declaration is in
        loc = node.get('loc', {})
        f = cur['file']
        if 'spellingLoc' in loc or 'expansionLoc' in loc:
            for part in (loc.get('spellingLoc'), loc.get('expansionLoc')):
                if isinstance(part, dict) and isinstance(part.get('file'), str):
                    f = part['file']
        elif isinstance(loc.get('file'), str):
            f = loc['file']
        in_main = f == main_path
        scan(node)
        if in_main and not node.get('isImplicit'):
            kept.append(node)
    return {'kind': 'TranslationUnitDecl', 'inner': kept}


class CUnit:
    def __init__(self, repo: Repo, rel: str = C_REL):
        self.repo = repo
        self.rel = rel
        self.text = repo.src(rel)
        self.linestarts = [0] + [i + 1 for i, c in enumerate(self.text) if c == '\n']
        digest = hashlib.sha256((self.text + '\0' + _include_dir() + '\0v3').encode()).hexdigest()[:24]
        cache = CACHE_DIR / f'fjcore-{digest}.json'
        tu = None
        if cache.is_file():
            try:
                tu = json.loads(cache.read_text())
            except Exception:  # noqa: BLE001
                tu = None
        if tu is None:
            tu = _clang_dump(self.text)
            try:
                CACHE_DIR.mkdir(parents=True, exist_ok=True)
                tmp = cache.with_suffix(f'.{os.getpid()}.tmp')
                tmp.write_text(json.dumps(tu))
                os.replace(tmp, cache)
            except OSError:
                pass
        # locals renamed by an edit are renamed back to the vocabulary the rules use where structure alone decides it (see
        # localnames.py): the text is rewritten (identifier for identifier, so lines keep their numbers) and parsed again
        stage = getattr(self, '_renorm_stage', 0)
        if stage < 5:
            from .localnames import renormalize_c, unflip_c
            new_text = (renormalize_c if stage == 0 else unflip_c)(self.text, tu, rel)
            self._renorm_stage = stage + 1
            if new_text is not None and new_text != self.text:
                repo2 = Repo(repo.root, overlay={**repo.overlay, rel: new_text})
                self.__init__(repo2, rel)            # type: ignore[misc]
                self.repo = repo
                return
            if stage == 0:
                # nothing to rename: the second stage (comparisons turned round) on the same parse
                new_text = unflip_c(self.text, tu, rel)
                self._renorm_stage = 2
                if new_text is not None and new_text != self.text:
                    repo2 = Repo(repo.root, overlay={**repo.overlay, rel: new_text})
                    self.__init__(repo2, rel)            # type: ignore[misc]
                    self.repo = repo
                    return
        self.tu = tu
        self.funcs: Dict[str, Dict[str, Any]] = {}
        self.records: Dict[str, Dict[str, Any]] = {}
        self.vars: Dict[str, Dict[str, Any]] = {}
        for n in tu['inner']:
            k = n.get('kind')
            if k == 'FunctionDecl' and any(c.get('kind') == 'CompoundStmt' for c in n.get('inner', [])):
                self.funcs[n['name']] = n
            elif k == 'VarDecl':
                self.vars[n['name']] = n
            elif k == 'TypedefDecl':
                self.records[n['name']] = n
        self._set_parents()
        self.macros = self._scan_macros()

    # -- parents
    def _set_parents(self) -> None:
        self._parent: Dict[int, Dict[str, Any]] = {}
        for fn in self.funcs.values():
            stack = [fn]
            while stack:
                n = stack.pop()
                for c in n.get('inner', []):
                    if isinstance(c, dict):
                        self._parent[id(c)] = n
                        stack.append(c)

    def parent(self, n: Dict[str, Any]) -> Optional[Dict[str, Any]]:
        return self._parent.get(id(n))

    # -- locations (offsets are reliable; 'line' is omitted by clang when unchanged)
    @staticmethod
    def _off(loc: Dict[str, Any], which: str = 'offset') -> Optional[int]:
        if which in loc:
            return loc[which]
        exp = loc.get('expansionLoc')
        if exp and which in exp:
            return exp[which]
        return None

    def line_of(self, n: Dict[str, Any]) -> int:
        b = n.get('range', {}).get('begin', {})
        off = self._off(b)
        if off is None:
            return 0
        return bisect.bisect_right(self.linestarts, off)

    def _span(self, n: Dict[str, Any]) -> Optional[Tuple[int, int]]:
        r = n.get('range', {})
        b, e = r.get('begin', {}), r.get('end', {})
        bo, eo = self._off(b), self._off(e)
        tl = self._off(e, 'tokLen') or 1
        if bo is None or eo is None:
            return None
        return bo, eo + tl

    def _raw_src(self, n: Dict[str, Any]) -> str:
        sp = self._span(n)
        if sp is None:
            return '?'
        if not n.get('_dirty'):
            return self.text[sp[0]:sp[1]]
        # a node of an inlined body: the text of its own range with every replaced descendant (a substituted parameter, an
        # inlined helper call) spliced in at the range of the node it replaced
        reps: List[Tuple[int, int, str]] = []

        def collect(x: Dict[str, Any]) -> None:
            for ch in x.get('inner', []) or []:
                if not isinstance(ch, dict):
                    continue
                if '_orig' in ch:
                    reps.append((ch['_orig'][0], ch['_orig'][1], ch.get('_as') or self._raw_src(ch)))
                elif ch.get('_dirty'):
                    collect(ch)
        collect(n)
        out, pos = [], sp[0]
        for b0, e0, t in sorted(reps):
            if b0 < pos or e0 > sp[1]:
                continue
            out.append(self.text[pos:b0])
            out.append(t)
            pos = e0
        out.append(self.text[pos:sp[1]])
        return ''.join(out)

    def src_of(self, n: Dict[str, Any]) -> str:
        if '_as' in n:
            return ' '.join(n['_as'].split())
        return ' '.join(self._raw_src(n).split())

    def members_written_by_call(self, fname: str) -> Set[str]:
        """'.member' keys a call of fname may store into: the stores of fname and of everything it reaches inside the unit;
        '<call>' (anything) for a Python callback; nothing for other library functions (they do not know the struct)."""
        if not hasattr(self, '_writes_star'):
            direct: Dict[str, Set[str]] = {}
            callees: Dict[str, Set[str]] = {}
            for f in self.funcs:
                ws: Set[str] = set()
                cs: Set[str] = set()
                for n in walk(self.func(f)):
                    k = n.get('kind')
                    if is_assign(n) or k == 'CompoundAssignOperator' or (k == 'UnaryOperator' and n.get('opcode') in ('++', '--')):
                        l0 = strip(n['inner'][0])
                        while l0.get('kind') in ('ArraySubscriptExpr',) or (l0.get('kind') == 'UnaryOperator' and l0.get('opcode') == '*'):
                            l0 = strip(l0['inner'][0])
                        if l0.get('kind') == 'MemberExpr':
                            ws.add('.' + l0.get('name', ''))
                    if k == 'CallExpr':
                        cs.add(callee(n))
                direct[f], callees[f] = ws, cs
            star: Dict[str, Set[str]] = {f: set(direct[f]) for f in self.funcs}
            changed = True
            while changed:
                changed = False
                for f in self.funcs:
                    for c in callees[f]:
                        add = star.get(c, {'<call>'} if c.startswith('PyObject_Call') else ({'.flat', '.words'} if c in ('memcpy', 'memset') else set()))
                        if not add <= star[f]:
                            star[f] |= add
                            changed = True
            self._writes_star = star
        if fname in self._writes_star:
            return self._writes_star[fname]
        if fname.startswith('PyObject_Call'):
            return {'<call>'}
        if fname in ('memcpy', 'memset'):
            return {'.flat', '.words'}
        return set()

    # -- opt-in normaliser: single-definition call-free locals read as the expression they name
    def inline_pure_locals(self, fname: str) -> int:
        """from now on body(fname) is a copy in which every local that is defined exactly once, by its declaration initialiser, with a
        call-free, side-effect-free expression whose operands are not assigned later in the function, is substituted into its uses
        (`Slot* const slots = self->slots; .. slots[i]` reads `self->slots[i]`). The declarations stay. Returns the number of
        locals substituted. src_of() of the copy renders the substituted text."""
        import copy
        body = copy.deepcopy(self.body(fname))
        order = list(walk(body))
        pos = {id(n): k for k, n in enumerate(order)}

        def lvalue_key(n: Dict[str, Any]) -> Optional[str]:
            n = strip(n)
            if n.get('kind') == 'DeclRefExpr':
                return n['referencedDecl']['name']
            if n.get('kind') == 'MemberExpr':
                return '.' + n.get('name', '')
            if n.get('kind') in ('ArraySubscriptExpr',) and n.get('inner'):
                return lvalue_key(n['inner'][0])
            if n.get('kind') == 'UnaryOperator' and n.get('opcode') == '*' and n.get('inner'):
                return lvalue_key(n['inner'][0])
            return None
        writes: List[Tuple[int, str]] = []          # (position, what is written: local name or .member)
        addr_taken: Set[str] = set()
        for n in order:
            k = n.get('kind')
            if is_assign(n) or k == 'CompoundAssignOperator' or (k == 'UnaryOperator' and n.get('opcode') in ('++', '--')):
                key = lvalue_key(n['inner'][0])
                if key:
                    writes.append((pos[id(n)], key))
            if k == 'UnaryOperator' and n.get('opcode') == '&' and strip(n['inner'][0]).get('kind') == 'DeclRefExpr':
                addr_taken.add(strip(n['inner'][0])['referencedDecl']['name'])          # &local (not &local[i]: that is an element)
            if k == 'CallExpr':
                # a call writes the members its (transitive, unit-local) callees store into; a Python callback may re-enter anything
                for key in self.members_written_by_call(callee(n)):
                    writes.append((pos[id(n)], key))
        # definitions: a declaration initialiser, or - for a local declared without one - its only assignment, when that is a
        # top-level statement of the function (it then dominates everything after it)
        top_level = {id(x) for x in body.get('inner', []) if isinstance(x, dict)}
        defs_: List[Tuple[str, Dict[str, Any], Dict[str, Any]]] = []          # (name, defining node, value)
        for n in order:
            if n.get('kind') == 'VarDecl':
                init = [c for c in n.get('inner', []) or [] if isinstance(c, dict) and c.get('kind')]
                if init:
                    defs_.append((n['name'], n, init[-1]))
        for n in order:
            if is_assign(n) and id(n) in top_level and strip(n['inner'][0]).get('kind') == 'DeclRefExpr':
                nm = strip(n['inner'][0])['referencedDecl']['name']
                if strip(n['inner'][0])['referencedDecl'].get('kind') == 'VarDecl' and sum(1 for _, key in writes if key == nm) == 1 \
                        and not any(dn == nm for dn, _, _ in defs_):
                    defs_.append((nm, n, n['inner'][1]))
        loops_ = [n for n in order if n.get('kind') in ('ForStmt', 'WhileStmt', 'DoStmt')]

        def in_same_loop(a: Dict[str, Any], b: Dict[str, Any]) -> bool:
            return any(any(x is a for x in walk(lp)) and any(x is b for x in walk(lp)) for lp in loops_)
        done = 0
        for name, d, val in defs_:
            own_write = 1 if is_assign(d) else 0
            if name in addr_taken or sum(1 for _, key in writes if key == name) != own_write:
                continue
            if any(x.get('kind') in ('CallExpr', 'CompoundAssignOperator') or is_assign(x) or
                   (x.get('kind') == 'UnaryOperator' and x.get('opcode') in ('++', '--')) for x in walk(val)):
                continue
            if strip(val).get('kind') in ('InitListExpr', 'StringLiteral'):
                continue
            reads = set()
            for x in walk(val):
                if x.get('kind') == 'DeclRefExpr':
                    reads.add(x['referencedDecl']['name'])
                elif x.get('kind') == 'MemberExpr':
                    reads.add('.' + x.get('name', ''))
            has_member = any(r.startswith('.') for r in reads)
            dpos = pos[id(d)]
            uses = [x for x in order if x.get('kind') == 'DeclRefExpr' and x.get('referencedDecl', {}).get('name') == name
                    and x.get('referencedDecl', {}).get('kind') == 'VarDecl' and pos[id(x)] > dpos and not (is_assign(d) and x is strip(d['inner'][0]))]
            if not uses:
                continue
            last_use = max(pos[id(x)] for x in uses)
            wnodes = [(p_, key, order[p_]) for p_, key in writes if p_ > dpos and (key in reads or (key == '<call>' and has_member))
                      and not (is_assign(d) and order[p_] is d)]
            # an operand written between the definition and a use - or later, but in a loop that also holds a use - blocks it
            if any(p_ < last_use or any(in_same_loop(wn, u) for u in uses) for p_, key, wn in wnodes):
                continue
            txt = self.src_of(val)
            simple = strip(val).get('kind') in ('DeclRefExpr', 'IntegerLiteral', 'MemberExpr')

            def subst(node: Dict[str, Any]) -> bool:
                dirty = False
                inner = node.get('inner', []) or []
                for i, ch in enumerate(inner):
                    if not isinstance(ch, dict) or ch is d:
                        continue
                    if ch.get('kind') == 'DeclRefExpr' and ch.get('referencedDecl', {}).get('name') == name \
                            and ch.get('referencedDecl', {}).get('kind') == 'VarDecl' and pos.get(id(ch), -1) > dpos:
                        inner[i] = {'kind': 'ParenExpr', 'inner': [copy.deepcopy(val)], 'range': ch.get('range', {}), 'type': ch.get('type', {}),
                                    '_orig': self._span(ch), '_as': txt if simple else f'({txt})'}
                        dirty = True
                    elif subst(ch):
                        dirty = True
                if dirty:
                    node['_dirty'] = True
                return dirty
            if subst(body):
                done += 1
        if done:
            def mark(n: Dict[str, Any]) -> bool:
                dd = False
                for ch in n.get('inner', []) or []:
                    if isinstance(ch, dict):
                        if mark(ch) or '_orig' in ch:
                            dd = True
                if dd:
                    n['_dirty'] = True
                return dd
            mark(body)
            if not hasattr(self, '_body_override'):
                self._body_override = {}
            self._body_override[fname] = body
            stack = [body]
            self._parent[id(body)] = self.func(fname)
            while stack:
                n = stack.pop()
                for c in n.get('inner', []) or []:
                    if isinstance(c, dict):
                        self._parent[id(c)] = n
                        stack.append(c)
        return done

    # -- opt-in normaliser: statement-level calls of unit-local void helpers read like the code they were extracted from
    def inline_void_helpers(self, fname: str, keep: Sequence[str] = (), depth: int = 2) -> None:
        """from now on body(fname) is a copy in which every statement that is just a call of a unit-local `void` helper (not in
        `keep`, no return statement inside, not recursive) is replaced by the helper's body with the parameters replaced by the
        call-site argument expressions; src_of() of the copy renders the substituted text. Helper locals keep their names."""
        import copy
        body = copy.deepcopy(self.body(fname))

        def helper_of(stmt: Dict[str, Any]) -> Optional[Tuple[str, Dict[str, Any]]]:
            c = stmt
            while c.get('kind') in ('ParenExpr', 'CStyleCastExpr', 'ImplicitCastExpr') and c.get('inner'):
                c = c['inner'][-1]
            if c.get('kind') != 'CallExpr':
                return None
            name = callee(c)
            if name not in self.funcs or name in keep or name == fname:
                return None
            qt = self.funcs[name].get('type', {}).get('qualType', '')
            if not qt.startswith('void ('):
                return None
            return name, c

        def substitute(hbody: Dict[str, Any], binding: Dict[str, Dict[str, Any]]) -> bool:
            """replace parameter references in place; returns True if anything inside was replaced (the node is dirty)"""
            dirty = False
            inner = hbody.get('inner', []) or []
            for i, ch in enumerate(inner):
                if not isinstance(ch, dict):
                    continue
                if ch.get('kind') == 'DeclRefExpr' and ch.get('referencedDecl', {}).get('kind') == 'ParmVarDecl' \
                        and ch['referencedDecl'].get('name') in binding:
                    arg = copy.deepcopy(binding[ch['referencedDecl']['name']])
                    sp = self._span(ch)
                    txt = self.src_of(arg)
                    simple = strip(arg).get('kind') in ('DeclRefExpr', 'IntegerLiteral', 'MemberExpr')
                    rep = {'kind': 'ParenExpr', 'inner': [arg], 'range': ch.get('range', {}), 'type': ch.get('type', {}),
                           '_orig': sp, '_as': txt if simple else f'({txt})'}
                    inner[i] = rep
                    dirty = True
                elif substitute(ch, binding):
                    dirty = True
            if dirty:
                hbody['_dirty'] = True
            return dirty

        def expand(node: Dict[str, Any], level: int) -> bool:
            dirty = False
            inner = node.get('inner', []) or []
            for i, ch in enumerate(inner):
                if not isinstance(ch, dict):
                    continue
                h = helper_of(ch) if node.get('kind') in ('CompoundStmt', 'IfStmt', 'ForStmt', 'WhileStmt', 'DoStmt', 'LabelStmt', 'CaseStmt', 'DefaultStmt') \
                    and level > 0 else None
                if h is not None:
                    name, call = h
                    params = self.params(name)
                    args = call_args(call)
                    if len(params) == len(args):
                        hb = copy.deepcopy(self.body(name))
                        # an early `return;` of the helper leaves the inlined block: a goto to a label appended to it
                        rets = [x for x in walk(hb) if x.get('kind') == 'ReturnStmt']
                        if rets:
                            self._inline_serial = getattr(self, '_inline_serial', 0) + 1
                            lid = f'inlined-end-{self._inline_serial}'
                            for r_ in rets:
                                sp0 = self._span(r_)
                                keep_range = r_.get('range', {})
                                r_.clear()
                                r_.update({'kind': 'GotoStmt', 'targetLabelDeclId': lid, 'range': keep_range, '_as': f'goto end_of_{name}',
                                           '_was_return': True})
                                if sp0:
                                    r_['_orig'] = sp0
                            hb.setdefault('inner', []).append({'kind': 'LabelStmt', 'declId': lid, 'name': f'end_of_{name}',
                                                               'inner': [{'kind': 'NullStmt'}], 'range': {}})
                        substitute(hb, dict(zip(params, args)))
                        expand(hb, level - 1)
                        hb['_orig'] = self._span(ch)
                        hb['_dirty'] = True
                        hb['_inlined_from'] = name
                        inner[i] = hb
                        dirty = True
                        continue
                if expand(ch, level):
                    dirty = True
            if dirty:
                node['_dirty'] = True
            return dirty
        def mark(n: Dict[str, Any]) -> bool:
            d = False
            for ch in n.get('inner', []) or []:
                if isinstance(ch, dict):
                    sub = mark(ch)
                    if sub or '_orig' in ch:
                        d = True
            if d:
                n['_dirty'] = True
            return d
        if expand(body, depth):
            mark(body)
            if not hasattr(self, '_body_override'):
                self._body_override: Dict[str, Dict[str, Any]] = {}
            self._body_override[fname] = body
            stack = [body]
            self._parent[id(body)] = self.func(fname)
            while stack:
                n = stack.pop()
                for c in n.get('inner', []) or []:
                    if isinstance(c, dict):
                        self._parent[id(c)] = n
                        stack.append(c)

    def site(self, n: Dict[str, Any], func: str = '') -> str:
        return f'{self.rel}:{self.line_of(n)}' + (f' {func}' if func else '')

    # -- macros: #define NAME value   (object-like, integer-valued where possible)
    def _scan_macros(self) -> Dict[str, str]:
        import re
        out: Dict[str, str] = {}
        for m in re.finditer(r'^[ \t]*#[ \t]*define[ \t]+([A-Za-z_]\w*)[ \t]+(.+?)[ \t]*(?:/\*.*)?$', self.text, re.M):
            out[m.group(1)] = m.group(2).strip()
        return out

    def macro_int(self, name: str, _depth: int = 0) -> int:
        import re
        if name not in self.macros or _depth > 10:
            raise AnalysisError(f'C macro {name} not found')
        expr = self.macros[name]
        expr = re.sub(r'\b(0[xX][0-9a-fA-F]+|\d+)(?:[uU]?[lL]{0,2}|[lL]{0,2}[uU]?)\b', r'\1', expr)

        def sub(m: 're.Match[str]') -> str:
            return str(self.macro_int(m.group(0), _depth + 1))
        expr = re.sub(r'\b[A-Za-z_]\w*\b', sub, expr)
        if not re.fullmatch(r'[\s0-9a-fA-FxX()+\-*<>|&~]+', expr):
            raise AnalysisError(f'C macro {name} is not an integer expression: {expr}')
        return int(eval(expr, {'__builtins__': {}}, {})) & ((1 << 64) - 1) if not expr.strip().startswith('(-') \
            else int(eval(expr, {'__builtins__': {}}, {}))

    def func(self, name: str) -> Dict[str, Any]:
        if name not in self.funcs:
            raise AnalysisError(f'anchor missing: C function {name} in {self.rel}')
        return self.funcs[name]

    def body(self, name: str) -> Dict[str, Any]:
        ov = getattr(self, '_body_override', None)
        if ov and name in ov:
            return ov[name]
        return [c for c in self.func(name)['inner'] if c.get('kind') == 'CompoundStmt'][0]

    def params(self, name: str) -> List[str]:
        return [c['name'] for c in self.func(name).get('inner', []) if c.get('kind') == 'ParmVarDecl']


# ---------------------------------------------------------------- generic AST helpers

def walk(n: Dict[str, Any]) -> Iterator[Dict[str, Any]]:
    stack = [n]
    while stack:
        x = stack.pop()
        if not isinstance(x, dict):
            continue
        yield x
        stack.extend(reversed(x.get('inner', [])))


def strip(n: Dict[str, Any]) -> Dict[str, Any]:
    while n.get('kind') in ('ImplicitCastExpr', 'ParenExpr', 'CStyleCastExpr', 'ConstantExpr') and n.get('inner'):
        n = n['inner'][-1] if n.get('kind') == 'CStyleCastExpr' else n['inner'][0]
    return n


def calls(n: Dict[str, Any]) -> List[Dict[str, Any]]:
    return [c for c in walk(n) if c.get('kind') == 'CallExpr']


def callee(c: Dict[str, Any]) -> str:
    for x in walk(c['inner'][0]):
        if x.get('kind') == 'DeclRefExpr':
            return x['referencedDecl']['name']
    return ''


def call_args(c: Dict[str, Any]) -> List[Dict[str, Any]]:
    return c['inner'][1:]


def refs(n: Dict[str, Any]) -> Set[str]:
    return {x['referencedDecl']['name'] for x in walk(n) if x.get('kind') == 'DeclRefExpr'}


def members(n: Dict[str, Any]) -> Set[str]:
    return {x['name'] for x in walk(n) if x.get('kind') == 'MemberExpr'}


def is_assign(n: Dict[str, Any]) -> bool:
    return n.get('kind') == 'BinaryOperator' and n.get('opcode') == '='


def int_value(n: Dict[str, Any]) -> Optional[int]:
    """constant-fold a (macro-expanded) integer expression."""
    n = strip(n)
    k = n.get('kind')
    if k == 'IntegerLiteral':
        return int(n['value'])
    if k == 'UnaryOperator' and n.get('opcode') in ('-', '~'):
        v = int_value(n['inner'][0])
        if v is None:
            return None
        return -v if n['opcode'] == '-' else (~v) & ((1 << 64) - 1)
    if k == 'BinaryOperator':
        a, b = int_value(n['inner'][0]), int_value(n['inner'][1])
        if a is None or b is None:
            return None
        op = n.get('opcode')
        try:
            return {'+': a + b, '-': a - b, '*': a * b, '<<': a << b, '>>': a >> b, '|': a | b, '&': a & b}[op]
        except KeyError:
            return None
    return None


def dispatcher_of(cu: 'CUnit', impl: str) -> str:
    """the static function that dispatches to a force-inlined loop body (the unique caller of `impl`) - found by the call, so a
    rename of the dispatcher changes nothing."""
    callers = sorted({f for f in cu.funcs if f != impl and any(c.get('kind') == 'CallExpr' and callee(c) == impl for c in walk(cu.body(f)))})
    if len(callers) != 1:
        from .core import AnalysisError
        raise AnalysisError(f'{impl}: expected exactly one dispatching caller, found {callers}')
    return callers[0]


# ---------------------------------------------------------------- local definitions, aliases, wrapping cursors

def local_defs(cu: 'CUnit', fname: str) -> Dict[str, List[Dict[str, Any]]]:
    """name -> the value expressions of every plain definition of that local (declaration initialiser or `v = E`); a local that
    is also modified in any other way (++, --, op=, address taken) gets an extra None entry."""
    out: Dict[str, List[Any]] = {}
    for n in walk(cu.body(fname)):
        k = n.get('kind')
        if k == 'VarDecl' and n.get('inner'):
            init = [c for c in n['inner'] if isinstance(c, dict) and c.get('kind')]
            if init:
                out.setdefault(n['name'], []).append(init[-1])
        elif is_assign(n):
            l0 = strip(n['inner'][0])
            if l0.get('kind') == 'DeclRefExpr':
                out.setdefault(l0['referencedDecl']['name'], []).append(n['inner'][1])
        elif k == 'CompoundAssignOperator' or (k == 'UnaryOperator' and n.get('opcode') in ('++', '--', '&')):
            l0 = strip(n['inner'][0])
            if l0.get('kind') == 'DeclRefExpr':
                out.setdefault(l0['referencedDecl']['name'], []).append(None)
    return out


def for_iteration_space(cu: 'CUnit', fname: str, lp: Dict[str, Any]) -> Optional[Dict[str, Any]]:
    """What a `for` loop iterates over, whichever way it is written:
      for (v = 0; v < N; v++)                    -> {var: v, bound: N, base: None}           element: BASE[v]
      for (p = BASE; p < BASE + N; p++)          -> {var: p, bound: N, base: BASE}           element: *p / p->f
      (the end pointer may be a local assigned `BASE + N` once and never otherwise written).
    None when the loop has neither shape."""
    from . import linexpr as lx
    c_ir = lx.c_ir
    if lp.get('kind') != 'ForStmt':
        return None
    init, _cv, cond, inc, _body = (lp['inner'] + [None] * 5)[:5]
    if not (isinstance(init, dict) and is_assign(init)):
        return None
    var = cu.src_of(init['inner'][0])
    if not (isinstance(inc, dict) and inc.get('kind') == 'UnaryOperator' and inc.get('opcode') == '++'
            and cu.src_of(inc['inner'][0]) == var):
        return None
    ci = c_ir(cond, cu.src_of) if isinstance(cond, dict) and cond.get('kind') else None
    if not (ci is not None and ci[0] == 'cmp' and list(ci[1]) == ['<'] and lx.show(ci[2][0]) == var):
        return None
    if int_value(strip(init['inner'][1])) == 0:
        return {'var': var, 'bound': lx.show(ci[2][1]), 'base': None}
    base = lx.to_lin(c_ir(init['inner'][1], cu.src_of), lx.Env())
    end_ir = ci[2][1]
    if end_ir[0] == 'sym':
        defs = local_defs(cu, fname).get(end_ir[1], [])
        if len(defs) != 1 or defs[0] is None:
            return None
        end_ir = c_ir(defs[0], cu.src_of)
    end = lx.to_lin(end_ir, lx.Env())
    diff = lx.lin_add(end, base, -1)
    names = [k for k, v in base.items() if k != '' and v != 0]
    if len(names) != 1 or base.get('', 0) != 0 or base[names[0]] != 1:
        return None
    return {'var': var, 'bound': lx.lin_show(diff), 'base': lx.lin_show(base)}


def alias_binding(cu: 'CUnit', fname: str) -> Dict[str, Any]:
    """single-definition locals whose value is just another name / field / literal (possibly cast): name -> IR of that value.
    `const uint64_t ring_length = (uint64_t)last_ops_length;` makes ring_length read as last_ops_length."""
    from .linexpr import c_ir, ir_subst
    params = set(cu.params(fname))
    out: Dict[str, Any] = {}
    for name, vals in local_defs(cu, fname).items():
        if name in params or len(vals) != 1 or vals[0] is None:
            continue
        ir = c_ir(vals[0], cu.src_of)
        if ir[0] in ('sym', 'attr', 'num'):
            out[name] = ir
    for _ in range(3):
        out = {k: ir_subst(v, {a: b for a, b in out.items() if a != k}) for k, v in out.items()}
    return out


def wrapping_cursors(cu: 'CUnit', fname: str) -> Dict[str, Dict[str, Any]]:
    """locals used as a wrapping ring cursor: defined once outside any loop as `E % L`, and inside exactly one loop modified
    only by an increment by one that is directly followed by the wrap `if (c == L) c = 0;` (same L after alias resolution).
    Then c < L holds wherever c is read outside the increment/wrap pair, and in iteration k of the loop c == (E + k) % L.
    -> name -> dict(init=IR of E % L, mod=IR of L, loop=the loop statement)."""
    from .linexpr import c_ir, ir_subst, show
    al = alias_binding(cu, fname)
    out: Dict[str, Dict[str, Any]] = {}
    body = cu.body(fname)
    for name, vals in local_defs(cu, fname).items():
        plain = [v for v in vals if v is not None]
        if len(plain) != 2 or vals.count(None) != 1:
            continue
        irs = [ir_subst(c_ir(v, cu.src_of), al) for v in plain]
        inits = [ir for ir in irs if ir[0] == 'bin' and ir[1] == '%']
        zeros = [ir for ir in irs if ir == ('num', 0)]
        if len(inits) != 1 or len(zeros) != 1:
            continue
        mod = inits[0][3]
        # the increment and the wrap: adjacent statements of one compound inside a loop
        found = None
        inc_stmt = None
        for comp in [x for x in walk(body) if x.get('kind') == 'CompoundStmt']:
            sts = [x for x in comp.get('inner', []) if isinstance(x, dict)]
            for a, b in zip(sts, sts[1:]):
                ia = strip(a)
                is_inc = (ia.get('kind') == 'UnaryOperator' and ia.get('opcode') == '++' and strip(ia['inner'][0]).get('referencedDecl', {}).get('name') == name) or \
                         (ia.get('kind') == 'CompoundAssignOperator' and ia.get('opcode') == '+=' and strip(ia['inner'][0]).get('referencedDecl', {}).get('name') == name
                          and int_value(strip(ia['inner'][1])) == 1)
                if not is_inc or b.get('kind') != 'IfStmt' or len(b.get('inner', [])) != 2:
                    continue
                t = ir_subst(c_ir(b['inner'][0], cu.src_of), al)
                if not (t[0] == 'cmp' and t[1] in (['=='], ['>=']) and t[2][0] == ('sym', name) and show(t[2][1]) == show(mod)):
                    continue
                resets = [x for x in walk(b['inner'][1]) if is_assign(x) and strip(x['inner'][0]).get('referencedDecl', {}).get('name') == name
                          and int_value(strip(x['inner'][1])) == 0]
                if len(resets) == 1:
                    found = comp
                    inc_stmt = a
        if found is None:
            continue
        loop = None
        cur = cu.parent(found)
        while isinstance(cur, dict):
            if cur.get('kind') in ('ForStmt', 'WhileStmt', 'DoStmt'):
                loop = cur
                break
            cur = cu.parent(cur)
        if loop is None:
            continue
        out[name] = dict(init=inits[0], mod=mod, loop=loop, inc=inc_stmt)
    return out
