"""names: which characters user identifiers can contain (from the lexer's token regexes) and which
synthetic name families are written into dictionaries shared with user identifiers (C03, C14, C16)."""
from __future__ import annotations

import ast
import re
from typing import Any, Dict, List, Optional, Set, Tuple

from .core import AnalysisError
from .pyfacts import Repo, dotted, fold, norm, resolve_names, walk_no_nested

PARSER = 'flipjump/assembler/fj_parser.py'
PRE = 'flipjump/assembler/preprocessor.py'
ASM = 'flipjump/assembler/assembler.py'
CONSTS = 'flipjump/utils/constants.py'


def regex_alphabet(pattern: str) -> Set[str]:
    """every character some match of the regex can contain (over-approximation from the regex AST)."""
    import re._parser as sre          # type: ignore[import-not-found]
    tree = sre.parse(pattern)
    out: Set[str] = set()

    def rec(items: Any) -> None:
        for op, av in items:
            name = str(op)
            if name == 'LITERAL':
                out.add(chr(av))
            elif name == 'IN':
                for k, v in av:
                    kn = str(k)
                    if kn == 'LITERAL':
                        out.add(chr(v))
                    elif kn == 'RANGE':
                        out.update(chr(c) for c in range(v[0], v[1] + 1))
                    elif kn == 'CATEGORY':
                        raise AnalysisError(f'regex category in identifier pattern: {v}')
                    elif kn == 'NEGATE':
                        raise AnalysisError('negated class in identifier pattern')
            elif name in ('MAX_REPEAT', 'MIN_REPEAT'):
                rec(av[2])
            elif name == 'SUBPATTERN':
                rec(av[3])
            elif name == 'BRANCH':
                for br in av[1]:
                    rec(br)
            elif name == 'ANY':
                raise AnalysisError('`.` wildcard in identifier pattern')
            elif name in ('AT',):
                pass
            else:
                raise AnalysisError(f'unsupported regex node {name} in identifier pattern')
    rec(tree)
    return out


def identifier_alphabet(repo: Repo) -> Set[str]:
    id_re = repo.const(PARSER, 'id_re')
    dot = repo.const(PARSER, 'dot_id_re')
    # the lexer must use exactly these for ID / DOT_ID
    lex = repo.cls(PARSER, 'FJLexer')
    toks = {t.id: norm(st.value) for st in lex.body if isinstance(st, ast.Assign) for t in st.targets if isinstance(t, ast.Name)}
    if toks.get('ID') != 'id_re' or toks.get('DOT_ID') != 'dot_id_re':
        raise AnalysisError(f'FJLexer.ID/DOT_ID are no longer id_re/dot_id_re: {toks.get("ID")}, {toks.get("DOT_ID")}')
    return regex_alphabet(id_re) | regex_alphabet(dot)


def fixed_text_of_fstring(node: ast.AST, repo: Repo, rel: str) -> str:
    """the literal characters an f-string (or constant / named constant) always contributes."""
    if isinstance(node, ast.Constant) and isinstance(node.value, str):
        return node.value
    if isinstance(node, ast.Name):
        for r in (rel, CONSTS):
            try:
                v = repo.const(r, node.id)
                if isinstance(v, str):
                    return v
            except AnalysisError:
                continue
        return ''
    if isinstance(node, ast.JoinedStr):
        out = ''
        for v in node.values:
            if isinstance(v, ast.Constant):
                out += str(v.value)
            elif isinstance(v, ast.FormattedValue):
                out += fixed_text_of_fstring(v.value, repo, rel)
        return out
    if isinstance(node, ast.BinOp) and isinstance(node.op, ast.Add):
        return fixed_text_of_fstring(node.left, repo, rel) + fixed_text_of_fstring(node.right, repo, rel)
    if isinstance(node, ast.IfExp):
        a, b = fixed_text_of_fstring(node.body, repo, rel), fixed_text_of_fstring(node.orelse, repo, rel)
        return ''.join(ch for ch in a if ch in b)       # characters present either way
    return ''


def label_table_writers(repo: Repo) -> List[Tuple[str, str, ast.AST, ast.AST]]:
    """(rel, function, key expr, store node) for every subscript store into the label dictionary."""
    out = []
    for rel in (PRE, ASM):
        mod = repo.mod(rel)
        for fn in [n for n in ast.walk(mod) if isinstance(n, (ast.FunctionDef,))]:
            for n in walk_no_nested(fn):
                if isinstance(n, ast.Subscript) and isinstance(n.ctx, ast.Store) and norm(n.value) == 'self.labels':
                    out.append((rel, fn.name, resolve_names(fn, n.slice), n))          # a key named in a local reads as the expression
    return out
