"""C15 - debugging never changes the program and stops exactly where asked (structural clauses)."""
from __future__ import annotations

import ast
from typing import Any, Dict, List, Optional, Set, Tuple

from ..core import AnalysisError, Report
from ..excflow import make_hierarchy
from ..pycfg import run_typestate
from ..pyfacts import Repo, clone, eval_int_expr, inline_block, inline_pure_temps, calls, dotted, enclosing_handlers, handler_types, norm, walk_no_nested
from ..spec import machine as M
from ..steps import PyLoop, RUN_REL

BRK = 'flipjump/interpreter/debugging/breakpoints.py'
UQ = 'flipjump/interpreter/debugging/user_queries.py'
DM = 'flipjump/interpreter/io_devices/device_memory.py'


def rule_pause_first(rep: Report, repo: Repo) -> None:
    rep.rule('C15.PAUSE-FIRST', 'in the featured loop the pause test and the debugger interaction come before the flip word is fetched '
             '(typestate on the CFG); should_break compares the count of COMPLETED ops with next_break, or the ip with a breakpoint', 3)
    L = PyLoop(repo, '_run_featured', M.ROLES_PY['_run_featured'])
    probs, IN, cnt = run_typestate(L.g, L.g.entry, 'START', L.events, M.STEP_ALLOWED, reset_at={L.head(): M.STEP_HEAD_STATES})
    pause_probs = [p for p in probs if p[1] in ('PAUSE', 'FETCH_FLIP')]
    rep.check(cnt.get('PAUSE', 0) >= 2 and not pause_probs, 'C15.PAUSE-FIRST', '_run_featured:order',
              f'PAUSE sites {cnt.get("PAUSE", 0)}, ordering problems {pause_probs}', f'{RUN_REL}:{L.fn.lineno} _run_featured',
              expected='RECORD_IP, PAUSE, then FETCH_FLIP on every path')
    fn = L.fn
    cond = [norm(n.test) for n in ast.walk(fn) if isinstance(n, ast.If) and 'should_break' in norm(n.test)]
    assign = [norm(n) for n in ast.walk(fn) if isinstance(n, ast.Assign) and 'handle_breakpoint' in norm(n.value)]
    rep.check(cond == ['breakpoint_handler and breakpoint_handler.should_break(ip, statistics.op_counter)'] and
              assign == ['breakpoint_handler = handle_breakpoint(breakpoint_handler, ip, mem, statistics)'], 'C15.PAUSE-FIRST', '_run_featured:call',
              f'{cond}; {assign}', f'{RUN_REL}:{fn.lineno}', expected='should_break(ip, completed ops); handler replaced by the returned one')
    sb = repo.func(BRK, 'BreakpointHandler.should_break')
    # the predicate's value as one propositional formula (all its paths), compared by truth table
    from .. import linexpr as lx
    try:
        got = lx.py_bool_function(sb.body, 'should_break')
        want = lx.bool_form(lx.py_ir(ast.parse('self.next_break == op_counter or ip in self.breakpoints', mode='eval').body))
        sb_ok = lx.bf_equiv(got, want)
    except (lx.Unrecognised, AnalysisError) as ex:
        sb_ok, got = False, str(ex)
    rep.check(sb_ok, 'C15.PAUSE-FIRST', 'should_break', 'next_break == op_counter or ip in breakpoints (truth table over the atoms)' if sb_ok else str(got)[:200],
              f'{BRK}:{sb.lineno}')


def rule_commands(rep: Report, repo: Repo) -> None:
    rep.rule('C15.COMMANDS', 'the command names the prompt returns are exactly those apply_debug_action handles; step -> completed ops + 1; '
             'skip -> completed ops + N with N > 0 enforced; continue / continue-all clear next_break (the latter retires the handler); '
             'quit -> KeyboardInterrupt', 8)
    q = repo.func(BRK, 'BreakpointHandler.query_user_for_debug_action')
    produced = set()
    for r in ast.walk(q):
        if isinstance(r, ast.Return) and isinstance(r.value, ast.Tuple) and isinstance(r.value.elts[0], ast.Constant):
            produced.add(r.value.elts[0].value)
    a = repo.func(BRK, 'BreakpointHandler.apply_debug_action')
    site = f'{BRK}:{a.lineno} apply_debug_action'
    from ..linexpr import Env, lin_show, py_ir, to_lin

    def decide(test: ast.expr, cmd: str) -> Optional[bool]:
        """truth of a dispatch test when `command` is the constant cmd (None: not a test on the command name)."""
        if isinstance(test, ast.Compare) and len(test.ops) == 1 and norm(test.left) == 'command':
            op, rhs = test.ops[0], test.comparators[0]
            if isinstance(rhs, ast.Constant) and isinstance(op, (ast.Eq, ast.NotEq)):
                return (rhs.value == cmd) == isinstance(op, ast.Eq)
            if isinstance(rhs, (ast.Tuple, ast.List, ast.Set)) and all(isinstance(e, ast.Constant) for e in rhs.elts) and isinstance(op, (ast.In, ast.NotIn)):
                return (cmd in [e.value for e in rhs.elts]) == isinstance(op, ast.In)      # type: ignore[attr-defined]
        if isinstance(test, ast.BoolOp):
            vals = [decide(v, cmd) for v in test.values]
            if None in vals:
                return None
            return all(vals) if isinstance(test.op, ast.And) else any(vals)
        if isinstance(test, ast.UnaryOp) and isinstance(test.op, ast.Not):
            v = decide(test.operand, cmd)
            return None if v is None else not v
        return None

    def effects(stmts: List[ast.stmt], cmd: str, out: List[str]) -> bool:
        """append the effects executed for this command in order; True when the path ended (raise / return)."""
        for st in stmts:
            if isinstance(st, ast.If):
                d = decide(st.test, cmd)
                if d is None:
                    out.append(f'?if {norm(st.test)}')
                    continue
                if effects(st.body if d else st.orelse, cmd, out):
                    return True
            elif isinstance(st, ast.Assign) and norm(st.targets[0]) == 'self.next_break':
                out.append('next_break=' + ('None' if norm(st.value) == 'None' else lin_show(to_lin(py_ir(st.value), Env({})))))
            elif isinstance(st, ast.Raise):
                out.append('raise ' + (dotted(st.exc.func) if isinstance(st.exc, ast.Call) else norm(st.exc) if st.exc else ''))
                return True
            elif isinstance(st, ast.Return):
                return True
            elif isinstance(st, ast.Assign) and norm(st.targets[0]).replace('(', '').replace(')', '') == 'command, argument' and norm(st.value) == 'action':
                continue
            elif isinstance(st, ast.Expr) and isinstance(st.value, ast.Constant):
                continue
            else:
                out.append(f'other {norm(st)[:40]}')
        return False

    want = {'step': ['next_break=op_counter + 1'], 'skip': ['next_break=argument + op_counter'], 'continue': ['next_break=None'],
            'continue_all': ['next_break=None', 'raise BreakpointHandlerUnnecessary'], 'exit': ['raise KeyboardInterrupt']}
    handled: Dict[str, List[str]] = {}
    for cmd in sorted(produced | set(want)):
        eff: List[str] = []
        effects(a.body, cmd, eff)
        handled[cmd] = eff
    rep.check(produced == set(want) and all(handled[c] for c in produced), 'C15.COMMANDS', 'names',
              f'produced {sorted(produced)}; handled {sorted(c for c in handled if handled[c])}', site)
    for cmd, w_eff in want.items():
        rep.check(handled.get(cmd) == w_eff, 'C15.COMMANDS', cmd, str(handled.get(cmd)), site, expected=str(w_eff))
    # skip count positive, taken from the user's argument: every `return ('skip', N)` is reached only with N > 0 known (facts that
    # dominate the return, whatever spells them), and N is the integer parsed from the argument
    from ..excflow import GuardFacts, dominating_guards
    from ..pyfacts import resolve_names
    skips = [r for r in ast.walk(q) if isinstance(r, ast.Return) and isinstance(r.value, ast.Tuple) and len(r.value.elts) == 2
             and isinstance(r.value.elts[0], ast.Constant) and r.value.elts[0].value == 'skip']
    sk_ok = bool(skips)

    def positive_parsed(fn_: Any, site_: ast.AST, e_: ast.expr, src_: str, depth: int = 0) -> bool:
        """at site_ of fn_, e_ is an integer > 0 parsed by int(<src_>, ..): directly (a dominating `e_ > 0` and a definition int(src_..)), or
        as the result of a private module helper that gets src_ as its argument - every non-None value it returns qualifies inside the
        helper, and its None is tested away before site_"""
        nexpr = norm(e_)
        gf = GuardFacts(dominating_guards(site_))
        parsed = norm(resolve_names(fn_, e_, allow_calls=True, keep=(src_,)))
        if (gf.get(f'{nexpr} > 0') is True or gf.get(f'{nexpr} >= 1') is True) and parsed.startswith(f'int({src_}'):
            return True
        if depth >= 2 or not isinstance(e_, ast.Name):
            return False
        defs = [d.value for d in ast.walk(fn_) if isinstance(d, ast.Assign) and len(d.targets) == 1 and norm(d.targets[0]) == nexpr]
        if len(defs) != 1 or not (isinstance(defs[0], ast.Call) and dotted(defs[0].func).startswith('_') and repo.has_func(BRK, dotted(defs[0].func))):
            return False
        h = repo.func(BRK, dotted(defs[0].func))
        hp = [a_.arg for a_ in h.args.args]
        pos = [i for i, a_ in enumerate(defs[0].args) if norm(a_) == src_]
        if len(pos) != 1 or pos[0] >= len(hp):
            return False
        rets = [r_ for r_ in walk_no_nested(h) if isinstance(r_, ast.Return)]
        nones = [r_ for r_ in rets if r_.value is None or (isinstance(r_.value, ast.Constant) and r_.value.value is None)]
        vals = [r_ for r_ in rets if r_ not in nones]
        if nones and gf.get(f'{nexpr} is not None') is not True and gf.get(f'{nexpr} is None') is not False:
            return False
        return bool(vals) and all(positive_parsed(h, r_, r_.value, hp[pos[0]], depth + 1) for r_ in vals)
    from ..pyfacts import walk_no_nested
    for r in skips:
        sk_ok = sk_ok and positive_parsed(q, r, r.value.elts[1], 'argument')
    rep.check(sk_ok, 'C15.COMMANDS', 'skip-count-positive', 'count parsed from the argument; non-positive counts re-prompt', f'{BRK}:{q.lineno}')
    # EOF on the prompt quits: the only return that is reached while the read line is known to be None is ('exit', 0)
    eof_rets = [r for r in ast.walk(q) if isinstance(r, ast.Return) and GuardFacts(dominating_guards(r)).get('line is None') is True]
    rep.check(bool(eof_rets) and all(norm(r.value) == "('exit', 0)" for r in eof_rets), 'C15.COMMANDS', 'eof-is-exit', 'EOF on the prompt quits', f'{BRK}:{q.lineno}')
    hb = inline_pure_temps(repo.func(BRK, 'handle_breakpoint'))
    ap = [c for c in calls(hb) if dotted(c.func) == 'breakpoint_handler.apply_debug_action']
    qu = [c for c in calls(hb) if dotted(c.func) == 'breakpoint_handler.query_user_for_debug_action']
    counts_ok = len(ap) == 1 and len(qu) == 1 and len(ap[0].args) == 2 and norm(ap[0].args[1]) == 'statistics.op_counter' \
        and len(qu[0].args) == 3 and norm(qu[0].args[2]) == 'statistics.op_counter'
    # continue-all: the handler that catches BreakpointHandlerUnnecessary around the apply call returns None; every other return
    # hands the handler back
    retire_ok = False
    for t_ in [n for n in ast.walk(hb) if isinstance(n, ast.Try)]:
        if ap and any(c is ap[0] for st in t_.body for c in ast.walk(st)):
            hs = [h for h in t_.handlers if 'BreakpointHandlerUnnecessary' in handler_types(h)]
            retire_ok = len(hs) == 1 and len(hs[0].body) == 1 and isinstance(hs[0].body[0], ast.Return) and norm(hs[0].body[0].value) == 'None'
    other = [norm(r.value) for r in ast.walk(hb) if isinstance(r, ast.Return) and norm(r.value) != 'None']
    ok = counts_ok and retire_ok and other == ['breakpoint_handler']
    rep.check(ok, 'C15.COMMANDS', 'handle_breakpoint', 'applies the action with the completed-op count; continue-all returns None' if ok else
              f'op-count arguments ok={counts_ok}, retire handler ok={retire_ok}, other returns {other}', f'{BRK}:{hb.lineno}')


def debugger_closure(repo: Repo) -> List[Tuple[str, str, ast.FunctionDef]]:
    table: Dict[str, Tuple[str, str, ast.FunctionDef]] = {}
    for rel in (BRK, UQ):
        mod = repo.mod(rel)
        for st in mod.body:
            if isinstance(st, ast.FunctionDef):
                table[st.name] = (rel, st.name, st)
            elif isinstance(st, ast.ClassDef):
                for m in st.body:
                    if isinstance(m, ast.FunctionDef):
                        table[m.name] = (rel, f'{st.name}.{m.name}', m)
    seen: Dict[str, Tuple[str, str, ast.FunctionDef]] = {}
    work = ['handle_breakpoint']
    while work:
        n = work.pop()
        if n in seen or n not in table:
            continue
        seen[n] = table[n]
        for c in calls(table[n][2]):
            work.append(dotted(c.func).split('.')[-1])
    return list(seen.values())


def rule_readonly(rep: Report, repo: Repo) -> None:
    rep.rule('C15.READONLY', 'the call closure of handle_breakpoint never writes program memory, never touches the IO device, writes no '
             'statistic except the pause timer, and every memory read in it is fault-guarded (a failing preview read must not end the '
             'run before the op executes)', 10)
    sub = make_hierarchy(repo)
    clo = debugger_closure(repo)
    if len(clo) < 8:
        raise AnalysisError(f'debugger closure shrank: {[q for _, q, _ in clo]}')
    for rel, q, fn in clo:
        site = f'{rel}:{fn.lineno} {q}'
        writes = []
        for n in walk_no_nested(fn):
            if isinstance(n, ast.Call):
                d = dotted(n.func)
                if d in ('mem.write_bit', 'mem._set_memory_word') or d.startswith('io_device.') or d.split('.')[-1] in ('write_bit', 'read_bit', '_set_memory_word') and d.startswith('mem'):
                    writes.append(d)
            if isinstance(n, (ast.Subscript, ast.Attribute)) and isinstance(getattr(n, 'ctx', None), ast.Store):
                t = norm(n)
                if t.startswith('mem.') or t.startswith('statistics.'):
                    writes.append(t)
        rep.check(not writes, 'C15.READONLY', f'{q}:no-writes', f'program-state writes: {writes}', site)
        for c in [c for c in calls(fn) if dotted(c.func) == 'mem.get_word']:
            def lex(node: ast.AST) -> bool:
                return any(any(sub('FlipJumpRuntimeMemoryException', t) for t in handler_types(h)) for _, h in enclosing_handlers(node))
            guarded = lex(c)
            if not guarded:
                # one level up: every call of this function inside the closure is itself guarded
                short = q.split('.')[-1]
                sites = [cc for _, _, f2 in clo for cc in calls(f2) if dotted(cc.func).split('.')[-1] == short]
                guarded = bool(sites) and all(lex(cc) for cc in sites)
            rep.check(guarded, 'C15.READONLY', f'{q}:mem.get_word({norm(c.args[0])[:30]})',
                      'fault-guarded' if guarded else 'unguarded read: an address outside every segment ends the run inside the debugger, '
                      'before the paused op has produced its output', f'{rel}:{c.lineno} {q}', expected='inside try/except FlipJumpException')
    hb = repo.func(BRK, 'handle_breakpoint')
    withs = [norm(i.context_expr) for n in ast.walk(hb) if isinstance(n, ast.With) for i in n.items]
    rep.check(withs == ['statistics.pause_timer'], 'C15.READONLY', 'handle_breakpoint:pause-timer', str(withs), f'{BRK}:{hb.lineno}',
              expected='the prompt runs under the pause timer (debugging time is not run time)')
    # the reader's word read may materialise a lazy zero - value-preserving, allow-listed with this reason
    gm = repo.func('flipjump/fjm/fjm_reader.py', 'Reader._get_memory_word')
    stores = [norm(n) for n in ast.walk(gm) if isinstance(n, ast.Assign) and norm(n.targets[0]) == 'self.memory[word_address]']
    rep.check(sorted(stores) == ['self.memory[word_address] = 0', 'self.memory[word_address] = garbage_val'], 'C15.READONLY', 'Reader._get_memory_word:stores',
              f'{stores} (the zero materialisation is value-preserving; garbage_val only in the non-Stop modes the debugger run never uses)',
              'flipjump/fjm/fjm_reader.py')


def rule_decode(rep: Report, repo: Repo) -> None:
    rep.rule('C15.DECODE', 'variable reads take the jump word of each op (first + w, stride 2w), the data bits at offset #w (the same offset '
             'the device adapter uses), 1/4/8 bits per cell, most significant cell last; :f/:j reads add 2*len*index (+1 for j) words', 4)
    cv = inline_pure_temps(repo.func(BRK, 'calculate_variable_value'))     # call-free single-assignment temporaries are substituted
    site = f'{BRK}:{cv.lineno}'
    # the width table: {'b': 1, 'h': 4, 'B': 8}[variable_type] -> the symbol bpw
    tables = [n for n in ast.walk(cv) if isinstance(n, ast.Subscript) and isinstance(n.value, ast.Dict) and norm(n.slice) in ('variable_type', 'variable_prefix[0]')]
    tab_ok = bool(tables) and all({norm(k): norm(v) for k, v in zip(t.value.keys, t.value.values)} == {"'b'": '1', "'h'": '4', "'B'": '8'}   # type: ignore[attr-defined]
                                  for t in tables)

    class Bpw(ast.NodeTransformer):
        def visit_Subscript(self, node: ast.Subscript) -> ast.AST:
            if isinstance(node.value, ast.Dict) and norm(node.slice) in ('variable_type', 'variable_prefix[0]'):
                return ast.Name(id='bpw', ctx=ast.Load())
            return self.generic_visit(node)
    cv2 = ast.fix_missing_locations(Bpw().visit(clone(cv)))
    # (1) the words read: mem.get_word(a) for a in range(A, B, C), folded on a grid against the reference op addresses
    comps = [c for c in ast.walk(cv2) if isinstance(c, ast.ListComp) and len(c.generators) == 1 and isinstance(c.elt, ast.Call)
             and dotted(c.elt.func) == 'mem.get_word' and isinstance(c.generators[0].target, ast.Name)
             and norm(c.elt.args[0]) == c.generators[0].target.id and not c.generators[0].ifs]
    wrong: List[str] = []
    # folded through whatever helpers compute the span: the addresses that reach mem.get_word are collected per grid case
    cv_src = repo.func(BRK, 'calculate_variable_value')
    cv_params = [a_.arg for a_ in cv_src.args.args]
    for wv in (8, 16, 32, 64):
        for addr in (0, 2 * wv, 10 * wv):
            for ln in (1, 2, 5):
                for idx in (0, 1, 3):
                    got: List[int] = []

                    def on_call(d: str, vals: List[Any], kws: Dict[str, Any], got: List[int] = got) -> Any:
                        if d.endswith('.get_word') and len(vals) == 1 and isinstance(vals[0], int):
                            got.append(vals[0])
                            return 0
                        return NotImplemented
                    given = {'variable_prefix': ('h', ln, idx), 'address': addr, 'mem': {'memory_width': wv}}
                    try:
                        _fold_fn(repo, BRK, cv_src, [given.get(p_, _Opaque(p_)) for p_ in cv_params], on_call)
                    except _CantFold as ex:
                        raise AnalysisError(f'C15.DECODE: calculate_variable_value could not be folded ({ex})')
                    first = addr + 2 * ln * idx * wv
                    want = [first + 2 * wv * k + wv for k in range(ln)]
                    if got != want:
                        wrong.append(f'w={wv} address={addr} len={ln} index={idx}: {got[:3]} vs {want[:3]}')
    rep.check(not wrong, 'C15.DECODE', 'addresses', wrong[0] if wrong else 'jump words of the ops [first, last) with stride 2w (108 grid cases)', site)
    # (2) + (3) the fold: for word in <words reversed>: value = value << bpw | (word >> #w) & ((1 << bpw) - 1)
    loops = [n for n in cv2.body if isinstance(n, ast.For) and isinstance(n.target, ast.Name)]
    fold_wrong: List[str] = []
    order_ok = False
    if len(loops) == 1:
        lp = loops[0]
        it = lp.iter
        order_ok = (isinstance(it, ast.Subscript) and norm(it.slice) == '::-1') or (isinstance(it, ast.Call) and dotted(it.func) == 'reversed')
        body = inline_block(lp.body)
        if len(body) == 1 and isinstance(body[0], ast.Assign) and norm(body[0].targets[0]) == 'value':
            for wv in (8, 16, 32, 64):
                for bp in (1, 4, 8):
                    for word in (0, 1 << wv.bit_length(), (1 << (wv - 1)) | (0x5B << wv.bit_length()) | 3, (1 << wv) - 1):
                        for val in (0, 1, 0xA5):
                            env = {'value': val, lp.target.id: word, 'bpw': bp, 'mem.memory_width': wv, 'w': wv}
                            got = eval_int_expr(body[0].value, env)
                            want = (val << bp) | ((word >> wv.bit_length()) & ((1 << bp) - 1))
                            if got != want:
                                fold_wrong.append(f'w={wv} bits={bp} word={word:#x} value={val:#x}: {got:#x} vs {want:#x}')
        else:
            fold_wrong.append('the loop body does not reduce to one assignment of value')
    else:
        fold_wrong.append('no single fold loop')
    rep.check(tab_ok and not fold_wrong, 'C15.DECODE', 'data-bits', fold_wrong[0] if fold_wrong else
              f'data bits at offset #w, width by type (table ok={tab_ok}; 144 grid cases)', site)
    rep.check(order_ok, 'C15.DECODE', 'cell-order', 'cells combined from the last word to the first (the first cell ends least significant)'
              if order_ok else 'iteration order of the fold changed', site)
    # the device's data-bit offset, read off its read accessor with private helpers / properties substituted
    from .c19 import device_accessor_formulas
    rdb = repo.func(DM, 'DeviceMemory.read_data_byte')
    ret = [b for b in device_accessor_formulas(repo)[0] if b.startswith('return')]
    rep.check(len(ret) == 1 and ret[0].endswith('>> self.memory_width.bit_length() & 255'), 'C15.DECODE', 'same-offset-as-device', str(ret),
              f'{DM}:{rdb.lineno}', expected='#w = w.bit_length() in both')
    # f/j prefixes: on every path that consumes the prefix the returned address is address + w * (2*len*index [+1 for j]);
    # decided per type letter on the partially evaluated function (forward substitution, folded on a grid)
    from ..pyfacts import specialize
    from ..pysubst import block_outcomes
    fj = repo.func(BRK, 'handle_read_f_j')
    fj_wrong: List[str] = []
    n_paths = 0
    for vt in ('f', 'j'):
        for o in block_outcomes(specialize(fj, {'variable_type': vt}).body, label='handle_read_f_j'):
            if o.result[0] != 'return' or o.result[1] is None:
                fj_wrong.append(f'{vt}: a path ends with {o.result[0]}')
                continue
            tup = ast.parse(o.result[1], mode='eval').body
            if not (isinstance(tup, ast.Tuple) and len(tup.elts) == 3):
                fj_wrong.append(f'{vt}: returns {o.result[1][:60]}')
                continue
            consumed = norm(tup.elts[0]) == 'None'
            n_paths += 1
            for wv in (8, 16, 64):
                for addr in (0, 5 * wv):
                    for ln in (1, 3):
                        for idx in (0, 2):
                            env = {'address': addr, 'w': wv, 'variable_length': ln, 'index': idx}
                            try:
                                got = eval_int_expr(tup.elts[1], env)
                            except AnalysisError as ex:
                                fj_wrong.append(f'{vt}: address expression not foldable: {ex}')
                                break
                            want = addr + wv * (2 * ln * idx + (1 if vt == 'j' else 0)) if consumed else addr
                            if got != want:
                                fj_wrong.append(f'{vt}: w={wv} address={addr} len={ln} index={idx}: {got} vs {want}')
    rep.check(not fj_wrong and n_paths >= 4, 'C15.DECODE', 'f/j', fj_wrong[0] if fj_wrong else
              f'word offset 2*len*index (+1 for the jump word) on {n_paths} paths x 24 grid cases', f'{BRK}:{fj.lineno}')


# reasoned exceptions of C15.CMD-ESCAPE (function:construct -> why it cannot raise, covering EVERY cause the construct has)
CMD_ALLOW: Dict[str, str] = {
    "calculate_variable_value:{'b': 1, 'h': 4, 'B': 8}[variable_type]":
        'the type letter comes from the regex class [bhBfj]; f / j are turned into a plain word read by handle_read_f_j before this '
        'function is called (checked: C15.CMD-ESCAPE f/j-filtered)',
    'handle_read_f_j:variable_prefix[0]': 'guarded by the truth of variable_prefix in the same condition; the prefix is always a 3-tuple',
    'BreakpointHandler.get_address_str:self.address_to_label[address_before]': 'address_before is max() over keys of the same dictionary',
    'BreakpointHandler.query_user_for_debug_action:tokens[0]': 'the line is stripped and non-empty (the empty line re-prompts above), so split() has an element',
    'handle_breakpoint:action[0]': 'query_user_for_debug_action returns 2-tuples only (checked by C15.COMMANDS)',
}


def _tuple_arity(fn: ast.AST, name: str, repo: Optional[Repo] = None, rel: str = '') -> Optional[Tuple[int, bool]]:
    """(arity, optional?) when `name` is a parameter of fn annotated Tuple[T1, .., Tn] / Optional[Tuple[..]] (no ellipsis) and never re-bound"""
    if not isinstance(fn, (ast.FunctionDef, ast.AsyncFunctionDef)):
        return None
    a = next((x for x in fn.args.args + fn.args.kwonlyargs if x.arg == name), None)
    if a is None or a.annotation is None:
        return None
    # re-bound only by unpacking the result of a module function whose annotated result has, at that position, the very same type
    for st in ast.walk(fn):
        for t in (st.targets if isinstance(st, ast.Assign) else [st.target] if isinstance(st, (ast.AugAssign, ast.AnnAssign, ast.For)) else []):
            for k, x in enumerate(t.elts if isinstance(t, ast.Tuple) else [t]):
                if isinstance(x, ast.Name) and x.id == name:
                    ok = False
                    if isinstance(st, ast.Assign) and isinstance(t, ast.Tuple) and isinstance(st.value, ast.Call) and repo is not None \
                            and repo.has_func(rel, dotted(st.value.func)):
                        r_ = repo.func(rel, dotted(st.value.func)).returns
                        if isinstance(r_, ast.Subscript) and isinstance(r_.slice, ast.Tuple) and k < len(r_.slice.elts) and norm(r_.slice.elts[k]) == norm(a.annotation):
                            ok = True
                    if not ok:
                        return None
    ann, opt = a.annotation, False
    if isinstance(ann, ast.Subscript) and norm(ann.value).split('.')[-1] == 'Optional':
        ann, opt = ann.slice, True
    if isinstance(ann, ast.Subscript) and norm(ann.value).split('.')[-1] in ('Tuple', 'tuple') and isinstance(ann.slice, ast.Tuple) \
            and not any(isinstance(e, ast.Constant) and e.value is Ellipsis for e in ann.slice.elts):
        return len(ann.slice.elts), opt
    return None


def _is_sequence(fn: ast.AST, e: ast.expr) -> bool:
    """e is provably a list / str / tuple (truthiness = non-empty): a slice, a literal, `.split(..)`, list(..) / tuple(..) / sorted(..), or
    a local whose every binding is one of these"""
    if isinstance(e, ast.Subscript) and isinstance(e.slice, ast.Slice):
        return True
    if isinstance(e, (ast.List, ast.Tuple, ast.ListComp, ast.JoinedStr)) or (isinstance(e, ast.Constant) and isinstance(e.value, (str, bytes))):
        return True
    if isinstance(e, ast.Call) and (dotted(e.func) in ('list', 'tuple', 'sorted', 'str') or (isinstance(e.func, ast.Attribute) and e.func.attr in ('split', 'rsplit', 'splitlines', 'strip', 'lower', 'upper'))):
        return True
    if isinstance(e, ast.Name):
        defs = [d.value for d in ast.walk(fn) if isinstance(d, ast.Assign) and len(d.targets) == 1 and isinstance(d.targets[0], ast.Name) and d.targets[0].id == e.id]
        stores = sum(1 for x in ast.walk(fn) if isinstance(x, ast.Name) and x.id == e.id and isinstance(x.ctx, ast.Store))
        return bool(defs) and stores == len(defs) and all(_is_sequence(fn, d) for d in defs)
    return False


_LABEL_CHARS = set(map(ord, 'abcdefghijklmnopqrstuvwxyzABCDEFGHIJKLMNOPQRSTUVWXYZ0123456789_.:-'))


def rule_read_target(rep: Report, repo: Repo) -> None:
    """reads report the true value of the ADDRESSED variable: the typed target must reach the resolver whole, and the words read must exist"""
    rep.rule('C15.READ-TARGET', 'the read command hands the resolver the WHOLE target the user typed: the pattern that splits the `:type:index:` '
             'prefix off is matched against the entire string (fullmatch / end anchor), and its target group admits every character a full '
             'label name can contain (a macro-local label is `f1:l7:macro---name`) - read off the syntax tree of the pattern; and the words a '
             'read touches end inside the memory: after the typed index / length / op offset are applied, a report-and-return test that '
             'fires for an arbitrarily large index dominates the memory reads', 2)
    import re._parser as _rp          # type: ignore[import-not-found]
    hr = repo.func(BRK, 'BreakpointHandler.handle_read_memory')
    # the pattern: a literal handed to re.match / fullmatch, or a module-level `X = re.compile(<literal>)` used as X.match / X.fullmatch
    compiled = {n_: v_.args[0].value for n_, v_ in repo.module_assigns(BRK).items() if isinstance(v_, ast.Call) and dotted(v_.func) == 're.compile'
                and v_.args and isinstance(v_.args[0], ast.Constant) and isinstance(v_.args[0].value, str)}
    pats = []
    for c in calls(hr):
        d_ = dotted(c.func)
        if d_ in ('re.match', 're.fullmatch', 're.search') and c.args and isinstance(c.args[0], ast.Constant) and isinstance(c.args[0].value, str):
            pats.append((c, c.args[0].value, d_.split('.')[-1]))
        elif isinstance(c.func, ast.Attribute) and c.func.attr in ('match', 'fullmatch', 'search') and isinstance(c.func.value, ast.Name) and c.func.value.id in compiled:
            pats.append((c, compiled[c.func.value.id], c.func.attr))
    if len(pats) != 1:
        raise AnalysisError(f'C15.READ-TARGET: {len(pats)} pattern matches in handle_read_memory (one expected: a literal or a compiled module constant)')
    pat_call, pat, how_ = pats[0]
    tree = list(_rp.parse(pat))
    anchored = how_ == 'fullmatch' or (tree and str(tree[-1][0]) == 'AT' and 'END' in str(tree[-1][1]))
    groups = [t for t in tree if str(t[0]) == 'SUBPATTERN']

    def charset(items: Any) -> Set[int]:
        out: Set[int] = set()
        for op, av in items:
            nm = str(op)
            if nm in ('MAX_REPEAT', 'MIN_REPEAT'):
                out |= charset(av[2])
            elif nm == 'ANY':
                out |= set(range(256)) - {10}
            elif nm == 'LITERAL':
                out.add(av)
            elif nm == 'NOT_LITERAL':
                out |= set(range(256)) - {av}
            elif nm == 'IN':
                cs: Set[int] = set()
                neg = False
                for o2, a2 in av:
                    if str(o2) == 'NEGATE':
                        neg = True
                    elif str(o2) == 'LITERAL':
                        cs.add(a2)
                    elif str(o2) == 'RANGE':
                        cs |= set(range(a2[0], a2[1] + 1))
                    elif str(o2) == 'CATEGORY' and 'WORD' in str(a2) and 'NOT' not in str(a2):
                        cs |= {c_ for c_ in _LABEL_CHARS if chr(c_).isalnum() or c_ == 95}
                    elif str(o2) == 'CATEGORY' and 'DIGIT' in str(a2) and 'NOT' not in str(a2):
                        cs |= set(range(48, 58))
                out |= (set(range(256)) - cs) if neg else cs
            elif nm == 'SUBPATTERN':
                out |= charset(av[3])
            elif nm == 'BRANCH':
                for alt in av[1]:
                    out |= charset(alt)
        return out
    missing = sorted(chr(c_) for c_ in _LABEL_CHARS - charset(groups[-1][1][3])) if groups else ['<no group>']
    rep.check(bool(anchored) and not missing, 'C15.READ-TARGET', 'target pattern', f'`{pat}`: whole string={bool(anchored)}; label characters the target group '
              f'refuses: {missing}', f'{BRK}:{pat_call.lineno} handle_read_memory', expected='fullmatch, target group = the rest of the string')
    # the range: in show_memory_address, after the f/j adjustment, a report-and-return refusal that fires for a huge index / address
    sm = repo.func(BRK, 'show_memory_address')
    reads = [c for c in ast.walk(sm) if isinstance(c, ast.Call) and dotted(c.func) in ('mem.get_word', 'calculate_variable_value')]
    if not reads:
        raise AnalysisError('C15.READ-TARGET: show_memory_address reads nothing (mem.get_word / calculate_variable_value expected)')
    adj = [n for n in ast.walk(sm) if isinstance(n, ast.Assign) and isinstance(n.value, ast.Call) and dotted(n.value.func) == 'handle_read_f_j']
    adj_line = adj[0].lineno if adj else 0
    from ..pyfacts import resolve_names as _rn
    # the statements between the f/j adjustment and the first read are FOLDED for concrete (prefix, address) cases: assignments to
    # names (also the unpacking of the typed prefix), ifs with foldable tests, and a report-and-return (show_message .. return) ends the
    # case as refused; reaching a statement that reads memory ends it as let through
    first_read = min(r.lineno for r in reads)

    def top_block() -> List[ast.stmt]:
        blk: List[ast.stmt] = list(sm.body)
        for st in sm.body:
            if isinstance(st, ast.Try) and any(r is x for r in reads for x in ast.walk(st)):
                blk = list(st.body)
        return [st for st in blk if st.lineno > adj_line]
    refusals = [i for i in ast.walk(sm) if isinstance(i, ast.If) and i.body and isinstance(i.body[-1], ast.Return)
                and any(isinstance(c, ast.Call) and dotted(c.func) == 'show_message' for b in i.body for c in ast.walk(b))
                and i.lineno > adj_line and i.lineno < first_read and not any(r is x for r in reads for x in ast.walk(i))]
    BIG = 1 << 200

    class _Unknown(Exception):
        pass

    def fold_case(prefix: Optional[Tuple[int, int]], address: int) -> str:
        env: Dict[str, Any] = {'w': 64, 'mem.memory_width': 64, 'address': address}
        tup = None if prefix is None else ('h', prefix[0], prefix[1])

        def val(e: ast.expr) -> Any:
            class S(ast.NodeTransformer):
                def visit_Subscript(self, node: ast.Subscript) -> ast.AST:
                    if norm(node.value) == 'variable_prefix' and isinstance(node.slice, ast.Constant) and tup is not None and node.slice.value in (1, 2):
                        return ast.Constant(value=tup[node.slice.value])
                    return self.generic_visit(node)

                def visit_Compare(self, node: ast.Compare) -> ast.AST:
                    if norm(node.left) == 'variable_prefix' and len(node.ops) == 1 and isinstance(node.comparators[0], ast.Constant) and node.comparators[0].value is None:
                        return ast.Constant(value=int((tup is None) == isinstance(node.ops[0], ast.Is)))
                    return self.generic_visit(node)

                def visit_Name(self, node: ast.Name) -> ast.AST:
                    if node.id == 'variable_prefix' and isinstance(node.ctx, ast.Load):
                        return ast.Constant(value=int(tup is not None))
                    return node
            try:
                return eval_int_expr(ast.fix_missing_locations(S().visit(clone(e))), {k: v for k, v in env.items() if isinstance(v, int)})
            except (AnalysisError, ArithmeticError, ValueError) as ex:
                raise _Unknown(str(ex))

        def run_(stmts: List[ast.stmt]) -> Optional[str]:
            for st in stmts:
                if any(r is x for r in reads for x in ast.walk(st)) and not isinstance(st, ast.If):
                    return 'through'
                if isinstance(st, ast.Assign) and len(st.targets) == 1 and isinstance(st.targets[0], ast.Name):
                    try:
                        env[st.targets[0].id] = val(st.value)
                    except _Unknown:
                        env.pop(st.targets[0].id, None)
                elif isinstance(st, ast.Assign) and len(st.targets) == 1 and isinstance(st.targets[0], ast.Tuple) and norm(st.value) == 'variable_prefix' and tup is not None:
                    for t_, v_ in zip(st.targets[0].elts, tup):
                        if isinstance(t_, ast.Name) and isinstance(v_, int):
                            env[t_.id] = v_
                elif isinstance(st, ast.If):
                    try:
                        taken = bool(val(st.test))
                    except _Unknown:
                        if any(r is x for r in reads for x in ast.walk(st)):
                            return 'through'
                        continue
                    body = st.body if taken else st.orelse
                    if any(r is x for r in reads for b_ in body for x in ast.walk(b_)):
                        return 'through'
                    if taken and body and isinstance(body[-1], ast.Return) and any(isinstance(c, ast.Call) and dotted(c.func) == 'show_message' for b_ in body for c in ast.walk(b_)):
                        return 'refused'
                    r_ = run_(list(body))
                    if r_ is not None:
                        return r_
                elif isinstance(st, ast.Return):
                    return 'through'
            return None
        return run_(top_block()) or 'through'

    def fires(test: ast.expr, prefix: Optional[Tuple[int, int]], address: int) -> bool:
        return False
    cases = {'a huge index of a variable': ((1, BIG), 0), 'a huge length of a variable': ((BIG, 0), 0), 'an f/j offset beyond the memory': (None, BIG),
             'the last word plus a one-cell variable': ((1, 0), (1 << 64) - 64)}
    class _Read(Exception):
        pass

    def fold_whole(prefix: Optional[Tuple[int, int]], address: int) -> str:
        """the same question answered by folding show_memory_address through its helpers (the span may be computed by one)"""
        said: List[str] = []

        def on_call(d: str, vals: List[Any], kws: Dict[str, Any]) -> Any:
            if d.endswith('.get_word'):
                raise _Read()
            if d == 'show_message':
                said.append(d)
                return None
            return NotImplemented
        given = {'mem': {'memory_width': 64}, 'address': address, 'variable_prefix': None if prefix is None else ('h', prefix[0], prefix[1]), 'label_name': None}
        try:
            _fold_fn(repo, BRK, sm, [given[a_.arg] if a_.arg in given else _Opaque(a_.arg) for a_ in sm.args.args], on_call)
        except _Read:
            return 'through'
        except _CantFold as ex:
            if 'domain' in str(ex):
                return 'through'            # a read loop over a huge range was reached
            raise AnalysisError(f'C15.READ-TARGET: show_memory_address could not be folded ({ex})')
        return 'refused' if said else 'through'
    # the first alignment / size test of show_memory_address refuses an address >= 2^w by itself: the cases keep the address inside
    uncovered = [nm for nm, (pf, ad) in cases.items() if fold_case(pf, ad) != 'refused' and (nm == 'an f/j offset beyond the memory' or fold_whole(pf, ad) != 'refused')]
    quiet = [nm for nm, (pf, ad) in {'an ordinary variable': ((4, 2), 1024), 'an ordinary word': (None, 1024)}.items() if fold_case(pf, ad) == 'refused']
    rep.check(not uncovered and not quiet, 'C15.READ-TARGET', 'read range', f'{len(refusals)} report-and-return tests between the f/j adjustment and the reads; '
              f'not refused: {uncovered}; wrongly refused: {quiet}', f'{BRK}:{sm.lineno} show_memory_address',
              expected='a read that ends beyond 2^w is reported and skipped; ordinary reads go through')


from ..pyfold import Opaque as _Opaque, CantFold as _CantFold, fold_fn as _fold_fn      # noqa: E402


def rule_read_span(rep: Report, repo: Repo) -> None:
    """`read :<type><length>:<index>:<target>` shows the index'th cell: the words fetched are exactly those of
    [target + 2w*length*index, + 2w*length) - the data words at +w of every op - whichever helper applies the index."""
    rep.rule('C15.READ-SPAN', 'the words a variable read fetches are the data words of the ADDRESSED cell: show_memory_address is folded on '
             'concrete (width, type, length, index, address) cases through the helpers it calls, the addresses that reach mem.get_word are '
             'collected and compared with address + 2w*length*index + w + 2w*k for k < length; a plain word read fetches the address itself', 1)
    sm = repo.func(BRK, 'show_memory_address')
    pnames = [a.arg for a in sm.args.args]
    bad: List[str] = []
    n_cases = 0
    for w in (16, 64):
        for prefix in (None, ('h', 1, 0), ('h', 2, 0), ('h', 2, 1), ('b', 3, 2), ('h', 4, 5), ('b', 1, 7)):
            for address in (0, 64 * 10, 64 * 37):
                got: List[int] = []

                def on_call(d: str, vals: List[Any], kws: Dict[str, Any]) -> Any:
                    if d.endswith('.get_word') and len(vals) == 1:
                        if not isinstance(vals[0], int):
                            raise _CantFold('address of a read')
                        got.append(vals[0])
                        return 0
                    return NotImplemented
                mem = {'memory_width': w}
                argv: List[Any] = []
                for pn in pnames:
                    argv.append({'mem': mem, 'address': address, 'variable_prefix': prefix}.get(pn, _Opaque(pn)) if pn in ('mem', 'address', 'variable_prefix')
                                else (None if pn == 'label_name' else _Opaque(pn)))
                try:
                    _fold_fn(repo, BRK, sm, argv, on_call)
                except _CantFold as ex:
                    raise AnalysisError(f'C15.READ-SPAN: show_memory_address could not be folded for w={w} prefix={prefix} address={address}: {ex}')
                n_cases += 1
                if prefix is None:
                    want = [address]
                else:
                    first = address + 2 * w * prefix[1] * prefix[2]
                    want = [first + w + 2 * w * k for k in range(prefix[1])]
                if got != want and len(bad) < 3:
                    bad.append(f'w={w} read :{"" if prefix is None else prefix[0] + str(prefix[1]) + ":" + str(prefix[2]) + ":"}{address} fetches {got[:4]}, the addressed cell is {want[:4]}')
    rep.check(not bad, 'C15.READ-SPAN', 'show_memory_address', '; '.join(bad) if bad else f'{n_cases} folded cases fetch exactly the data words of the addressed cell',
              f'{BRK}:{sm.lineno} show_memory_address', expected='address + 2w*length*index + w + 2w*k, k < length')


def rule_cmd_escape(rep: Report, repo: Repo) -> None:
    rep.rule('C15.CMD-ESCAPE', 'no debugger command can end the run with a raw exception: on the call closure of handle_breakpoint every '
             'implicitly raising construct (subscript, division, shift, int() of typed text) meets a handler that reports instead of '
             're-raising (in the function, or around every call of it), a dominating guard, or a reasoned exception; and no integer '
             'of user-chosen size - int(text, 16 / 0), the value of a :bN: / :hN: / :BN: vector - is formatted in decimal (python '
             'refuses more than 4300 digits) except under such a handler or through hex() / int_to_str()', 20)
    from ..excflow import GuardFacts, collect_sites, dominating_guards, handler_converts, lexical_handler
    sub = make_hierarchy(repo)
    clo = [(rel, q, fn) for rel, q, fn in debugger_closure(repo)]
    by_short: Dict[str, Tuple[str, str, ast.FunctionDef]] = {q.split('.')[-1]: (rel, q, fn) for rel, q, fn in clo}

    def handled(node: ast.AST, classes: Tuple[str, ...]) -> Optional[str]:
        h = lexical_handler(node, classes, sub)
        if h is not None and handler_converts(h, sub) in ('handled', 'library'):
            return f'HANDLER: except {norm(h.type) if h.type else "*"}'
        return None

    def callers_handled(q: str, classes: Tuple[str, ...]) -> Optional[str]:
        short = q.split('.')[-1]
        sites = [c for _, _, f2 in clo for c in calls(f2) if dotted(c.func).split('.')[-1] == short]
        if sites and all(handled(c, classes) for c in sites):
            return f'HANDLER: every one of the {len(sites)} call(s) of {short} is inside a reporting handler'
        return None
    # f / j never reach the vector decoder
    sma = repo.func(BRK, 'show_memory_address')
    fj_first = False
    for st in ast.walk(sma):
        if isinstance(st, ast.Try):
            names = [dotted(c.func) for x in st.body for c in ast.walk(x) if isinstance(c, ast.Call)]
            if 'handle_read_f_j' in names and 'calculate_variable_value' in names and names.index('handle_read_f_j') < names.index('calculate_variable_value'):
                fj_first = True
    hf = repo.func(BRK, 'handle_read_f_j')
    fj_none = any(isinstance(i, ast.If) and "variable_prefix[0] in ('f', 'j')" in norm(i.test) and any(norm(x) == 'variable_prefix = None' for x in i.body)
                  for i in ast.walk(hf))
    rep.check(fj_first and fj_none, 'C15.CMD-ESCAPE', 'f/j-filtered', f'handle_read_f_j runs first={fj_first}, clears the prefix for f/j={fj_none}',
              f'{BRK}:{sma.lineno} show_memory_address', expected='f / j prefixes become plain word reads before calculate_variable_value')
    n = 0
    for rel, q, fn in clo:
        for s_ in collect_sites(repo, rel, q, const_names={'w'}):
            n += 1
            node = s_.node
            proof = handled(node, s_.classes) or callers_handled(q, s_.classes)
            if proof is None and s_.key in CMD_ALLOW:
                proof = f'ALLOW: {CMD_ALLOW[s_.key]}'
            if proof is None and s_.kind == 'subscript':
                gd = GuardFacts(dominating_guards(node))
                base, key = norm(node.value), norm(node.slice)          # type: ignore[attr-defined]
                if gd.get(f'{key} in {base}') is True or gd.get(f'{key} not in {base}') is False:
                    proof = f'GUARD: `{key} in {base}` holds here'
                elif isinstance(node.slice, ast.Constant) and isinstance(node.slice.value, int) and node.slice.value >= 0 and (     # type: ignore[attr-defined]
                        gd.get(f'len({base}) > {node.slice.value}') is True or gd.get(f'len({base}) >= {node.slice.value + 1}') is True):   # type: ignore[attr-defined]
                    proof = f'GUARD: len({base}) > {node.slice.value} holds here'           # type: ignore[attr-defined]
                elif isinstance(node.slice, ast.Constant) and node.slice.value == 0 and gd.get(base) is True and _is_sequence(fn, node.value):   # type: ignore[attr-defined]
                    proof = f'GUARD: the sequence {base} is non-empty here (its truth is tested)'
                elif isinstance(node.slice, ast.Constant) and isinstance(node.slice.value, int) and isinstance(node.value, ast.Name) and _tuple_arity(fn, node.value.id, repo, rel) is not None:   # type: ignore[attr-defined]
                    ar_, opt_ = _tuple_arity(fn, node.value.id, repo, rel)          # type: ignore[attr-defined, misc]
                    if 0 <= node.slice.value < ar_ and (not opt_ or gd.get(f'{base} is not None') is True or gd.get(f'{base} is None') is False or gd.get(base) is True):   # type: ignore[attr-defined]
                        proof = f'TYPE: {base} is annotated as a {ar_}-tuple' + (' and is known not to be None here' if opt_ else '')
                else:
                    # `for k in D` / `for k in tuple(D)[::-1]`: k is a key of D
                    for a in [x for x in __import__('fjverif.pyfacts', fromlist=['ancestors']).ancestors(node) if isinstance(x, ast.For)]:
                        if isinstance(a.target, ast.Name) and a.target.id == key and base in norm(a.iter) and not any(
                                isinstance(c, ast.Call) and dotted(c.func) not in ('tuple', 'list', 'sorted', 'reversed') for c in ast.walk(a.iter)):
                            proof = f'GUARD: {key} iterates over the keys of {base}'
            if proof is None and s_.kind == 'binop':
                from ..pyfacts import resolve_names as _rn
                right = _rn(fn, node.right, allow_calls=True, keep=('w', 'bits_per_word'))            # type: ignore[attr-defined]   # a named shift amount reads as its value
                rt = norm(right)
                if rt in ('w', 'mem.memory_width', 'bits_per_word', 'w.bit_length()') or isinstance(right, ast.Constant):
                    proof = f'CONST: `{rt}` is the validated memory width / a table constant'
            rep.check(proof is not None, 'C15.CMD-ESCAPE', s_.key, proof or f'{s_.what} can raise {"/".join(s_.classes)} on what the user typed: the run ends '
                      f'in the generic failure instead of continuing', f'{rel}:{s_.line()} {q}', expected='a reporting handler, a dominating guard, or a reasoned exception')
    if n < 15:
        raise AnalysisError(f'C15.CMD-ESCAPE: only {n} raising constructs found in the debugger closure')
    # decimal formatting of integers of user-chosen size
    SAFE = {'hex', 'bin', 'oct', 'int_to_str', 'len'}
    seeds: Dict[str, Set[str]] = {q: set() for _, q, _ in clo}

    def taint(q: str, fn: ast.FunctionDef) -> Set[str]:
        t: Set[str] = set(seeds[q])
        for _ in range(4):
            for x in walk_no_nested(fn):
                if not (isinstance(x, ast.Assign) and len(x.targets) == 1):
                    continue
                tg, v = x.targets[0], x.value
                names = [tg.id] if isinstance(tg, ast.Name) else [e.id for e in tg.elts if isinstance(e, ast.Name)] if isinstance(tg, ast.Tuple) else []
                src = False
                if isinstance(v, ast.Call) and dotted(v.func) == 'int' and len(v.args) == 2:
                    src = True                                  # int(text, 16) / int(text, 0): no digit limit on the way in
                elif isinstance(v, ast.Call) and dotted(v.func).split('.')[-1] == 'calculate_variable_value':
                    src = True                                  # a vector of user-chosen length
                elif not (isinstance(v, ast.Call) and dotted(v.func) in SAFE) and any(isinstance(y, ast.Name) and y.id in t for y in ast.walk(v)) \
                        and isinstance(v, (ast.BinOp, ast.Name, ast.UnaryOp, ast.IfExp)):
                    src = True
                if src:
                    t |= set(names)
        return t
    for _ in range(4):
        for rel, q, fn in clo:
            t = taint(q, fn)
            for c in calls(fn):
                tgt = by_short.get(dotted(c.func).split('.')[-1])
                if tgt is None or handled(c, ('ValueError',)):
                    continue
                params = [a.arg for a in tgt[2].args.args]
                if params and params[0] == 'self':
                    params = params[1:]
                for i_, a in enumerate(c.args):
                    if i_ < len(params) and isinstance(a, ast.Name) and a.id in t:
                        seeds[tgt[1]].add(params[i_])
    n_sinks = 0
    for rel, q, fn in clo:
        t = taint(q, fn)
        for x in walk_no_nested(fn):
            e = None
            if isinstance(x, ast.FormattedValue):
                spec = ''.join(str(v.value) for v in x.format_spec.values if isinstance(v, ast.Constant)) if isinstance(x.format_spec, ast.JoinedStr) else ''
                if spec[-1:] not in ('x', 'X', 'b', 'o'):
                    e = x.value
            elif isinstance(x, ast.Call) and dotted(x.func) in ('str', 'repr') and len(x.args) == 1:
                e = x.args[0]
            if e is None or (isinstance(e, ast.Call) and dotted(e.func) in SAFE):
                continue
            hot = [y.id for y in ast.walk(e) if isinstance(y, ast.Name) and y.id in t] if isinstance(e, (ast.Name, ast.BinOp, ast.UnaryOp)) else []
            if not hot:
                continue
            n_sinks += 1
            proof = handled(x, ('ValueError',)) or callers_handled(q, ('ValueError',))
            rep.check(proof is not None, 'C15.CMD-ESCAPE', f'{q}:decimal {norm(e)[:30]}', proof or f'`{norm(e)[:40]}` can be an integer of any size the user '
                      f'chooses; formatting it in decimal raises ValueError above 4300 digits', f'{rel}:{x.lineno} {q}',
                      expected='hex() / int_to_str(), or a reporting ValueError handler')
    rep.units['cmd_escape'] = dict(raising_constructs=n, decimal_sinks_of_user_sized_ints=n_sinks)


def check(rep: Report, repo: Optional[Repo] = None) -> None:
    repo = repo or Repo()
    rep.units = dict(files=[BRK, UQ, RUN_REL], debugger_closure=[q for _, q, _ in debugger_closure(repo)])
    rule_pause_first(rep, repo)
    rule_commands(rep, repo)
    rule_readonly(rep, repo)
    rule_read_span(rep, repo)
    rule_decode(rep, repo)
    rule_cmd_escape(rep, repo)
    rule_read_target(rep, repo)
    rep.not_decided.append('equality of output/termination/op count with the undebugged run for all programs and command scripts')


MANIFEST = dict(
    technique='typestate (pause before fetch), command-table agreement, effect analysis and exception-escape / integer-formatting analysis of the debugger call closure; syntax-tree folding of the read command on concrete cases (addresses fetched)',
    level_text='Static, structural: the pause test precedes the flip fetch on every path of the featured loop; produced and handled '
               'debugger commands coincide with the documented next-break arithmetic; the debugger closure performs no program-state '
               'write, no device call, and only fault-guarded memory reads; variable decoding uses the stride/offset shared with the '
               'device adapter; no command can end the run with a raw exception (every raising construct of the command closure is handled, guarded or reasoned; integers of user-chosen size are never formatted in decimal). Equality with the undebugged run is not decided.',
    level_note='Trusted: CPython ast; fjverif CFG/typestate.',
    design_ref='DESIGN.md section 4 C15',
)
