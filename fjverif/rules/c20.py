"""C20 - the fj command, its split flows and the Python API agree (option-plumbing dataflow)."""
from __future__ import annotations

import ast
from typing import Any, Dict, List, Optional, Set, Tuple

from ..core import AnalysisError, Report
from ..pysubst import block_outcomes
from ..pyfacts import Repo, calls, dotted, guard_clauses_to_blocks, norm, param_defaults, param_names, walk_no_nested

CLI = 'flipjump/flipjump_cli.py'
QS = 'flipjump/flipjump_quickstart.py'
ASM = 'flipjump/assembler/assembler.py'
RUN = 'flipjump/interpreter/fjm_run.py'
WRITER = 'flipjump/fjm/fjm_writer.py'
CONSTS = 'flipjump/utils/constants.py'


def argparse_table(repo: Repo) -> Dict[str, Dict[str, Any]]:
    out: Dict[str, Dict[str, Any]] = {}
    for c in calls(repo.mod(CLI)):
        if not (isinstance(c.func, ast.Attribute) and c.func.attr == 'add_argument'):
            continue
        flags = [a.value for a in c.args if isinstance(a, ast.Constant) and isinstance(a.value, str)]
        kw = {k.arg: k.value for k in c.keywords}
        dest = None
        if 'dest' in kw:
            dest = kw['dest'].value            # type: ignore[attr-defined]
        else:
            longs = [f for f in flags if f.startswith('--')]
            if longs:
                dest = longs[0][2:].replace('-', '_')
            elif flags and not flags[0].startswith('-'):
                dest = flags[0]
            elif flags:
                dest = flags[0].lstrip('-')
        if dest is None:
            raise AnalysisError(f'{CLI}:{c.lineno}: cannot determine the destination of add_argument')
        default: Any = None
        if 'default' in kw:
            default = norm(kw['default'])
        elif 'action' in kw and norm(kw['action']) == "'store_true'":
            default = 'False'
        out[dest] = dict(flags=flags, default=default, kw={k: norm(v) for k, v in kw.items()}, line=c.lineno)
    return out


def args_reads(repo: Repo) -> Dict[str, List[Tuple[str, int]]]:
    out: Dict[str, List[Tuple[str, int]]] = {}
    for fn in [n for n in ast.walk(repo.mod(CLI)) if isinstance(n, ast.FunctionDef)]:
        for n in walk_no_nested(fn):
            if isinstance(n, ast.Attribute) and isinstance(n.value, ast.Name) and n.value.id == 'args':
                out.setdefault(n.attr, []).append((fn.name, n.lineno))
    return out


def call_kwargs(fn: ast.AST, callee: str) -> List[Tuple[List[str], Dict[str, str], ast.Call]]:
    out = []
    for c in calls(fn):
        if dotted(c.func) == callee:
            out.append(([norm(a) for a in c.args], {k.arg: norm(k.value) for k in c.keywords if k.arg}, c))
    return out


# CLI destination -> (function, callee, parameter, expected argument expression)
SINKS = [
    ('width', 'assemble', 'Writer', 1, 'args.width'),
    ('width', 'assemble', 'assembler.assemble', 1, 'args.width'),
    ('version', 'assemble', 'get_version', 0, 'args.version'),
    ('outfile', 'assemble', 'get_version', 1, 'args.outfile is not None'),
    ('flags', 'assemble', 'Writer', 'flags', 'args.flags'),
    ('lzma_preset', 'assemble', 'Writer', 'lzma_preset', 'args.lzma_preset'),
    ('werror', 'assemble', 'assembler.assemble', 'warning_as_errors', 'args.werror'),
    ('no_stl', 'assemble', 'get_file_tuples', 'no_stl', 'args.no_stl'),
    ('files', 'assemble', 'get_file_tuples', 0, 'args.files'),
    ('stats', 'assemble', 'assembler.assemble', 'show_statistics', 'args.stats'),
    ('max_recursion_depth', 'assemble', 'assembler.assemble', 'max_recursion_depth', 'args.max_recursion_depth'),
    ('silent', 'assemble', 'assembler.assemble', 'print_time', 'not args.silent'),
    ('silent', 'run', 'flipjump_quickstart.debug', 'print_time', 'not args.silent'),
    ('silent', 'run', 'flipjump_quickstart.debug', 'print_termination', 'not args.silent'),
    ('trace', 'run', 'flipjump_quickstart.debug', 'show_trace', 'args.trace'),
    ('profile', 'run', 'flipjump_quickstart.debug', 'profile', 'args.profile'),
    ('flat_max_words', 'run', 'flipjump_quickstart.debug', 'flat_max_words', 'args.flat_max_words'),
    ('debug_ops_list', 'run', 'flipjump_quickstart.debug', 'last_ops_debugging_list_length', 'args.debug_ops_list'),
    ('breakpoint', 'run', 'flipjump_quickstart.debug', 'breakpoints', 'set(args.breakpoint)'),
    ('breakpoint_contains', 'run', 'flipjump_quickstart.debug', 'breakpoints_contains', 'set(args.breakpoint_contains)'),
    ('io', 'run', 'make_io_device', 0, 'args.io'),
]


def rule_sinks(rep: Report, repo: Repo) -> None:
    rep.rule('C20.SINKS', 'every command-line destination is read, every args.X read has a destination, and each destination reaches '
             'its sink parameter (reference table B3) as the expected expression', 40)
    table = argparse_table(repo)
    reads = args_reads(repo)
    for dest in sorted(table):
        rep.check(dest in reads, 'C20.SINKS', f'dest:{dest}:read', f'read in {sorted({f for f, _ in reads.get(dest, [])})}' if dest in reads else
                  'defined but never read (the option is silently ignored)', f'{CLI}:{table[dest]["line"]}')
    for attr in sorted(reads):
        rep.check(attr in table, 'C20.SINKS', f'read:{attr}:defined', 'has an add_argument' if attr in table else 'read but no add_argument defines it',
                  f'{CLI}:{reads[attr][0][1]} {reads[attr][0][0]}')
    for dest, fname, callee, param, want in SINKS:
        fn = repo.func(CLI, fname)
        cs = call_kwargs(fn, callee)
        if not cs:
            # the sink call may have been extracted into a private helper of the module: follow one level, substituting the
            # helper's parameters by the actual arguments
            for hc in [c for c in calls(fn) if dotted(c.func).startswith('_') and repo.has_func(CLI, dotted(c.func))]:
                h = repo.func(CLI, dotted(hc.func))
                inner = call_kwargs(h, callee)
                if not inner:
                    continue
                hp = [a.arg for a in h.args.args]
                bind = {p_: norm(a) for p_, a in zip(hp, hc.args)}
                bind.update({k.arg: norm(k.value) for k in hc.keywords if k.arg})
                def subst(t: str) -> str:
                    e = ast.parse(t, mode='eval').body
                    class S(ast.NodeTransformer):
                        def visit_Name(self, node: ast.Name) -> ast.AST:
                            return ast.parse(bind[node.id], mode='eval').body if node.id in bind else node
                    return norm(ast.fix_missing_locations(S().visit(e)))
                ipos, ikw, ic = inner[0]
                cs = [([subst(x) for x in ipos], {k: subst(v) for k, v in ikw.items()}, ic)]
                break
        if not cs:
            rep.fail('C20.SINKS', f'{dest} -> {callee}({param})', f'{fname}() no longer calls {callee}', f'{CLI}:{fn.lineno} {fname}')
            continue
        pos, kw, c = cs[0]
        got = (pos[param] if isinstance(param, int) and param < len(pos) else kw.get(param)) if not isinstance(param, int) or param < len(pos) else None
        if isinstance(param, str):
            got = kw.get(param)
        rep.check(got == want, 'C20.SINKS', f'{dest} -> {callee}({param})', f'passes {got}', f'{CLI}:{c.lineno} {fname}', expected=want)
    # the version object reaches the Writer
    fn = repo.func(CLI, 'assemble')
    w = call_kwargs(fn, 'Writer')
    rep.check(bool(w) and w[0][0][2].startswith('get_version(args.version, args.outfile is not None'), 'C20.SINKS', 'version -> Writer(version)',
              w[0][0][2] if w else 'missing', f'{CLI}:{fn.lineno} assemble')
    # debug / outfile / asm / run are consumed by the path helpers and the dispatcher only
    allowed = {'asm': {'get_fjm_file_path', 'get_debug_file_path', 'execute_assemble_run'}, 'run': {'get_files_paths', 'get_fjm_file_path', 'get_debug_file_path', 'execute_assemble_run'},
               'debug': {'get_debug_file_path'}, 'outfile': {'get_fjm_file_path', 'assemble'}}
    for attr, fns in allowed.items():
        got = {f for f, _ in reads.get(attr, [])}
        rep.check(got <= fns and bool(got), 'C20.SINKS', f'{attr}:readers', f'read in {sorted(got)}', CLI, expected=f'subset of {sorted(fns)}')


def rule_width_one(rep: Report, repo: Repo) -> None:
    rep.rule('C20.WIDTH-ONE', 'in every route the width given to the Writer and to assembler.assemble is the same expression', 2)
    for rel, q in ((CLI, 'assemble'), (QS, 'assemble')):
        fn = repo.func(rel, q)
        w = call_kwargs(fn, 'Writer')
        a = call_kwargs(fn, 'assembler.assemble')
        ok = bool(w) and bool(a) and w[0][0][1] == a[0][0][1] and a[0][0][2] == 'fjm_writer'
        rep.check(ok, 'C20.WIDTH-ONE', f'{rel.split("/")[-1]}:{q}', f'Writer(width={w[0][0][1] if w else None}) vs assemble(width={a[0][0][1] if a else None})',
                  f'{rel}:{fn.lineno}')


# non-identity forwards that are correct by design (DESIGN.md appendix B4), one line of reason each
FORWARD_EXCEPTIONS = {
    ('assemble', 'use_stl'): 'forwarded negated as get_file_tuples(no_stl=not use_stl)',
    ('assemble', 'fj_file_paths'): 'made absolute and passed to get_file_tuples',
    ('assemble', 'output_fjm_path'): 'positional argument of Writer',
    ('assemble', 'memory_width'): 'positional argument of Writer and of assembler.assemble',
    ('assemble', 'fjm_version'): 'positional argument of Writer',
    ('debug', 'breakpoints_addresses'): 'consumed by get_breakpoint_handler',
    ('debug', 'breakpoints'): 'consumed by get_breakpoint_handler',
    ('debug', 'breakpoints_contains'): 'consumed by get_breakpoint_handler',
    ('debug', 'debugging_file'): 'consumed by get_breakpoint_handler',
    ('debug', 'print_termination'): 'consumed locally (prints the statistics)',
    ('debug', 'fjm_path'): 'positional argument of fjm_run.run',
    ('run', 'fjm_path'): 'positional argument of debug',
    ('run', 'debugging_file'): 'positional argument of debug',
    ('run_test_output', 'fjm_path'): 'positional argument of run',
    ('run_test_output', 'fixed_input'): 'wrapped as FixedIO(fixed_input)',
    ('run_test_output', 'expected_output'): 'compared locally',
    ('run_test_output', 'expected_termination_cause'): 'compared locally',
    ('run_test_output', 'should_raise_assertion_error'): 'consumed locally',
    ('assemble_and_run', 'fj_file_paths'): 'positional argument of assemble_and_debug',
    ('assemble_and_debug', 'fj_file_paths'): 'positional argument of assemble (and the temp-dir name)',
    ('assemble_and_run_test_output', 'fj_file_paths'): 'positional argument of assemble (and the temp-dir name)',
    ('assemble_and_run_test_output', 'fixed_input'): 'positional argument of run_test_output',
    ('assemble_and_run_test_output', 'expected_output'): 'positional argument of run_test_output',
}
WRAPPERS = {
    'assemble': ['assembler.assemble', 'Writer', 'get_file_tuples'],
    'run': ['debug'],
    'debug': ['fjm_run.run', 'get_breakpoint_handler'],
    'run_test_output': ['run'],
    'assemble_and_run': ['assemble_and_debug'],
    'assemble_and_debug': ['assemble', 'debug'],
    'assemble_and_run_test_output': ['assemble', 'run_test_output'],
}


def rule_forward(rep: Report, repo: Repo) -> None:
    rep.rule('C20.FORWARD', 'every API wrapper forwards each of its parameters to the same-named parameter of its callee, unmodified; '
             'the exceptions are a reasoned table; a parameter that is accepted but not forwarded is a violation', 60)
    for wname, callees in WRAPPERS.items():
        fn = repo.func(QS, wname)
        params = param_names(fn)
        kws: Dict[str, List[Tuple[str, str]]] = {}
        posargs: Dict[str, List[str]] = {}
        for cal in callees:
            for pos, kw, c in call_kwargs(fn, cal):
                for k, v in kw.items():
                    kws.setdefault(k, []).append((cal, v))
                posargs.setdefault(cal, []).extend(pos)
        for p in params:
            site = f'{QS}:{fn.lineno} {wname}'
            fw = [(cal, v) for cal, v in kws.get(p, [])]
            if fw and all(v == p for _, v in fw):
                rep.ok('C20.FORWARD', f'{wname}:{p}', f'forwarded as {p}={p} to {sorted({c for c, _ in fw})}', site)
                continue
            if (wname, p) in FORWARD_EXCEPTIONS:
                used = any(isinstance(n, ast.Name) and n.id == p and isinstance(n.ctx, ast.Load) for n in walk_no_nested(fn))
                rep.check(used, 'C20.FORWARD', f'{wname}:{p}', f'exception: {FORWARD_EXCEPTIONS[(wname, p)]}; used={used}', site)
                continue
            if fw:
                rep.fail('C20.FORWARD', f'{wname}:{p}', f'forwarded modified: {fw}', site, expected=f'{p}={p}')
            else:
                rep.fail('C20.FORWARD', f'{wname}:{p}', 'accepted but not forwarded to any callee (the callee default is silently used)', site,
                         expected=f'{p}={p} in a call to one of {callees}')
        # nothing is forwarded under a different name than its own, except the reasoned renames
        renames = {('assemble', 'no_stl'), ('debug', 'breakpoint_handler'), ('debug', 'io_device'), ('run', 'breakpoints_addresses'),
                   ('run', 'breakpoints'), ('run', 'breakpoints_contains'), ('run_test_output', 'io_device'),
                   ('assemble_and_debug', 'debugging_file_path'), ('assemble_and_run_test_output', 'debugging_file_path'),
                   ('assemble_and_run_test_output', 'debugging_file')}
        for k, lst in kws.items():
            for cal, v in lst:
                if v != k and (wname, k) not in renames and k not in params:
                    rep.fail('C20.FORWARD', f'{wname}:{cal}({k}=)', f'callee parameter {k} fed with {v}', f'{QS}:{fn.lineno} {wname}')
    # the three None breakpoint arguments of run() and the handler gating in debug()
    r = call_kwargs(repo.func(QS, 'run'), 'debug')
    rep.check(bool(r) and all(r[0][1].get(k) == 'None' for k in ('breakpoints_addresses', 'breakpoints', 'breakpoints_contains')), 'C20.FORWARD',
              'run:no-breakpoints', str({k: r[0][1].get(k) for k in ('breakpoints_addresses', 'breakpoints', 'breakpoints_contains')} if r else None), QS)
    d = call_kwargs(repo.func(QS, 'debug'), 'fjm_run.run')
    rep.check(bool(d) and d[0][1].get('breakpoint_handler') == 'breakpoint_handler if breakpoint_handler.breakpoints else None', 'C20.FORWARD',
              'debug:handler-gating', d[0][1].get('breakpoint_handler') if d else 'missing', QS)


def rule_defaults(rep: Report, repo: Repo) -> None:
    rep.rule('C20.DEFAULTS', 'same-named parameters have equal defaults across the API functions; the command-line defaults of the '
             'options that influence the produced bytes or are documented equal the API\'s and the Writer\'s; width 64, stl included', 12)
    fns = {w: repo.func(QS, w) for w in WRAPPERS}
    fns['assembler.assemble'] = repo.func(ASM, 'assemble')
    fns['fjm_run.run'] = repo.func(RUN, 'run')
    by_param: Dict[str, Dict[str, str]] = {}
    for name, fn in fns.items():
        for p, d in param_defaults(fn).items():
            by_param.setdefault(p, {})[name] = norm(d)
    # deliberate differences (one reason each)
    differs_ok = {
        'print_time': 'fjm_run.run is the low-level entry (quiet by default); the API wrappers print times',
        'last_ops_debugging_list_length': 'fjm_run.run defaults to no list; the API wrappers to the documented default length',
    }
    for p, d in sorted(by_param.items()):
        vals = set(d.values())
        if len(d) < 2:
            continue
        if len(vals) == 1:
            rep.ok('C20.DEFAULTS', f'param:{p}', f'default {vals.pop()} in {len(d)} functions', QS)
        elif p in differs_ok:
            api = {v for k, v in d.items() if k != 'fjm_run.run'}
            rep.check(len(api) == 1, 'C20.DEFAULTS', f'param:{p}', f'{d} ({differs_ok[p]})', QS)
        else:
            rep.fail('C20.DEFAULTS', f'param:{p}', f'defaults differ: {d}', QS, expected='one default everywhere')
    table = argparse_table(repo)
    wd = param_defaults(repo.func(WRITER, 'Writer.__init__'))
    api = param_defaults(fns['assemble'])
    checks = [
        ('width', table['width']['default'], norm(api['memory_width']), '64'),
        ('flags', table['flags']['default'], norm(wd['flags']), '0'),
        ('lzma_preset', table['lzma_preset']['default'], norm(wd['lzma_preset']), 'lzma.PRESET_DEFAULT'),
        ('max_recursion_depth', table['max_recursion_depth']['default'], norm(api['max_recursion_depth']), 'DEFAULT_MAX_MACRO_RECURSION_DEPTH'),
        ('debug_ops_list', table['debug_ops_list']['default'], norm(param_defaults(fns['run'])['last_ops_debugging_list_length']), 'LAST_OPS_DEBUGGING_LIST_DEFAULT_LENGTH'),
        ('no_stl', table['no_stl']['default'], 'False' if norm(api['use_stl']) == 'True' else 'True', 'False'),
        ('flat_max_words', table['flat_max_words']['default'], norm(param_defaults(fns['run'])['flat_max_words']), 'None'),
        ('profile', table['profile']['default'], norm(param_defaults(fns['run'])['profile']), 'False'),
        ('trace', table['trace']['default'], norm(param_defaults(fns['run'])['show_trace']), 'False'),
        ('stats', table['stats']['default'], norm(api['show_statistics']), 'False'),
    ]
    for dest, cli, apiv, doc in checks:
        rep.check(cli == apiv == doc, 'C20.DEFAULTS', f'cli:{dest}', f'command line {cli}, API/Writer {apiv}', f'{CLI}:{table[dest]["line"]}', expected=doc)
    rep.notes.append('--werror is deliberately not compared (CLI default off, API default on): it only decides whether a program with '
                     'warnings is accepted, never the bytes of an accepted program')


def rule_version_default(rep: Report, repo: Repo) -> None:
    rep.rule('C20.VERSION-DEFAULT', 'get_version: an explicit version is validated and used; none + an output file -> compressed (3); '
             'none otherwise -> normal (1); the API default is the compressed version', 2)
    gv = repo.func(CLI, 'get_version')
    # the decision table by forward substitution (branch order / nesting / negation do not matter): per path, the conditions that
    # hold decide the returned version
    outs = block_outcomes(gv.body, {}, 'get_version')
    bad = []
    validated = False
    for o in outs:
        c = set(o.conds)
        if 'version is not None' in c:
            want = 'FJMVersion(version)'
            if any(x.startswith('version not in ') for x in c):
                validated = validated or any(e.startswith('error_func(') for e in o.effects)
        elif 'version is None' in c and 'is_outfile_specified' in c:
            want = 'FJMVersion.CompressedVersion'
        elif 'version is None' in c and 'not is_outfile_specified' in c:
            want = 'FJMVersion.NormalVersion'
        else:
            want = '?'
        if o.result != ('return', want):
            bad.append(f'{sorted(c)} -> {o.result}')
    ok = not bad and len(outs) >= 4
    valid = validated
    rep.check(ok and valid, 'C20.VERSION-DEFAULT', 'get_version', f'decision table ok={ok}{" " + bad[0] if bad else ""}, explicit version validated={valid}',
              f'{CLI}:{gv.lineno}')
    vals = {}
    for st in repo.cls('flipjump/fjm/fjm_consts.py', 'FJMVersion').body:
        if isinstance(st, ast.Assign):
            vals[norm(st.targets[0])] = norm(st.value)
    api = {w: norm(param_defaults(repo.func(QS, w)).get('fjm_version')) for w in WRAPPERS if 'fjm_version' in param_names(repo.func(QS, w))}
    rep.check(vals.get('CompressedVersion') == '3' and vals.get('NormalVersion') == '1' and set(api.values()) == {'FJMVersion.CompressedVersion'},
              'C20.VERSION-DEFAULT', 'documented-values', f'{vals}; API defaults {api}', 'flipjump/fjm/fjm_consts.py',
              expected='version 3 when an output file is requested (and in the API), 1 otherwise')


def rule_flows(rep: Report, repo: Repo) -> None:
    rep.rule('C20.FLOWS', 'the one-step and two-step flows run the same assemble()/run() code: execute_assemble_run assembles unless '
             '--run and runs unless --asm, with the paths from one helper', 2)
    ex = repo.func(CLI, 'execute_assemble_run')
    ifs = [(norm(n.test), [dotted(c.func) for s in n.body for c in ast.walk(s) if isinstance(c, ast.Call)]) for n in ast.walk(ex) if isinstance(n, ast.If)]
    rep.check(ifs == [('not args.run', ['assemble']), ('not args.asm', ['run'])], 'C20.FLOWS', 'dispatcher', str(ifs), f'{CLI}:{ex.lineno}')
    paths = [norm(s) for s in ast.walk(ex) if isinstance(s, ast.Assign)]
    gfp = repo.func(CLI, 'get_files_paths')
    infjm = [norm(s.value) for s in gfp.body if isinstance(s, ast.Assign) and norm(s.targets[0]) == 'in_fjm_path']
    rep.check(paths == ['debug_path, in_fjm_path, out_fjm_path = get_files_paths(args, error_func, temp_dir_name)'] and
              infjm == ['Path(args.files[0]) if args.run else out_fjm_path'], 'C20.FLOWS', 'paths', f'{paths}; in_fjm_path = {infjm}', f'{CLI}:{gfp.lineno}',
              expected='the run reads the file the assemble step just wrote, unless --run names one')


REPORTING_FLAGS = ('args.silent', 'print_time', 'print_termination')


def rule_report_only(rep: Report, repo: Repo) -> None:
    rep.rule('C20.REPORT-ONLY', 'the reporting options (-s/--silent, print_time, print_termination) gate reporting only: a block that '
             'runs only when such a flag has a given value binds no name that is read after the block and leaves the function by no '
             'return / raise / break / continue - so the artefacts and the run are the same with and without the flag', 2)
    n = 0
    for rel in (CLI, QS):
        for fn0 in [f for f in ast.walk(repo.mod(rel)) if isinstance(f, (ast.FunctionDef, ast.AsyncFunctionDef))]:
            fn = guard_clauses_to_blocks(fn0)          # `if silent: return` + rest reads as `if not silent: rest` in a void helper
            for node in ast.walk(fn):
                if not isinstance(node, ast.If):
                    continue
                flags = [f for f in REPORTING_FLAGS if any(norm(x) == f for x in ast.walk(node.test))]
                if not flags:
                    continue
                n += 1
                for branch, body in (('then', node.body), ('else', node.orelse)):
                    if not body:
                        continue
                    bound: Set[str] = set()
                    exits = []
                    inside = set()
                    for st in body:
                        for x in ast.walk(st):
                            inside.add(id(x))
                            if isinstance(x, ast.Name) and isinstance(x.ctx, ast.Store):
                                bound.add(x.id)
                            if isinstance(x, (ast.Attribute, ast.Subscript)) and isinstance(x.ctx, ast.Store):
                                bound.add(norm(x))
                            if isinstance(x, (ast.Return, ast.Raise, ast.Break, ast.Continue)):
                                exits.append(type(x).__name__)
                    live = sorted({b for b in bound for x in ast.walk(fn) if id(x) not in inside and getattr(x, 'lineno', 0) > node.lineno
                                   and ((isinstance(x, ast.Name) and x.id == b) or (isinstance(x, (ast.Attribute, ast.Subscript)) and norm(x) == b))
                                   } if bound else [])
                    rep.check(not live and not exits, 'C20.REPORT-ONLY', f'{fn.name}:if {norm(node.test)}:{branch}',
                              f'binds {live} used later; exits {exits}' if (live or exits) else f'binds {sorted(bound)} (block-local), no exit',
                              f'{rel}:{node.lineno} {fn.name}', expected='only reporting inside a block gated by a reporting flag')
    if n < 2:
        raise AnalysisError(f'C20.REPORT-ONLY: only {n} blocks gated by a reporting flag found (2 confirmed by hand)')


def check(rep: Report, repo: Optional[Repo] = None) -> None:
    repo = repo or Repo()
    rep.units = dict(files=[CLI, QS], argparse_destinations=len(argparse_table(repo)), wrappers=list(WRAPPERS))
    rule_sinks(rep, repo)
    rule_width_one(rep, repo)
    rule_forward(rep, repo)
    rule_defaults(rep, repo)
    rule_version_default(rep, repo)
    rule_flows(rep, repo)
    rule_report_only(rep, repo)
    rep.not_decided.append('byte equality of the artefacts across routes for all programs (follows from shared code + plumbing, not observed)')


MANIFEST = dict(
    technique='option-plumbing dataflow: argparse destination -> sink parameter; wrapper parameter forwarding; default agreement',
    level_text='Static: every command-line destination is read and reaches the documented sink parameter as the expected expression; '
               'every API wrapper forwards every parameter to the same-named callee parameter (reasoned exceptions only); defaults '
               'agree across API, CLI and Writer and with the documented values; both flows go through the same assemble/run code.',
    level_note='Trusted: CPython ast; the sink table and the forwarding exceptions in rules/c20.py (DESIGN.md appendix B3/B4).',
    design_ref='DESIGN.md section 4 C20',
)
