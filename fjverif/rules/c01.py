"""C01 - every engine executes the FlipJump machine semantics exactly (structural clauses)."""
from __future__ import annotations

import ast
from typing import Any, Dict, List, Optional, Set, Tuple

from .. import linexpr as lx
from ..cfacts import CUnit, dispatcher_of, call_args, callee, int_value, is_assign, strip, walk
from ..core import AnalysisError, Report
from ..linexpr import Env, c_ir, py_ir, to_lin
from ..pycfg import path_to, run_typestate
from ..pyfacts import eval_int_expr, expand_private_calls, Repo, dispatch_return, inline_pure_temps, temp_values, dotted, enclosing_handlers, handler_types, norm, walk_no_nested
from ..spec import machine as M
from ..steps import (CLoop, PyLoop, RUN_REL, READER_REL, c_assigned, c_mentions, event_nodes, guard_interval,
                     path_conditions, py_assigned, py_mentions)

P = 'C01'


def c_clones(cu: CUnit, tier: str) -> List[CLoop]:
    out: List[CLoop] = []
    widths: List[Dict[str, int]] = [{}]
    if tier == 'thorough':
        widths = [{'width': w, 'ww': l} for w, l in M.WIDTHS.items()]
    for fname, roles in M.ROLES_C.items():
        for wc in (widths if fname != 'run_measured_loop' else [{}]):
            if fname == 'run_paged_loop_impl':
                for ring in (0, 1):
                    if ring == 1 and wc:
                        continue     # the ring clone is instantiated with the runtime width only
                    out.append(CLoop(cu, fname, roles, {**wc, 'with_ring': ring}))
            else:
                out.append(CLoop(cu, fname, roles, dict(wc)))
    return out


def loops(repo: Repo, cu: CUnit, tier: str) -> List[Any]:
    out: List[Any] = [PyLoop(repo, f, r) for f, r in M.ROLES_PY.items()]
    out.extend(c_clones(cu, tier))
    return out


def _site(loop: Any, nid: int) -> str:
    node = loop.g.nodes[nid]
    if isinstance(loop, CLoop):
        return loop.cu.site(node.ast, loop.fname) if isinstance(node.ast, dict) else f'{loop.cu.rel} {loop.fname}'
    return f'{RUN_REL}:{getattr(node.ast, "lineno", 0)} {loop.fname}'


def _name(loop: Any) -> str:
    return loop.clone_name() if isinstance(loop, CLoop) else f'fjm_run.{loop.fname}'


def _txt(loop: Any, nid: int) -> str:
    node = loop.g.nodes[nid]
    if isinstance(node.ast, dict):
        return loop.cu.src_of(node.ast)[:90]
    if isinstance(node.ast, ast.AST):
        return ast.unparse(node.ast).split('\n')[0][:90]
    return node.kind


# ---------------------------------------------------------------- C01.ORDER

def rule_order(rep: Report, all_loops: List[Any]) -> None:
    rep.rule('C01.ORDER', 'typestate over the CFG of every step implementation: on every path the per-op events '
             'occur in the order RECORD_IP [PAUSE] FETCH_FLIP [OUTPUT] [INPUT INPUT_STORE] FLIP FETCH_JUMP COUNT '
             'LOOPTEST NULLTEST JUMP; the loop head is re-entered only after JUMP', 6)
    for loop in all_loops:
        probs, IN, cnt = run_typestate(loop.g, loop.g.entry, 'START', loop.events, M.STEP_ALLOWED,
                                       reset_at={loop.head(): M.STEP_HEAD_STATES})
        if loop.unrecognised:
            raise AnalysisError(f'{_name(loop)}: unrecognised memory idiom(s): ' + '; '.join(loop.unrecognised[:4]))
        mandatory = ['FETCH_FLIP', 'FLIP', 'FETCH_JUMP', 'COUNT', 'LOOPTEST', 'NULLTEST', 'JUMP']
        missing = [e for e in mandatory if cnt.get(e, 0) == 0]
        if missing:
            raise AnalysisError(f'{_name(loop)}: no site classified as {missing} - role table or idiom drifted')
        if not probs:
            rep.ok('C01.ORDER', _name(loop), f'events in order on every path; sites: {dict(cnt)}',
                   _site(loop, loop.head()))
        for nid, ev, bad in probs:
            path = [f'{_site(loop, p)}: {_txt(loop, p)}' for p in path_to(loop.g, loop.head(), nid)[-8:]]
            if ev == '<head>':
                rep.fail('C01.ORDER', f'{_name(loop)}:loop-head',
                         f'the loop head is re-entered in state(s) {bad} (a step path skips mandatory events)',
                         _site(loop, nid), expected='re-entry only after JUMP', path=path)
            else:
                rep.fail('C01.ORDER', f'{_name(loop)}:{ev}',
                         f'{ev} can occur after {bad}: {_txt(loop, nid)}', _site(loop, nid),
                         expected=f'{ev} only after {sorted(M.STEP_ALLOWED[ev])}', path=path)


# ---------------------------------------------------------------- C01.GUARDS

def _iv_eq(iv: Optional[lx.Interval], lo: Optional[lx.Lin], hi: Optional[lx.Lin], neg: bool = False) -> bool:
    if iv is None:
        return False
    def beq(a: Any, b: Any) -> bool:
        if a is None or b is None:
            return a is None and b is None
        return lx.lin_eq(a, b)
    return iv.neg == neg and beq(iv.lo, lo) and beq(iv.hi, hi)


def _cause_nodes(loop: Any, which: str) -> List[int]:
    """nodes that report the given termination (Python: return ...TerminationCause.X; C: cause = TERM_X)."""
    out = []
    for n in loop.g.nodes:
        a = n.ast
        if isinstance(loop, CLoop):
            if n.kind == 'stmt' and isinstance(a, dict) and is_assign(a):
                l0 = strip(a['inner'][0])
                if l0.get('kind') == 'DeclRefExpr' and l0['referencedDecl']['name'] == 'cause' \
                        and ('TERM_' + which) in loop.cu.src_of(a):
                    out.append(n.id)
        else:
            if n.kind == 'stmt' and isinstance(a, ast.Return) and a.value is not None:
                if any(dotted(x) == f'TerminationCause.{which}' for x in ast.walk(a.value)):
                    out.append(n.id)
            # `cause = TerminationCause.X; break` with the one `return TerminationStatistics(.., cause)` after the loop
            elif n.kind == 'stmt' and isinstance(a, ast.Assign) and len(a.targets) == 1 and isinstance(a.targets[0], ast.Name) \
                    and dotted(a.value) == f'TerminationCause.{which}':
                nm_ = a.targets[0].id
                if any(isinstance(r, ast.Return) and r.value is not None and any(isinstance(x, ast.Name) and x.id == nm_ for x in ast.walk(r.value))
                       for r in walk_no_nested(loop.fn)):
                    out.append(n.id)
    return out


def rule_guards(rep: Report, all_loops: List[Any], repo: Repo) -> None:
    rep.rule('C01.GUARDS', 'the must-path-conditions at each optional event / halt, normalised to integer '
             'intervals in (w, L), equal the reference: output f in [2w,2w+1] with bit=(f==2w+1); input '
             'ip in (3w+L+1-2w, 3w+L+1], stored at 3w+L+1; halt j==ip and not ip<=f<ip+2w; null j<2w', 36)
    PY_TERM = {'LOOPING': 'Looping', 'NULL_IP': 'NullIP'}
    for loop in all_loops:
        is_c = isinstance(loop, CLoop)
        IN = path_conditions(loop.g, loop.head(), c_assigned if is_c else py_assigned,
                             c_mentions if is_c else py_mentions)
        nm = _name(loop)
        # OUTPUT / INPUT guards. In _run_featured they live inside the helpers.
        targets: List[Tuple[str, Any, Dict[int, Any], List[int]]] = []
        if not is_c and loop.fname == '_run_featured':
            for helper, evname in (('_handle_output', 'OUTPUT'), ('_handle_input', 'INPUT')):
                hl = _helper_loop(repo, loop, helper)
                hIN = path_conditions(hl.g, hl.g.entry, py_assigned, py_mentions)
                targets.append((evname, hl, hIN, event_nodes(hl, evname)))
        else:
            for evname in ('OUTPUT', 'INPUT'):
                targets.append((evname, loop, IN, event_nodes(loop, evname)))
        for evname, L, LIN, nodes in targets:
            if not nodes:
                raise AnalysisError(f'{nm}: no {evname} site found')
            for nid in nodes:
                role = 'f' if evname == 'OUTPUT' else 'ip'
                iv, used = guard_interval(L, nid, LIN, role)
                ref = M.OUTPUT_F if evname == 'OUTPUT' else M.INPUT_IP
                rep.check(_iv_eq(iv, ref[0], ref[1]), 'C01.GUARDS', f'{nm}:{evname}',
                          f'guard {iv} from {used}', _site(L, nid),
                          expected=f'{L.roles[role]} in [{lx.lin_show(ref[0])}, {lx.lin_show(ref[1])}]')
                if evname == 'OUTPUT':
                    _check_output_bit(rep, L, nid, nm)
            if evname == 'INPUT':
                stores = event_nodes(L, 'INPUT_STORE')
                if not stores:
                    raise AnalysisError(f'{nm}: no INPUT_STORE site found')
                for nid in stores:
                    _check_input_addr(rep, L, nid, nm)
        # halts
        for which, ref_name in (('LOOPING', 'halt'), ('NULL_IP', 'null')):
            nodes = _cause_nodes(loop, which if is_c else PY_TERM[which])
            if not nodes:
                raise AnalysisError(f'{nm}: no site reporting {which}')
            for nid in nodes:
                if which == 'LOOPING':
                    ivj, used_j = guard_interval(loop, nid, IN, 'j', pure=False, only_with={'j', 'ip'})
                    ivf, used_f = _self_flip_exception(loop, nid, IN)
                    okj = _iv_eq(ivj, {loop.roles['ip']: 1, '': 0}, {loop.roles['ip']: 1, '': 0})
                    lo = {loop.roles['ip']: 1, '': 0}
                    hi = {loop.roles['ip']: 1, 'w': 2, '': -1}
                    okf = _iv_eq(ivf, lo, hi, neg=True)
                    rep.check(okj and okf, 'C01.GUARDS', f'{nm}:HALT_LOOP',
                              f'halt when {ivj} and {ivf}', _site(loop, nid),
                              expected='j == ip and not (ip <= f <= ip+2w-1)')
                else:
                    ivj, used = guard_interval(loop, nid, IN, 'j', pure=True)
                    rep.check(_iv_eq(ivj, None, M.NULL_J_HI), 'C01.GUARDS', f'{nm}:HALT_NULL',
                              f'null-jump when {ivj}', _site(loop, nid), expected='j <= 2w-1')


def _helper_loop(repo: Repo, parent: PyLoop, helper: str) -> PyLoop:
    """wrap a featured-loop helper (_handle_output/_handle_input) as a pseudo loop for guard extraction."""
    from ..pycfg import build_py_cfg
    fn = repo.func(RUN_REL, helper)
    call = None
    for n in walk_no_nested(parent.fn):
        if isinstance(n, ast.Call) and dotted(n.func) == helper:
            call = n
    if call is None:
        raise AnalysisError(f'_run_featured does not call {helper}')
    params = [a.arg for a in fn.args.args]
    inv = {v: k for k, v in parent.roles.items()}
    roles = dict(parent.roles)
    for p, a in zip(params, call.args):
        if isinstance(a, ast.Name) and a.id in inv:
            roles[inv[a.id]] = p
    hl = PyLoop.__new__(PyLoop)
    hl.repo, hl.fname, hl.roles, hl.fn = repo, helper, roles, fn
    hl.g = build_py_cfg(fn)
    hl.aliases = {}
    hl.helper_cache = {}
    hl.unrecognised = []
    hl.env = PyLoop._env(hl)
    hl.loop = None     # type: ignore[assignment]
    hl.head = lambda: hl.g.entry      # type: ignore[method-assign]
    return hl


def _self_flip_exception(loop: Any, nid: int, IN: Dict[int, Any]) -> Tuple[Optional[lx.Interval], List[str]]:
    """the f-part of the self-loop halt: not (ip <= f < ip+2w)."""
    from ..steps import facts_as_ir, role_deps
    facts = IN.get(nid)
    var = loop.roles['f']
    unsigned = isinstance(loop, CLoop)
    res = None
    used = []
    for ir in facts_as_ir(loop, facts or frozenset()):
        for c in lx.conjuncts(ir):
            deps = role_deps(loop, c)
            if 'f' not in deps or 'j' in deps:
                continue
            if deps - {'f', 'ip'}:
                continue
            try:
                iv = lx.solve(c, var, loop.env, unsigned=unsigned)
            except lx.Unrecognised:
                continue
            if iv is None:
                continue
            # keep only the self-flip exception (a complemented / two-sided interval around ip)
            if iv.neg:
                res = iv
                used.append(lx.show(c))
    return res, used


def _check_input_addr(rep: Report, L: Any, nid: int, nm: str) -> None:
    """the consumed input bit is stored at bit address 3w + #w."""
    node = L.g.nodes[nid]
    found = None
    if isinstance(L, CLoop):
        for c in [x for x in walk(node.ast) if x.get('kind') == 'CallExpr' and callee(x) == 'mem_write_bit']:
            found = to_lin(c_ir(call_args(c)[1], L.cu.src_of), L.env)
    else:
        for c in [x for x in ast.walk(node.ast) if isinstance(x, ast.Call)]:
            if L._call_name(c) == 'mem.write_bit' and c.args:
                found = to_lin(py_ir(c.args[0]), L.env)
    rep.check(found is not None and lx.lin_eq(found, M.INPUT_ADDR), 'C01.GUARDS', f'{nm}:INPUT_ADDR',
              f'input bit stored at {lx.lin_show(found)}', _site(L, nid), expected='3*w + L + 1  (3w + #w)')


def _check_output_bit(rep: Report, L: Any, nid: int, nm: str) -> None:
    """the emitted bit is 1 exactly when f == 2w+1."""
    node = L.g.nodes[nid]
    var = L.roles['f']
    ok = False
    found = '?'
    if isinstance(L, CLoop):
        for c in [x for x in walk(node.ast) if x.get('kind') == 'CallExpr' and callee(x) == 'PyObject_CallFunctionObjArgs']:
            arg = call_args(c)[1]
            ir = c_ir(arg, L.cu.src_of)
            found = lx.show(ir)
            co = strip(arg)
            branches = [L.cu.src_of(x) for x in co.get('inner', [])[1:]] if co.get('kind') == 'ConditionalOperator' else []
            if co.get('kind') == 'DeclRefExpr':
                # an if-converted local: `if (C) v = Py_True; else v = Py_False;` right before the call reads as `C ? Py_True : Py_False`
                vname = co['referencedDecl']['name']
                for ifs in [x for x in walk(L.cu.body(L.fname)) if x.get('kind') == 'IfStmt' and len(x.get('inner', [])) == 3]:
                    arms = []
                    for arm in ifs['inner'][1:]:
                        asg = [y for y in walk(arm) if is_assign(y) and L.cu.src_of(y['inner'][0]) == vname]
                        others = [y for y in walk(arm) if y.get('kind') in ('CallExpr', 'GotoStmt', 'ReturnStmt')]
                        arms.append(L.cu.src_of(asg[0]['inner'][1]) if len(asg) == 1 and not others else None)
                    all_defs = [y for y in walk(L.cu.body(L.fname)) if is_assign(y) and L.cu.src_of(y['inner'][0]) == vname]
                    if None not in arms and len(all_defs) == 2:
                        branches = arms
                        ir = ('cond', c_ir(ifs['inner'][0], L.cu.src_of), ('sym', arms[0]), ('sym', arms[1]))
                        found = f'{L.cu.src_of(ifs["inner"][0])} ? {arms[0]} : {arms[1]} (via {vname})'
                # a defaulted local: `v = Py_False; if (C) v = Py_True;` (the default in the declaration or a plain assignment) reads the same
                if not branches:
                    body = L.cu.body(L.fname)
                    all_defs = [y for y in walk(body) if is_assign(y) and L.cu.src_of(y['inner'][0]) == vname]
                    decl = [y for y in walk(body) if y.get('kind') == 'VarDecl' and y.get('name') == vname and y.get('inner')]
                    default = None
                    if decl and len(all_defs) == 1:
                        default = L.cu.src_of(decl[-1]['inner'][-1])
                    for ifs in [x for x in walk(body) if x.get('kind') == 'IfStmt' and len(x.get('inner', [])) == 2]:
                        arm = ifs['inner'][1]
                        asg = [y for y in walk(arm) if is_assign(y) and L.cu.src_of(y['inner'][0]) == vname]
                        others = [y for y in walk(arm) if y.get('kind') in ('CallExpr', 'GotoStmt', 'ReturnStmt')]
                        if len(asg) != 1 or others:
                            continue
                        dflt = default
                        if dflt is None and len(all_defs) == 2 and not decl:
                            first = [y for y in all_defs if y is not asg[0]]
                            dflt = L.cu.src_of(first[0]['inner'][1]) if first else None
                        if dflt is None:
                            continue
                        arms = [L.cu.src_of(asg[0]['inner'][1]), dflt]
                        branches = arms
                        ir = ('cond', c_ir(ifs['inner'][0], L.cu.src_of), ('sym', arms[0]), ('sym', arms[1]))
                        found = f'{L.cu.src_of(ifs["inner"][0])} ? {arms[0]} : {arms[1]} (via {vname}, defaulted)'
            if ir[0] == 'cond' and branches == ['Py_False', 'Py_True']:
                ir = ('cond', ('un', '!', ir[1]), ir[3], ir[2])
                branches = ['Py_True', 'Py_False']
            if ir[0] == 'cond' and branches == ['Py_True', 'Py_False']:
                try:
                    iv = lx.solve(ir[1], var, L.env, unsigned=True)
                except lx.Unrecognised:
                    iv = None
                ok = _iv_eq(iv, M.OUTPUT_BIT_ONE, M.OUTPUT_BIT_ONE)
    else:
        for c in [x for x in ast.walk(node.ast) if isinstance(x, ast.Call)]:
            if L._call_name(c) == 'io_device.write_bit' and c.args:
                ir = py_ir(c.args[0])
                found = lx.show(ir)
                try:
                    iv = lx.solve(ir, var, L.env)
                except lx.Unrecognised:
                    iv = None
                ok = _iv_eq(iv, M.OUTPUT_BIT_ONE, M.OUTPUT_BIT_ONE)
                if not ok:
                    # not an `f == 2w+1` comparison (e.g. a parity test): inside the output range {2w, 2w+1} - the OUTPUT guard is
                    # judged separately - the expression is folded for both addresses at every width
                    binding = {k: v for k, v in L.env.table.items() if isinstance(v, tuple)}
                    ir2 = lx.ir_subst(ir, binding)
                    try:
                        ok = all(bool(lx.eval_ir(ir2, {var: 2 * wv + b_, 'w': wv})) == bool(b_) for wv in M.WIDTHS for b_ in (0, 1))
                        found += ' (folded at f = 2w, 2w+1 for every width)'
                    except lx.Unrecognised:
                        ok = False
    rep.check(ok, 'C01.GUARDS', f'{nm}:OUTPUT_BIT', f'emitted bit = {found}', _site(L, nid),
              expected='bit is 1 iff f == 2w+1')


# ---------------------------------------------------------------- C01.FLIP-EXPR

def rule_flip_expr(rep: Report, all_loops: List[Any], repo: Repo, cu: CUnit) -> None:
    rep.rule('C01.FLIP-EXPR', 'every FLIP site toggles exactly bit (f & (w-1)) of word (f >> L): an XOR of the word '
             'just read at the same address with 1 << (f & (w-1)), or write_bit(f, not read_bit(f))', 8)
    for loop in all_loops:
        nm = _name(loop)
        for nid in event_nodes(loop, 'FLIP'):
            node = loop.g.nodes[nid]
            ok, found = (_c_flip_ok(loop, node.ast) if isinstance(loop, CLoop) else _py_flip_ok(loop, node.ast))
            rep.check(ok, 'C01.FLIP-EXPR', f'{nm}:FLIP', found, _site(loop, nid),
                      expected='word ^ (1 << (f & (w-1))) stored back to word f >> L')
    # the helpers used by the C loops and the measured loop
    for helper in ('mem_flip_bit',):
        roles = dict(ip='__none__', f='bit_address', j='__none__', ops='__none__')
        hl = CLoop(cu, helper, roles)
        n_sites = 0
        for n in walk(cu.body(helper)):
            if is_assign(n) or n.get('kind') == 'CompoundAssignOperator':
                lin = hl.mem_address(n['inner'][0])
                if lin is None:
                    continue
                n_sites += 1
                ok, found = _c_flip_ok(hl, n)
                rep.check(ok, 'C01.FLIP-EXPR', f'{helper}:store', found, cu.site(n, helper),
                          expected='word ^ (1 << (bit_address & (w-1)))')
        if n_sites < 2:
            raise AnalysisError(f'{helper}: expected a flat and a paged store, found {n_sites}')


def _bit_of_f(ir: lx.IR, L: Any) -> bool:
    """ir == 1 << (f & (w-1)), directly or through a single-definition local (a hoisted `flip_mask`)"""
    for _ in range(3):
        if ir[0] == 'sym':
            d = L.env.table.get(ir[1])
            if d is not None and not isinstance(d, (int, dict)):
                ir = d
                continue
        if ir[0] == 'cast' and len(ir) > 2:
            ir = ir[2]
            continue
        break
    if ir[0] == 'bin' and ir[1] == '<<' and lx.to_lin(ir[2], L.env) == {'': 1}:
        sh = ir[3]
        if sh[0] == 'bin' and sh[1] == '&':
            a, b = lx.to_lin(sh[2], L.env), lx.to_lin(sh[3], L.env)
            f = {L.roles['f']: 1, '': 0}
            m = {'w': 1, '': -1}
            return (lx.lin_eq(a, f) and lx.lin_eq(b, m)) or (lx.lin_eq(b, f) and lx.lin_eq(a, m))
    return False


def _c_flip_ok(L: CLoop, n: Dict[str, Any]) -> Tuple[bool, str]:
    for x in walk(n):
        if x.get('kind') == 'CompoundAssignOperator' and x.get('opcode') == '^=' and L.mem_address(x['inner'][0]):
            ir = c_ir(x['inner'][1], L.cu.src_of)
            return _bit_of_f(ir, L), f'{L.cu.src_of(x)[:100]}'
        if is_assign(x) and L.mem_address(x['inner'][0]):
            rhs = c_ir(x['inner'][1], L.cu.src_of)
            if rhs[0] == 'bin' and rhs[1] == '^':
                for val, bit in ((rhs[2], rhs[3]), (rhs[3], rhs[2])):
                    if _bit_of_f(bit, L) and _is_word_just_read(L, val, x['inner'][0]):
                        return True, L.cu.src_of(x)[:100]
            return False, L.cu.src_of(x)[:100]
        if x.get('kind') == 'CallExpr' and callee(x) == 'mem_flip_bit':
            return True, 'mem_flip_bit(self, f) (helper checked separately)'
    return False, 'no flip store found'


def _is_word_just_read(L: CLoop, val: lx.IR, lhs: Dict[str, Any]) -> bool:
    """val is the value read from the same address as the store target (directly or via a local)."""
    target = lx.lin_show(L.mem_address(lhs) or {})
    if val[0] == 'sym':
        d = L.env.table.get(val[1])
        if d is not None and not isinstance(d, (int, dict)):
            val = d
        else:
            # 'value' locals with two defs (garbage check may zero them) - accept a local named in a read of target
            return _local_read_of(L, val[1], target)
    if val[0] == 'idx':
        lin = lx.lin_add(lx.to_lin(val[1], L.env), lx.to_lin(val[2], L.env))
        return lx.lin_show(lin) == target
    return False


def _local_read_of(L: CLoop, name: str, target: str) -> bool:
    for n in walk(L.cu.body(L.fname)):
        if n.get('kind') == 'VarDecl' and n.get('name') == name and n.get('inner'):
            init = [c for c in n['inner'] if isinstance(c, dict) and c.get('kind')][-1]
            lin = L.mem_address(init)
            if lin is not None and lx.lin_show(lin) == target:
                return True
        if is_assign(n):
            l0 = strip(n['inner'][0])
            if l0.get('kind') == 'DeclRefExpr' and l0['referencedDecl']['name'] == name:
                lin = L.mem_address(n['inner'][1])
                if lin is not None and lx.lin_show(lin) == target:
                    return True
    return False


def _py_flip_ok(L: PyLoop, st: ast.AST) -> Tuple[bool, str]:
    txt = ast.unparse(st)[:100]
    if isinstance(st, ast.AugAssign) and isinstance(st.target, ast.Subscript):
        # memory[f >> L] ^= 1 << (f & (w-1)): read and store of the same word by construction
        return isinstance(st.op, ast.BitXor) and _bit_of_f(py_ir(st.value), L), txt
    if isinstance(st, ast.Assign) and isinstance(st.targets[0], ast.Subscript):
        tgt = st.targets[0]
        taddr = lx.lin_show(to_lin(py_ir(tgt.slice), L.env))
        if isinstance(st.value, ast.BinOp) and isinstance(st.value.op, ast.BitXor):
            for val, bit in ((st.value.left, st.value.right), (st.value.right, st.value.left)):
                if not _bit_of_f(py_ir(bit), L):
                    continue
                if isinstance(val, ast.Name):
                    # val must be the word read from the same address (try / except KeyError pair)
                    reads = [n for n in walk_no_nested(L.fn) if isinstance(n, ast.Assign)
                             and isinstance(n.targets[0], ast.Name) and n.targets[0].id == val.id]
                    same = all(_py_read_addr(L, r.value) == taddr for r in reads)
                    return bool(reads) and same, txt
                if isinstance(val, ast.Subscript) and L._is_memory(val.value) or \
                        isinstance(val, ast.Call) and L._call_name(val) in ('mem._get_memory_word',):
                    return _py_read_addr(L, val) == taddr, txt        # the word read in place:  memory[k] = reader(k) ^ bit
        return False, txt
    for c in [x for x in ast.walk(st) if isinstance(x, ast.Call)]:
        if L._call_name(c) == 'mem.write_bit' and len(c.args) == 2:
            v = c.args[1]
            if isinstance(v, ast.Name):
                # `flipped = not mem.read_bit(f)` ... `mem.write_bit(f, flipped)`: a local bound once is read through
                defs = [n for n in walk_no_nested(L.fn) if isinstance(n, ast.Assign) and len(n.targets) == 1
                        and isinstance(n.targets[0], ast.Name) and n.targets[0].id == v.id]
                if len(defs) == 1:
                    v = defs[0].value
            if isinstance(v, ast.UnaryOp) and isinstance(v.op, ast.Not) and isinstance(v.operand, ast.Call) \
                    and L._call_name(v.operand) == 'mem.read_bit' and norm(v.operand.args[0]) == norm(c.args[0]):
                return True, txt
            return False, txt
    return False, txt


def _py_read_addr(L: PyLoop, value: ast.AST) -> str:
    if isinstance(value, ast.Subscript):
        return lx.lin_show(to_lin(py_ir(value.slice), L.env))
    if isinstance(value, ast.Call) and value.args:
        return lx.lin_show(to_lin(py_ir(value.args[0]), L.env))
    return '?'


# ---------------------------------------------------------------- C01.FASTMEM

def rule_fastmem(rep: Report, repo: Repo) -> None:
    rep.rule('C01.FASTMEM', 'every inlined memory[k] load in _run_fast sits in a try whose `except KeyError` assigns '
             'the same target from the out-of-segment-aware reader for the same k (else a touch outside every '
             'segment becomes a generic runtime error instead of a memory-error termination)', 3)
    L = PyLoop(repo, '_run_fast', M.ROLES_PY['_run_fast'])
    for n in walk_no_nested(L.fn):
        aug = isinstance(n, ast.Subscript) and isinstance(getattr(n, '_parent', None), ast.AugAssign) and n._parent.target is n        # type: ignore[attr-defined]
        if isinstance(n, ast.Subscript) and (isinstance(n.ctx, ast.Load) or aug) and L._is_memory(n.value):
            st = n
            while not isinstance(st, ast.stmt):
                st = st._parent          # type: ignore[attr-defined]
            key = norm(n.slice)
            site = f'{RUN_REL}:{n.lineno} _run_fast'
            ok = False
            why = 'not inside try/except KeyError'
            if isinstance(st, ast.Assign) and isinstance(st.targets[0], ast.Name):
                tgt = st.targets[0].id
                for t, h in enclosing_handlers(st):
                    if 'KeyError' in handler_types(h):
                        for hs in h.body:
                            if isinstance(hs, ast.Assign) and isinstance(hs.targets[0], ast.Name) \
                                    and hs.targets[0].id == tgt and isinstance(hs.value, ast.Call) \
                                    and L._call_name(hs.value) == 'mem._get_memory_word' \
                                    and norm(hs.value.args[0]) == key:
                                ok = True
                        if not ok:
                            why = 'KeyError handler does not re-read the same word into the same target'
            if isinstance(st, ast.AugAssign) and aug:
                # `memory[k] OP= X` reads the word too: its KeyError handler stores  reader(k) OP X  into the same word
                for t, h in enclosing_handlers(st):
                    if 'KeyError' in handler_types(h):
                        for hs in h.body:
                            if isinstance(hs, ast.Assign) and isinstance(hs.targets[0], ast.Subscript) and L._is_memory(hs.targets[0].value) \
                                    and norm(hs.targets[0].slice) == key and isinstance(hs.value, ast.BinOp) and type(hs.value.op) is type(st.op):
                                for rd, other in ((hs.value.left, hs.value.right), (hs.value.right, hs.value.left)):
                                    if isinstance(rd, ast.Call) and L._call_name(rd) == 'mem._get_memory_word' and norm(rd.args[0]) == key \
                                            and norm(other) == norm(st.value) and (rd is hs.value.left or isinstance(st.op, (ast.BitXor, ast.BitOr, ast.BitAnd, ast.Add, ast.Mult))):
                                        ok = True
                        if not ok:
                            why = 'KeyError handler does not store the re-read word combined the same way'
            rep.check(ok, 'C01.FASTMEM', f'_run_fast:memory[{key}]',
                      'fallback to _get_memory_word present' if ok else why, site)


# ---------------------------------------------------------------- C01.UNALIGNED

def rule_unaligned(rep: Report, repo: Repo, cu: CUnit) -> None:
    rep.rule('C01.UNALIGNED', 'Reader.get_word and mem_get_word_unaligned agree: same word/offset decomposition, '
             'aligned fast path first, last-word fault reports the BIT address, same combine expression; ordinary '
             'out-of-segment faults report word << L in both', 7)
    MASK = ('bin', '-', ('bin', '<<', ('num', 1), ('sym', 'w')), ('num', 1))
    penv = Env({'self.memory_width': {'w': 1}})
    cenv = Env({'m.w': {'w': 1}, 'm.ww': {'L': 1}, 'm.word_mask': MASK})
    # --- python side
    dec = repo.func(READER_REL, 'Reader._bit_address_decompose')
    pdefs = temp_values(dec)                 # named sub-expressions (a mask, a shift amount) are read through
    # the decomposition is what the function RETURNS: (word address, bit offset), whatever its locals are called
    rets_ = [r for r in walk_no_nested(dec) if isinstance(r, ast.Return)]
    if len(rets_) == 1 and isinstance(rets_[0].value, ast.Tuple) and len(rets_[0].value.elts) == 2:
        class _Sub(ast.NodeTransformer):
            def visit_Name(self, node: ast.Name) -> ast.AST:
                return clone(pdefs[node.id]) if isinstance(node.ctx, ast.Load) and node.id in pdefs else node
        from ..pyfacts import clone
        for var_, e_ in zip(('word_address', 'bit_offset'), rets_[0].value.elts):
            pdefs = {**pdefs, var_: _Sub().visit(clone(e_))}
    gw = inline_pure_temps(repo.func(READER_REL, 'Reader.get_word'))
    # --- C side
    cu.inline_void_helpers("mem_get_word_unaligned", keep=[])          # a recording helper reads as the stores it makes
    cbody = cu.body("mem_get_word_unaligned")
    cdefs: Dict[str, Any] = {}
    for n in walk(cbody):
        if n.get('kind') == 'VarDecl' and n.get('inner'):
            init = [c for c in n['inner'] if isinstance(c, dict) and c.get('kind')]
            if init:
                cdefs[n['name']] = init[-1]
    site_c = cu.site(cu.func('mem_get_word_unaligned'), 'mem_get_word_unaligned')
    site_p = f'{READER_REL}:{gw.lineno} Reader.get_word'
    from ..cfacts import alias_binding
    c_alias = alias_binding(cu, 'mem_get_word_unaligned')           # `width = (uint64_t)m->w` reads as m->w
    for var, ref in (('word_address', None), ('bit_offset', None)):
        if var not in pdefs or var not in cdefs:
            raise AnalysisError(f'C01.UNALIGNED: decomposition variable {var} missing')
        # both decompositions folded on a grid of widths and bit addresses (the python side additionally wraps the word address
        # to w bits; the C side holds 64-bit addresses, for which the grid stays below 2^w words)
        p_ir = py_ir(pdefs[var])
        c_ir_ = lx.ir_subst(c_ir(cdefs[var], cu.src_of), c_alias)
        bad_ = []
        for wv, lg in M.WIDTHS.items():
            for addr in (0, 1, wv - 1, wv, 5 * wv + 3, ((1 << min(wv, 20)) - 1) * wv + wv - 1):
                try:
                    pv = lx.eval_ir(p_ir, {'bit_address': addr, 'self.memory_width': wv})
                    cv = lx.eval_ir(c_ir_, {'bit_address': addr, 'm.w': wv, 'm.ww': lg})
                except lx.Unrecognised as ex:
                    bad_.append(str(ex))
                    break
                want_v = (addr >> lg) if var == 'word_address' else (addr & (wv - 1))
                if not (pv == cv == want_v):
                    bad_.append(f'w={wv} address={addr}: python {pv}, C {cv}, reference {want_v}')
        rep.check(not bad_, 'C01.UNALIGNED', f'decompose:{var}', bad_[0] if bad_ else
                  f'python `{norm(pdefs[var])}` and C `{cu.src_of(cdefs[var])}` agree with the reference on {6 * len(M.WIDTHS)} grid cases',
                  site_c, expected='equal')
    # the python side by forward substitution over every path of get_word (guard clauses / nesting / operand order do not matter):
    #   bit_offset == 0                          -> the one aligned read
    #   bit_offset != 0, word == last word       -> the memory exception carrying the bit address
    #   bit_offset != 0, word != last word       -> two reads (word, word + 1) combined
    from ..pysubst import method_outcomes
    from ..pyfacts import cc
    outs = method_outcomes(repo, READER_REL, 'Reader', 'get_word')
    def reads(o: Any) -> List[str]:
        return [e.split(' := ', 1)[1] for e in o.effects if ' := self._get_memory_word(' in e]
    LAST_EQ = cc('word_address == (1 << self.memory_width) - 1')
    LAST_NE = cc('word_address != (1 << self.memory_width) - 1')
    aligned = [o for o in outs if o.conds == [cc('bit_offset == 0')]]
    ok_fast = len(aligned) == 1 and aligned[0].result == ('return', 'self._get_memory_word(word_address)') and not reads(aligned[0])
    rep.check(ok_fast, 'C01.UNALIGNED', 'python:aligned-first', 'aligned words return before the two-word path' if ok_fast else
              f'paths: {[(o.conds, o.result) for o in outs]}', site_p)
    faults = [o for o in outs if o.result[0] == 'raise']
    raise_args = [[norm(a) for a in r.exc.args] for r in ast.walk(gw) if isinstance(r, ast.Raise) and isinstance(r.exc, ast.Call)
                  and dotted(r.exc.func) == 'FlipJumpRuntimeMemoryException']
    ok_last = len(faults) == 1 and faults[0].result == ('raise', 'FlipJumpRuntimeMemoryException') and sorted(faults[0].conds) == sorted([cc('bit_offset != 0'), LAST_EQ]) \
        and not reads(faults[0]) and len(raise_args) == 1 and len(raise_args[0]) == 2 and raise_args[0][1] == 'bit_address'
    rep.check(ok_last, 'C01.UNALIGNED', 'python:last-word-fault',
              'an unaligned read at the last word raises the memory exception with the bit address' if ok_last else
              f'raising paths {[(o.conds, o.result) for o in faults]}; raise arguments {raise_args}', site_p)
    two = [o for o in outs if o.result[0] == 'return' and sorted(o.conds) == sorted([cc('bit_offset != 0'), LAST_NE])]
    c_if = [n for n in cbody.get('inner', []) if n.get('kind') == 'IfStmt']
    def bform(n: Dict[str, Any]) -> Any:
        return lx.bool_form(lx.ir_subst(c_ir(n, cu.src_of), c_alias))
    ok_cfast = bool(c_if) and lx.bf_equiv(bform(c_if[0]['inner'][0]), ('not', ('atom', 'bit_offset'))) \
        and any(callee(c) == 'mem_read_word' for c in walk(c_if[0]['inner'][1]) if c.get('kind') == 'CallExpr')
    rep.check(ok_cfast, 'C01.UNALIGNED', 'C:aligned-first', 'aligned words go to mem_read_word first', site_c)
    ok_clast = False
    if len(c_if) >= 2:
        cond = bform(c_if[1]['inner'][0])
        assigns = {cu.src_of(n['inner'][0]): cu.src_of(n['inner'][1]) for n in walk(c_if[1]['inner'][1]) if is_assign(n)}
        ok_clast = cond in (('atom', 'm.word_mask == word_address'),) and assigns.get('m->error_bit_address') == 'bit_address' \
            and assigns.get('m->mem_error') == '1'
    rep.check(ok_clast, 'C01.UNALIGNED', 'C:last-word-fault',
              'the last-word case sets mem_error with the bit address', site_c)
    # combine expression: both sides folded on a grid of (w, bit offset, low word, high word)
    c_comb_ir = None
    for n in walk(cbody):
        if is_assign(n) and cu.src_of(n['inner'][0]) == '*out':
            c_comb_ir = c_ir(n['inner'][1], cu.src_of)
    comb_bad: List[str] = []
    p_txt = None
    # the C locals that receive the low / high word: the out-arguments of the reads at word_address and word_address + 1
    c_lo = c_hi = '?'
    for c in [x for x in walk(cbody) if x.get('kind') == 'CallExpr' and callee(x) == 'mem_read_word']:
        a = call_args(c)
        if len(a) == 3 and strip(a[2]).get('kind') == 'UnaryOperator' and strip(a[2]).get('opcode') == '&':
            tgt = cu.src_of(strip(a[2])['inner'][0])
            addr = lx.show(c_ir(a[1], cu.src_of))
            if addr == 'word_address':
                c_lo = tgt
            elif addr in ('(word_address+1)', '(1+word_address)'):
                c_hi = tgt
    if len(two) == 1 and c_comb_ir is not None:
        bound = dict(e.split(' := ', 1) for e in two[0].effects if ' := ' in e)
        lo_sym = [k for k, v in bound.items() if v == 'self._get_memory_word(word_address)']
        hi_sym = [k for k, v in bound.items() if v in ('self._get_memory_word(1 + word_address)', 'self._get_memory_word(word_address + 1)')]
        p_txt = two[0].result[1]
        if len(lo_sym) == 1 and len(hi_sym) == 1 and p_txt:
            p_ir = py_ir(ast.parse(p_txt, mode='eval').body)
            for wv in (8, 16, 64):
                for bo in (1, 3, wv - 1):
                    for lo, hi in ((0, 0), ((1 << wv) - 1, 0), (0, (1 << wv) - 1), (0xA5A5A5A5A5A5A5A5 & ((1 << wv) - 1), 0x3C3C3C3C3C3C3C3C & ((1 << wv) - 1))):
                        try:
                            pv = lx.eval_ir(p_ir, {lo_sym[0]: lo, hi_sym[0]: hi, 'bit_offset': bo, 'self.memory_width': wv})
                            cv = lx.eval_ir(lx.ir_subst(c_comb_ir, c_alias), {c_lo: lo, c_hi: hi, 'bit_offset': bo, 'm.w': wv, 'm.word_mask': (1 << wv) - 1})
                        except lx.Unrecognised as ex:
                            comb_bad.append(str(ex))
                            break
                        if pv != cv or pv != (((lo >> bo) | (hi << (wv - bo))) & ((1 << wv) - 1)):
                            comb_bad.append(f'w={wv} offset={bo} low={lo:#x} high={hi:#x}: python {pv:#x}, C {cv:#x}')
        else:
            comb_bad.append(f'the two reads (word, word + 1) were not found: {bound}')
    else:
        comb_bad.append(f'two-word path found {len(two)} time(s); C combine {"found" if c_comb_ir is not None else "missing"}')
    rep.check(not comb_bad, 'C01.UNALIGNED', 'combine', comb_bad[0] if comb_bad else f'python `{p_txt}` and the C expression agree on 36 grid cases',
              site_c, expected='((low >> offset) | (high << (w - offset))) & mask on both sides')
    # ordinary garbage fault address: word << L
    gm = repo.func(READER_REL, 'Reader._get_memory_word')
    p_fault = None
    for n in ast.walk(gm):
        if isinstance(n, ast.Assign) and isinstance(n.targets[0], ast.Name) and n.targets[0].id == 'memory_address':
            p_fault = lx.canon(py_ir(n.value), penv)
    rep.check(p_fault == '(word_address)<<(L)', 'C01.UNALIGNED', 'python:garbage-fault-address',
              f'fault address {p_fault}', f'{READER_REL}:{gm.lineno} Reader._get_memory_word',
              expected='word_address << L')
    # every place of the unit that records a fault address from a WORD address (found by the store, not by the function name)
    n_fault = 0
    # (helper, store node, stored value, the function whose parameters the value is phrased over): a store of a bare parameter
    # in a recording helper (`mem_record_error(m, A)`) reads as a store of the argument A at each of its call sites
    stores: List[Tuple[str, Dict[str, Any], Any]] = []
    for helper in cu.funcs:
        for n in walk(cu.body(helper)):
            if not (is_assign(n) and strip(n['inner'][0]).get('kind') == 'MemberExpr' and strip(n['inner'][0]).get('name') == 'error_bit_address'):
                continue
            ir = c_ir(n['inner'][1], cu.src_of)
            hp = cu.params(helper)
            if ir[0] == 'sym' and ir[1] in hp:
                sites = [(f2, c) for f2 in cu.funcs if f2 != helper for c in walk(cu.body(f2)) if c.get('kind') == 'CallExpr' and callee(c) == helper]
                if sites:
                    for f2, c in sites:
                        stores.append((f2, c, c_ir(call_args(c)[hp.index(ir[1])], cu.src_of)))
                    continue
            stores.append((helper, n, ir))
    for helper, n, ir in stores:
        params = set(cu.params(helper))
        if True:
            if not (ir[0] == 'bin' and ir[1] in ('<<', '*')):
                continue                      # a reset to 0 / a bit address passed through (judged by the last-word case above)
            n_fault += 1
            found = lx.canon(ir, cenv)
            base = ir[2]
            okf = base[0] == 'sym' and base[1] in params and found == f'({base[1]})<<(L)'
            rep.check(okf, 'C01.UNALIGNED', f'C:{helper}:fault-address', f'fault address {found}', cu.site(n, helper),
                      expected='<word address parameter> << L')
    if n_fault < 2:
        raise AnalysisError(f'C01.UNALIGNED: only {n_fault} word-address fault stores found in the C unit')


def _strip_mask(ir: lx.IR, env: Env, MASK: lx.IR) -> lx.IR:
    """(x >> L) & (2^w - 1) == x >> L for the 64-bit addresses the C side holds; drop the mask for comparison."""
    if ir[0] == 'bin' and ir[1] == '&':
        for a, b in ((ir[2], ir[3]), (ir[3], ir[2])):
            if lx.canon(b, env) == lx.canon(MASK, env) and a[0] == 'bin' and a[1] == '>>':
                return a
    return ir


# ---------------------------------------------------------------- C01.WIDTHS

def rule_widths(rep: Report, repo: Repo, cu: CUnit) -> None:
    rep.rule('C01.WIDTHS', 'every place that enumerates the memory widths agrees with {8:3,16:4,32:5,64:6}: the '
             'clone dispatch switches (case label = width literal, 1<<ww = width), Memory_init (accepted set, ww '
             'and word_mask tables), SUPPORTED_MEMORY_WIDTHS, reader/writer word codes, argparse choices', 14)
    ref = M.WIDTHS
    for fn, impl in ((dispatcher_of(cu, 'run_flat_loop_impl'), 'run_flat_loop_impl'), (dispatcher_of(cu, 'run_paged_loop_impl'), 'run_paged_loop_impl')):
        params = cu.params(impl)
        wi, li = params.index('width'), params.index('ww')
        seen = set()
        # every call of the loop body with a literal width: the governing selector value is the case label of the enclosing
        # switch arm, or the constant K of the enclosing `if (<selector> == K)` arm of an if-chain
        def governed(root: Dict[str, Any], label: Optional[int], out: List[Tuple[Optional[int], Dict[str, Any], Dict[str, Any]]]) -> None:
            k = root.get('kind')
            if k == 'CaseStmt':
                label = int_value(root['inner'][0])
                if label is None:
                    raise AnalysisError(f'{fn}: unrecognised case shape')
            if k == 'DefaultStmt':
                label = None
            if k == 'IfStmt':
                inner = root['inner']
                ir = c_ir(inner[0], cu.src_of)
                kk = None
                if ir[0] == 'cmp' and ir[1] == ['=='] and len(ir[2]) == 2:
                    nums = [x for x in ir[2] if x[0] == 'num']
                    if len(nums) == 1:
                        kk = nums[0][1]
                governed(inner[0], label, out)
                governed(inner[1], kk if kk is not None else label, out)
                for rest in inner[2:]:
                    governed(rest, label, out)
                return
            if k == 'CallExpr' and callee(root) == impl:
                out.append((label, root, root))
            for ch in root.get('inner', []) or []:
                if isinstance(ch, dict):
                    governed(ch, label, out)
        found_calls: List[Tuple[Optional[int], Dict[str, Any], Dict[str, Any]]] = []
        governed(cu.body(fn), None, found_calls)
        for label, call, site in found_calls:
            args = call_args(call)
            wv, lv = int_value(args[wi]), int_value(args[li])
            if label is None:
                if wv is not None:
                    rep.check(False, 'C01.WIDTHS', f'{fn}:ungoverned literal {wv}', f'a literal width {wv} is passed outside any `== {wv}` arm',
                              cu.site(site, fn))
                continue
            seen.add(label)
            rep.check(wv == label and lv == ref.get(label), 'C01.WIDTHS', f'{fn}:case {label}',
                      f'passes width={wv}, ww={lv}', cu.site(site, fn), expected=f'width={label}, ww={ref.get(label)}')
        rep.check(seen == set(ref), 'C01.WIDTHS', f'{fn}:case-set', f'cases {sorted(seen)}', cu.site(cu.func(fn), fn),
                  expected=str(sorted(ref)))
    # Memory_init
    accepted = set()
    ww_map: Dict[int, int] = {}
    mask_vals: Dict[int, Optional[int]] = {}
    for n in walk(cu.body('Memory_init')):
        if n.get('kind') == 'IfStmt':
            ir = c_ir(n['inner'][0], cu.src_of)
            cj = lx.conjuncts(ir)
            if all(c[0] == 'cmp' and c[1] == ['!='] and c[2][0] == ('sym', 'w') for c in cj) and len(cj) > 1:
                accepted = {c[2][1][1] for c in cj}
        # ww and word_mask: the assigned expression (a conditional chain, or a call of a pure unit-local helper that computes
        # one) folded for every supported width
        if is_assign(n) and cu.src_of(n['inner'][0]) in ('self->ww', 'self->word_mask'):
            def value_of(fname_: str) -> Optional[Tuple[List[str], Any]]:
                if fname_ not in cu.funcs:
                    return None
                v_ = lx.c_fn_value_ir(cu.body(fname_), cu.src_of)
                return (cu.params(fname_), v_) if v_ is not None else None
            ir = lx.expand_pure_calls(c_ir(n['inner'][1], cu.src_of), value_of)
            for wv in ref:
                try:
                    val = lx.eval_ir(ir, {'w': wv})
                except lx.Unrecognised:
                    val = None
                if cu.src_of(n['inner'][0]) == 'self->ww':
                    if val is not None:
                        ww_map[wv] = val
                else:
                    mask_vals[wv] = None if val is None else val & ((1 << 64) - 1)
    site = cu.site(cu.func('Memory_init'), 'Memory_init')
    rep.check(accepted == set(ref), 'C01.WIDTHS', 'Memory_init:accepted', f'accepts {sorted(accepted)}', site,
              expected=str(sorted(ref)))
    rep.check(ww_map == ref, 'C01.WIDTHS', 'Memory_init:ww', f'ww table {ww_map}', site, expected=str(ref))
    mask_ok = bool(mask_vals) and all(mask_vals.get(wv) == (1 << wv) - 1 for wv in ref)
    rep.check(mask_ok, 'C01.WIDTHS', 'Memory_init:word_mask', f'word_mask per width {mask_vals}', site, expected='2^w - 1 for every supported width')
    # python tables
    sup = repo.const('flipjump/fjm/fjm_consts.py', 'SUPPORTED_MEMORY_WIDTHS')
    rep.check(set(sup) == set(ref), 'C01.WIDTHS', 'SUPPORTED_MEMORY_WIDTHS', f'{sorted(sup)}',
              'flipjump/fjm/fjm_consts.py', expected=str(sorted(ref)))
    for rel, fn in (('flipjump/fjm/fjm_reader.py', 'Reader._read_decompressed_data'),
                    ('flipjump/fjm/fjm_writer.py', 'Writer.write_to_file')):
        f = repo.func(rel, fn)
        from ..wordcodec import word_codec, codec_ok
        f = expand_private_calls(repo, rel, f, fn.split('.')[0], depth=2)          # extracted pack / unpack helpers read in place
        wc = word_codec(f, ref)             # a struct code per width, or int.from_bytes / to_bytes with a width-derived byte count
        if wc is None:
            raise AnalysisError(f'{fn}: word codec not found')
        rep.check(codec_ok(wc[0], ref), 'C01.WIDTHS', f'{fn}:word-codes', wc[1], f'{rel}:{f.lineno}',
                  expected='one unsigned little-endian encoding of w/8 bytes per supported width')
    cli = repo.func('flipjump/flipjump_cli.py', 'add_assemble_only_arguments')
    choices = None
    for c in ast.walk(cli):
        if isinstance(c, ast.Call) and any(isinstance(a, ast.Constant) and a.value == '--width' for a in c.args):
            for kw in c.keywords:
                if kw.arg == 'choices':
                    choices = set(ast.literal_eval(kw.value))
    rep.check(choices == set(ref), 'C01.WIDTHS', 'argparse:--width choices', f'{choices}', 'flipjump/flipjump_cli.py',
              expected=str(sorted(ref)))


# ---------------------------------------------------------------- C01.TERM

def rule_term(rep: Report, repo: Repo, cu: CUnit) -> None:
    rep.rule('C01.TERM', 'termination codes agree: TERM_* macros are distinct (and differ from the python-error '
             'marker), each is exported under its own name, _run_native maps each to the TerminationCause of the '
             'reference table and the fall-through reports RuntimeMemoryError with the error address', 9)
    vals = {}
    for name in M.TERM_MAP:
        vals[name] = cu.macro_int(name)
    pyerr = cu.macro_int('CAUSE_PYTHON_ERROR')
    rep.check(len(set(vals.values())) == len(vals) and pyerr not in vals.values(), 'C01.TERM', 'macros:distinct',
              f'{vals}, CAUSE_PYTHON_ERROR={pyerr}', cu.rel)
    exported = {}
    for c in [x for x in walk(cu.body('PyInit__fjcore')) if x.get('kind') == 'CallExpr' and callee(x) == 'PyModule_AddIntConstant']:
        a = call_args(c)
        lit = [s for s in walk(a[1]) if s.get('kind') == 'StringLiteral']
        nm = lit[0]['value'].strip('"') if lit else '?'
        exported[nm] = (int_value(a[2]), cu.src_of(a[2]))
    for name in M.TERM_MAP:
        ok = name in exported and exported[name][1] == name
        rep.check(ok, 'C01.TERM', f'export:{name}', f'exported as {exported.get(name)}', cu.site(cu.func('PyInit__fjcore')),
                  expected=f'PyModule_AddIntConstant(module, "{name}", {name})')
    fn = repo.func(RUN_REL, '_run_native')
    mapped = {}
    # the statements after the engine call dispatch on `cause`; each TERM_* constant is followed through the dispatch (if chain,
    # membership in a local table, table lookup) to the TerminationCause it returns
    for name in M.TERM_MAP:
        ret = dispatch_return(fn.body, 'cause', f'_fjcore.{name}', repo, RUN_REL)
        tc = [dotted(x) for x in ast.walk(ret) if dotted(x).startswith('TerminationCause.')] if ret is not None else []
        mapped[name] = tc[0].split('.')[1] if tc else None
    other = dispatch_return(fn.body, 'cause', '<any other value>', repo, RUN_REL)
    fallthrough = None
    if other is not None:
        tc = [dotted(x) for x in ast.walk(other) if dotted(x).startswith('TerminationCause.')]
        kws = {k.arg: norm(k.value) for c in ast.walk(other) if isinstance(c, ast.Call) for k in c.keywords}
        fallthrough = (tc[0].split('.')[1] if tc else '?', kws.get('memory_error_address'))
    mapped_mem = mapped.pop('TERM_MEMORY_ERROR', None)
    rep.check(mapped_mem in (None, 'RuntimeMemoryError'), 'C01.TERM', '_run_native:TERM_MEMORY_ERROR', f'maps to {mapped_mem or "the fall-through"}',
              f'{RUN_REL}:{fn.lineno} _run_native', expected='RuntimeMemoryError (explicitly or by falling through)')
    for name, cause in M.TERM_MAP.items():
        if name == 'TERM_MEMORY_ERROR':
            continue
        rep.check(mapped.get(name) == cause, 'C01.TERM', f'_run_native:{name}', f'maps to {mapped.get(name)}',
                  f'{RUN_REL}:{fn.lineno} _run_native', expected=cause)
    rep.check(fallthrough == ('RuntimeMemoryError', 'error_bit_address'), 'C01.TERM', '_run_native:fallthrough',
              f'falls through to {fallthrough}', f'{RUN_REL}:{fn.lineno} _run_native',
              expected="RuntimeMemoryError with memory_error_address=error_bit_address")
    # members exist in the enum
    enum = repo.cls('flipjump/utils/classes.py', 'TerminationCause')
    members = {t.id for st in enum.body if isinstance(st, ast.Assign) for t in st.targets if isinstance(t, ast.Name)}
    rep.check(set(M.TERM_MAP.values()) <= members, 'C01.TERM', 'TerminationCause:members', f'{sorted(members)}',
              'flipjump/utils/classes.py')


# ---------------------------------------------------------------- C01.ADDR-WRAP

def rule_addr_wrap(rep: Report, cu: CUnit) -> None:
    rep.rule('C01.ADDR-WRAP', 'the reference computes addresses in unbounded integers, the C engines in uint64_t: an '
             'addition on a bit-address operand passed to a memory helper must be in word space (value produced by '
             '>> L) or dominated by an explicit wrap test', 3)
    for fname, roles in M.ROLES_C.items():
        L = CLoop(cu, fname, roles, {'with_ring': 1} if fname == 'run_paged_loop_impl' else {})
        IN = path_conditions(L.g, L.head(), c_assigned, c_mentions)
        for node in L.g.nodes:
            if not isinstance(node.ast, dict) or node.kind not in ('stmt', 'cond', 'return'):
                continue
            for c in [x for x in walk(node.ast) if x.get('kind') == 'CallExpr']:
                cn = callee(c)
                if cn not in ('mem_get_word_unaligned', 'mem_flip_bit', 'mem_write_bit', 'mem_read_word'):
                    continue
                arg = strip(call_args(c)[1])
                if arg.get('kind') != 'BinaryOperator' or arg.get('opcode') != '+':
                    continue
                lin = to_lin(c_ir(arg, cu.src_of), L.env)
                bit_space = lin.get(roles['ip'], 0) == 1 or lin.get(roles['f'], 0) == 1
                if not bit_space:
                    rep.ok('C01.ADDR-WRAP', f'{fname}:{cn}({cu.src_of(arg)})', 'word-space addition (cannot wrap)',
                           cu.site(c, fname))
                    continue
                guarded = False
                for nid, pol in (IN.get(node.id) or frozenset()):
                    t = cu.src_of(L.g.nodes[nid].ast)
                    ir = c_ir(L.g.nodes[nid].ast, cu.src_of)
                    if ir[0] == 'cmp' and lx.canon(ir[2][0], L.env) == lx.canon(c_ir(arg, cu.src_of), L.env) \
                            and ir[1] in (['<'], ['>=']) and lx.show(ir[2][1]) == roles['ip']:
                        guarded = True
                rep.check(guarded, 'C01.ADDR-WRAP', f'{fname}:{cn}({cu.src_of(arg)})',
                          'bit-space addition with a dominating wrap test' if guarded else
                          'bit-space addition ip + width can wrap at w=64 (op in the last word of the address space): '
                          'the reference faults at 2^64, this engine reads word 0', cu.site(c, fname),
                          expected='wrap test or word-space arithmetic')


# ---------------------------------------------------------------- C01.FFI

def _c_strings(n: Dict[str, Any]) -> List[str]:
    return [s['value'][1:-1] for s in walk(n) if s.get('kind') == 'StringLiteral']


def c_kwlist(cu: CUnit, fname: str) -> List[str]:
    for n in walk(cu.body(fname)):
        if n.get('kind') == 'VarDecl' and n.get('name') == 'kwlist':
            return _c_strings(n)
    return []


def c_parse_format(cu: CUnit, fname: str) -> str:
    for c in [x for x in walk(cu.body(fname)) if x.get('kind') == 'CallExpr']:
        if 'PyArg_ParseTuple' in callee(c):
            idx = 2 if 'AndKeywords' in callee(c) else 1
            s = _c_strings(call_args(c)[idx])
            return s[0] if s else ''
    return ''


def c_method_table(cu: CUnit) -> Dict[str, str]:
    out = {}
    v = cu.vars.get('Memory_methods')
    if not v:
        raise AnalysisError('Memory_methods table missing')
    for row in [n for n in walk(v) if n.get('kind') == 'InitListExpr']:
        strs = _c_strings(row['inner'][0]) if row.get('inner') else []
        fns = [x['referencedDecl']['name'] for x in walk(row) if x.get('kind') == 'DeclRefExpr'
               and x['referencedDecl'].get('kind') == 'FunctionDecl']
        if strs and fns and row is not v:
            out[strs[0]] = fns[0]
    return out


def c_getset_table(cu: CUnit) -> Dict[str, str]:
    out = {}
    v = cu.vars.get('Memory_getset')
    if not v:
        raise AnalysisError('Memory_getset table missing')
    for row in [n for n in walk(v) if n.get('kind') == 'InitListExpr']:
        strs = _c_strings(row['inner'][0]) if row.get('inner') else []
        fns = [x['referencedDecl']['name'] for x in walk(row) if x.get('kind') == 'DeclRefExpr'
               and x['referencedDecl'].get('kind') == 'FunctionDecl']
        if strs and fns:
            out[strs[0]] = fns[0]
    return out


def _fmt_counts(fmt: str) -> Tuple[int, int]:
    req, _, opt = fmt.partition('|')
    strip_ = lambda s: [ch for ch in s if ch.isalpha()]
    return len(strip_(req)), len(strip_(req)) + len(strip_(opt.split(':')[0]))


def rule_ffi(rep: Report, repo: Repo, cu: CUnit) -> None:
    rep.rule('C01.FFI', 'Python call sites of _fjcore.Memory agree with the C argument tables: positional counts within '
             'the PyArg format, keywords in kwlist, callback roles (read_bit, write_bit, EOF type) in order, the '
             '5-tuple result destructured in the Py_BuildValue order, attribute names defined as getset/methods', 9)
    from ..pyfacts import resolve_names as _rn_ffi
    methods = c_method_table(cu)
    getset = c_getset_table(cu)
    fn = repo.func(RUN_REL, '_run_native')
    site = f'{RUN_REL}:{fn.lineno} _run_native'
    used_attrs: Set[str] = set()
    for c in [x for x in ast.walk(fn) if isinstance(x, ast.Call)]:
        d = dotted(c.func)
        if d == '_fjcore.Memory':
            kw = c_kwlist(cu, 'Memory_init')
            lo, hi = _fmt_counts(c_parse_format(cu, 'Memory_init'))
            ok = lo <= len(c.args) + len(c.keywords) <= hi and all(k.arg in kw for k in c.keywords) \
                and len(c.args) >= 1 and norm(_rn_ffi(fn, c.args[0], keep=('mem',))) == 'mem.memory_width' and kw[:1] == ['memory_width']
            rep.check(ok, 'C01.FFI', 'Memory(...)', f'args={len(c.args)} kw={[k.arg for k in c.keywords]} vs kwlist {kw}', site)
        elif d.startswith('core.'):
            m = d.split('.')[1]
            used_attrs.add(m)
            if m not in methods:
                rep.fail('C01.FFI', f'core.{m}', 'method not in Memory_methods', site)
                continue
            cf = methods[m]
            lo, hi = _fmt_counts(c_parse_format(cu, cf))
            kw = c_kwlist(cu, cf)
            ok = lo <= len(c.args) + len(c.keywords) <= hi and all(k.arg in kw for k in c.keywords)
            if m == 'run':
                roles = [norm(a) for a in c.args]
                ok = ok and roles == ['io_device.read_bit', 'io_device.write_bit', 'IOReadOnEOF'] \
                    and kw[:3] == ['read_bit', 'write_bit', 'eof_exception_type']
            rep.check(ok, 'C01.FFI', f'core.{m}(...)', f'args={[norm(a)[:30] for a in c.args]} kw={[k.arg for k in c.keywords]} '
                      f'vs format {c_parse_format(cu, cf)!r} kwlist {kw}', site)
    for a in [x for x in ast.walk(fn) if isinstance(x, ast.Attribute) and isinstance(x.value, ast.Name) and x.value.id == 'core']:
        if a.attr not in methods:
            used_attrs.add(a.attr)
            rep.check(a.attr in getset, 'C01.FFI', f'core.{a.attr}', 'attribute defined in Memory_getset' if a.attr in getset
                      else 'attribute not defined by the C type', site)
    # result tuple order
    names = None
    from ..pyfacts import resolve_names as _rn
    for st in ast.walk(fn):
        if isinstance(st, ast.Assign) and isinstance(st.targets[0], ast.Tuple):
            v_ = _rn(fn, st.value, allow_calls=True, depth=1) if isinstance(st.value, ast.Name) else st.value      # `result = core.run(..)` first
            if isinstance(v_, ast.Call) and dotted(v_.func) == 'core.run':
                names = [norm(e) for e in st.targets[0].elts]
    bv = None
    for c in [x for x in walk(cu.body('build_run_result')) if x.get('kind') == 'CallExpr' and 'Py_BuildValue' in callee(x)]:
        a = call_args(c)
        from ..cfacts import alias_binding as _ab
        al_ = _ab(cu, 'build_run_result')           # `op_count = (unsigned long long)ops` reads as ops (casts are dropped by c_ir)
        bv = (_c_strings(a[0])[0], [lx.show(lx.ir_subst(c_ir(x, cu.src_of), al_)) for x in a[1:]])
        break
    ok = names is not None and bv is not None and len(names) == 5 and bv[0] == 'iKNNd' \
        and bv[1] == ['cause', 'ops', 'error_address', 'last_ops_list', 'paused_seconds'] \
        and names == ['cause', 'op_count', 'error_bit_address', 'native_last_ops', 'paused_seconds']
    rep.check(ok, 'C01.FFI', 'run-result-tuple', f'python {names} ; C {bv}', site,
              expected='(cause, op count, error address, last ops, paused seconds) in this order on both sides')
    # device adapter
    dm = 'flipjump/interpreter/io_devices/device_memory.py'
    for meth, cm, n in (('read_word', 'get_word', 1), ('write_word', 'set_word', 2)):
        from ..pyfacts import read_through_locals as _rtl
        f = _rtl(repo.func(dm, f'NativeDeviceMemory.{meth}'))           # a local naming the bound method reads as the method
        cs = [c for c in ast.walk(f) if isinstance(c, ast.Call) and dotted(c.func) == f'self._core_memory.{cm}']
        lo, hi = _fmt_counts(c_parse_format(cu, methods.get(cm, '')) if cm in methods else '')
        rep.check(bool(cs) and len(cs[0].args) == n == lo, 'C01.FFI', f'NativeDeviceMemory.{meth}',
                  f'calls {cm} with {len(cs[0].args) if cs else 0} args; C expects {lo}', f'{dm}:{f.lineno}')


# ---------------------------------------------------------------- entry

def rule_masks(rep: Report, repo: Repo) -> None:
    rep.rule('C01.MASKS', 'the reference memory model keeps words and word addresses inside w bits: every mask of the Reader\'s word accessors that '
             'is built from the memory width folds, for w = 8, 16, 32, 64, to what its place needs - 2^w - 1 where a word or a word address '
             'is masked, w - 1 where the bit offset is taken from the bit address, 2^w - 1 with the one bit cleared in write_bit', 6)
    n = 0
    for q in ('Reader._get_memory_word', 'Reader._set_memory_word', 'Reader._bit_address_decompose', 'Reader.write_bit', 'Reader.get_word'):
        if not repo.has_func(READER_REL, q):
            continue
        from ..pyfacts import expand_private_calls as _epc
        # a private `_wrap(x)` helper reads as the mask it applies (the accessors themselves stay calls: each is judged once)
        fn = inline_pure_temps(_epc(repo, READER_REL, repo.func(READER_REL, q), 'Reader', keep=('_get_memory_word', '_set_memory_word', '_bit_address_decompose')))   # `w = self.memory_width` reads as the width
        params = [a.arg for a in fn.args.args if a.arg != 'self']
        for x in walk_no_nested(fn):
            pair = None
            if isinstance(x, ast.BinOp) and isinstance(x.op, ast.BitAnd):
                pair = (x.left, x.right)
            elif isinstance(x, ast.AugAssign) and isinstance(x.op, ast.BitAnd):
                pair = (x.target, x.value)
            elif isinstance(x, ast.BinOp) and isinstance(x.op, ast.Mod):
                # `a % m` for a power of two m (checked below on the grid) is `a & (m - 1)`, for negative a too
                pair = (x.left, ast.BinOp(left=x.right, op=ast.Sub(), right=ast.Constant(value=1)))
                try:
                    if any((lambda v_: v_ <= 0 or v_ & (v_ - 1))(eval_int_expr(x.right, {'self.memory_width': wv_})) for wv_ in (8, 16, 32, 64)):
                        pair = None
                except AnalysisError:
                    pair = None
            if pair is None:
                continue
            from ..pyfacts import resolve_names as _rn2
            a, b = pair
            a = _rn2(fn, a) if isinstance(a, ast.Name) and not isinstance(getattr(a, 'ctx', None), ast.Store) else a        # a named mask reads as the mask
            b = _rn2(fn, b) if isinstance(b, ast.Name) else b
            mentions = lambda e: any(norm(y) == 'self.memory_width' for y in ast.walk(e))
            def foldable(e: ast.AST) -> bool:
                try:
                    eval_int_expr(e, {'self.memory_width': 16, 'bit_offset': 3})
                    return True
                except AnalysisError:
                    return False
            # the mask is the operand that is a function of the width alone
            if mentions(b) and foldable(b) and not foldable(a):
                other, mask = a, b
            elif mentions(a) and foldable(a) and not foldable(b):
                other, mask = b, a
            else:
                continue
            n += 1
            clear = any(isinstance(y, ast.Name) and y.id == 'bit_offset' for y in ast.walk(mask))
            offset_role = isinstance(other, ast.Name) and other.id in params[:1] and q.endswith('_bit_address_decompose')
            bad = []
            for wv in (8, 16, 32, 64):
                for bo in ((0, wv - 1) if clear else (0,)):
                    try:
                        got = eval_int_expr(mask, {'self.memory_width': wv, 'bit_offset': bo})
                    except AnalysisError as ex:
                        bad.append(str(ex))
                        break
                    want = ((1 << wv) - 1) & ~(1 << bo) if clear else (wv - 1 if offset_role else (1 << wv) - 1)
                    if got != want:
                        bad.append(f'w={wv}: mask {got:#x}, needed {want:#x}')
            role = 'clear one bit of the word' if clear else 'bit offset' if offset_role else 'word / word address'
            rep.check(not bad, 'C01.MASKS', f'{q.split(".")[-1]}:{norm(other)[:30]} & {norm(mask)[:40]}', bad[0] if bad else f'{role}: exact for the four widths',
                      f'{READER_REL}:{getattr(x, "lineno", fn.lineno)} {q}', expected=role)
    if n < 5:
        raise AnalysisError(f'C01.MASKS: only {n} width-derived masks found in the Reader word accessors')


def check(rep: Report, repo: Optional[Repo] = None) -> None:
    repo = repo or Repo()
    cu = CUnit(repo)
    all_loops = loops(repo, cu, rep.tier)
    rep.units = dict(python_functions=['_run_featured', '_run_fast', '_handle_input', '_handle_output',
                                       'Reader.get_word', 'Reader._get_memory_word', '_run_native'],
                     c_functions=len(cu.funcs), loop_bodies=[_name(l) for l in all_loops],
                     cfg_nodes={_name(l): len(l.g.nodes) for l in all_loops})
    rule_order(rep, all_loops)
    rule_guards(rep, all_loops, repo)
    rule_flip_expr(rep, all_loops, repo, cu)
    rule_fastmem(rep, repo)
    rule_unaligned(rep, repo, cu)
    rule_widths(rep, repo, cu)
    rule_term(rep, repo, cu)
    rule_addr_wrap(rep, cu)
    rule_ffi(rep, repo, cu)
    rule_per_op_state(rep, all_loops)
    rule_masks(rep, repo)
    rep.not_decided.append('equality of outputs/termination/op count for all images and inputs (value-level, needs execution)')
    rep.assumptions.append('role tables in fjverif/spec/machine.py name the ip / flip word / jump word / op counter of each loop')


MANIFEST = dict(
    technique='exact width masks of the reference reader; typestate + path-condition dataflow over Python/C CFGs; table agreement',
    level_text='Static, structural: on every CFG path of all five step implementations (2 Python, 3 C incl. ring/flat '
               'clones) the per-op events occur in the machine-definition order; the IO/halt guards normalise to the '
               'reference intervals; flip expressions, unaligned-read formulas, width tables, termination codes and '
               'the FFI signatures agree. This decides necessary structural clauses of C01, not output equality for '
               'all images (value-level, needs execution).',
    level_note='Trusted: CPython ast, clang 14 front end, fjverif extractors, role tables and reference intervals in '
               'fjverif/spec/machine.py. Not decided: equality of results for all images/inputs.',
    design_ref='DESIGN.md section 4 C01',
)


# ---------------------------------------------------------------- C01.PER-OP-STATE

def rule_per_op_state(rep: Report, all_loops: List[Any]) -> None:
    """no stale per-op state: a local that the step assigns must be (re)assigned in the current iteration before it
    is read; only the documented loop-carried variables survive from one op to the next."""
    rep.rule('C01.PER-OP-STATE', 'in every run loop, each local that is assigned inside the per-op loop is assigned on every '
             'path from the loop head before it is read (must-assigned dataflow, reset at the head), except the loop-carried '
             'ip / op counter / ring counter / signal budget; a read under a non-NULL lane marker is justified by the marker\'s '
             'own definition site', 4)
    from ..pycfg import must_dataflow
    for loop in all_loops:
        is_c = isinstance(loop, CLoop)
        g = loop.g
        head = loop.head()
        R = loop.roles
        carried = {R['ip'], R.get('ops', 'ops'), 'ring_writes', 'inner_left', 'cause', 'breakpoint_handler'}
        if is_c:
            # the loop-carried locals found by what they are, whatever they are called: the signal-poll budget (assigned
            # SIGNAL_CHECK_MASK + 1), the ring write counter (indexes the last-ops ring modulo its length), the returned cause
            body_ = loop.cu.body(loop.fname)
            for n_ in walk(body_):
                if is_assign(n_) and loop.cu.src_of(n_['inner'][1]).replace(' ', '') == 'SIGNAL_CHECK_MASK+1':
                    carried.add(loop.cu.src_of(n_['inner'][0]))
                if is_assign(n_):
                    l0_ = strip(n_['inner'][0])
                    if l0_.get('kind') == 'ArraySubscriptExpr' and loop.cu.src_of(l0_['inner'][0]) == 'last_ops_ring':
                        carried |= {x['referencedDecl']['name'] for x in walk(l0_['inner'][1]) if x.get('kind') == 'DeclRefExpr'
                                    and x['referencedDecl'].get('kind') == 'VarDecl'}
                if n_.get('kind') == 'ReturnStmt' and n_.get('inner') and strip(n_['inner'][0]).get('kind') == 'DeclRefExpr':
                    carried.add(strip(n_['inner'][0])['referencedDecl']['name'])
        assigned_of = c_assigned if is_c else py_assigned
        mentions_of = c_mentions if is_c else py_mentions
        in_loop = g.reachable(head) & _reaching(g, head)
        loop_assigned: Set[str] = set()
        for nid in in_loop:
            loop_assigned |= assigned_of(g.nodes[nid])
        tracked = loop_assigned - carried

        def gen_kill(node: Any, lab: Optional[str]) -> Tuple[Set[str], Any]:
            if node.id == head:
                return set(), 'ALL'
            return set(assigned_of(node)) & tracked, set()
        IN = must_dataflow(g, head, gen_kill)
        PC = path_conditions(g, head, assigned_of, mentions_of)
        bad: List[str] = []
        checked = 0
        for nid in sorted(in_loop):
            node = g.nodes[nid]
            if nid == head or IN.get(nid) is None:
                continue
            reads = _reads(loop, node) & tracked
            have = IN[nid] or frozenset()
            for v in sorted(reads):
                checked += 1
                if v in have:
                    continue
                if _justified_by_marker(loop, g, node, v, IN, PC, assigned_of):
                    continue
                if _justified_by_repeated_test(loop, g, head, node, v, PC, assigned_of, mentions_of, gen_kill, in_loop, IN):
                    continue
                bad.append(f'{v} read at {_site(loop, nid)} ({_txt(loop, nid)[:50]}) may hold the previous op\'s value')
        nm = _name(loop)
        if checked == 0:
            raise AnalysisError(f'{nm}: no per-op reads found')
        if bad:
            for b in bad[:4]:
                rep.fail('C01.PER-OP-STATE', f'{nm}:{b.split(" ")[0]}', b, _site(loop, head),
                         expected='assigned in this iteration before the read')
        else:
            rep.ok('C01.PER-OP-STATE', nm, f'{checked} reads of {len(tracked)} per-op locals are all preceded by an assignment in the '
                   f'same iteration', _site(loop, head))


def _reaching(g: Any, head: int) -> Set[int]:
    """nodes from which the head is reachable (so: nodes on some cycle through the head)."""
    seen = {head}
    work = [head]
    while work:
        n = work.pop()
        for p, _ in g.pred[n]:
            if p not in seen:
                seen.add(p)
                work.append(p)
    return seen


def _reads(loop: Any, node: Any) -> Set[str]:
    a = node.ast
    if isinstance(loop, CLoop):
        if not isinstance(a, dict) or node.kind not in ('stmt', 'cond', 'return', 'switch'):
            return set()
        out: Set[str] = set()

        def rec(x: Dict[str, Any], store: bool) -> None:
            k = x.get('kind')
            if k == 'DeclRefExpr':
                if not store and x['referencedDecl'].get('kind') == 'VarDecl':
                    out.add(x['referencedDecl']['name'])
                return
            kids = [c for c in x.get('inner', []) if isinstance(c, dict)]
            if is_assign(x) and len(kids) == 2:
                l0 = strip(kids[0])
                rec(kids[0], l0.get('kind') == 'DeclRefExpr')
                rec(kids[1], False)
                return
            if k == 'UnaryOperator' and x.get('opcode') == '&' and kids and strip(kids[0]).get('kind') == 'DeclRefExpr':
                return          # out-parameter: written, not read
            for c in kids:
                rec(c, False)
        rec(a, False)
        return out
    if a is None or not isinstance(a, ast.AST) or node.kind in ('except',):
        return set()
    roots: List[ast.AST] = [a]
    if node.kind == 'with':
        roots = [i.context_expr for i in a.items]
    elif node.kind == 'iter':
        roots = [a.iter]
    out2: Set[str] = set()
    for r in roots:
        for n in ast.walk(r):
            if isinstance(n, ast.Name) and isinstance(n.ctx, ast.Load):
                out2.add(n.id)
    return out2


def _justified_by_repeated_test(loop: Any, g: Any, head: int, node: Any, v: str, PC: Dict[int, Any], assigned_of: Any, mentions_of: Any,
                                gen_kill: Any, in_loop: Set[int], IN: Dict[int, Any]) -> bool:
    """path-sensitive refinement: the read sits under a test that the iteration has already taken once (`if bit_offset: .. else:
    word_address = ..` and later `else: use word_address`). A test whose variables are assigned at most once per iteration
    evaluates the same way each time it is spelled, so every branch edge that contradicts the facts known at the read is
    pruned and the must-assigned dataflow is repeated on the pruned graph."""
    from ..pycfg import must_dataflow
    facts = PC.get(node.id) or frozenset()
    if not facts:
        return False
    assign_count: Dict[str, int] = {}
    for nid in in_loop:
        for x in assigned_of(g.nodes[nid]):
            assign_count[x] = assign_count.get(x, 0) + 1
    def stable(nid: int) -> bool:
        # every variable of the test that the loop assigns is assigned once per iteration, and already assigned when the test runs
        nd = g.nodes[nid]
        have_ = IN.get(nid) or frozenset()
        return all(assign_count.get(x, 0) == 0 or (assign_count.get(x, 0) == 1 and x in have_) for x in mentions_of(nd))
    known: Dict[str, str] = {}
    for cid, pol in facts:
        if stable(cid):
            known[_txt(loop, cid)] = pol
    if not known:
        return False

    class Pruned:
        nodes = g.nodes
        succ: Dict[int, List[Tuple[int, Any]]] = {}
    pg = Pruned()
    pg.succ = {}
    for nid, outs in g.succ.items():
        nd = g.nodes[nid]
        if nd.kind == 'cond' and _txt(loop, nid) in known and stable(nid):
            pg.succ[nid] = [(m, lab) for m, lab in outs if lab not in ('T', 'F') or lab == known[_txt(loop, nid)]]
        else:
            pg.succ[nid] = list(outs)
    IN2 = must_dataflow(pg, head, gen_kill)       # type: ignore[arg-type]
    have = IN2.get(node.id)
    return have is not None and v in have


def _justified_by_marker(loop: Any, g: Any, node: Any, v: str, IN: Dict[int, Any], PC: Dict[int, Any], assigned_of: Any) -> bool:
    """v is read while a lane marker m is known truthy, m itself was assigned in this iteration, and every non-NULL
    definition of m happens after v was assigned in the same iteration."""
    if not isinstance(loop, CLoop):
        return False
    have = IN.get(node.id) or frozenset()
    for cid, pol in (PC.get(node.id) or frozenset()):
        ca = g.nodes[cid].ast
        if not isinstance(ca, dict):
            continue
        ir = c_ir(ca, loop.cu.src_of)
        cands = []
        for c in lx.conjuncts(ir):
            if c[0] == 'sym' and pol == 'T':
                cands.append(c[1])
        for m in cands:
            if m not in have:
                continue
            ok = True
            found = False
            for dn in g.nodes:
                if not isinstance(dn.ast, dict) or dn.kind != 'stmt':
                    continue
                for x in walk(dn.ast):
                    if is_assign(x):
                        l0 = strip(x['inner'][0])
                        if l0.get('kind') == 'DeclRefExpr' and l0['referencedDecl']['name'] == m \
                                and loop.cu.src_of(x['inner'][1]) != 'NULL':
                            found = True
                            if v in (IN.get(dn.id) or frozenset()) or v in assigned_of(dn):
                                continue
                            # or: v is assigned on every path from this definition of the marker to the read
                            from ..pycfg import must_dataflow
                            head = loop.head()

                            def gk(nd: Any, lab: Optional[str]) -> Tuple[Set[str], Any]:
                                if nd.id == head:
                                    return {'<next-iteration>'}, set()
                                return set(assigned_of(nd)), set()
                            sub = must_dataflow(g, dn.id, gk)
                            facts = sub.get(node.id)
                            if facts is not None and v not in facts and '<next-iteration>' not in facts:
                                ok = False
            if found and ok:
                return True
    return False
