"""C10 - reading an .fjm is total; damaged or torn files are rejected (structural clauses)."""
from __future__ import annotations

import ast
from typing import Any, Dict, List, Optional, Set, Tuple

from ..core import AnalysisError, Report
from ..excflow import GuardFacts, Site, collect_sites, dominating_guards, handler_converts, lexical_handler, make_hierarchy
from ..pyfacts import Repo, comprehension_or_loop, expand_private_calls, normalize_counting_whiles, calls, dotted, norm, raise_guards, raised_class, walk_no_nested
from .c06 import VOCAB, classify_guard, reader_rejected, writer_validated

R = 'flipjump/fjm/fjm_reader.py'
RUN = 'flipjump/interpreter/fjm_run.py'
READ_EXC = 'FlipJumpReadFjmException'
CLOSURE = ['Reader.__init__', 'Reader._init_header_fields', 'Reader._init_segments', 'Reader._validate_header',
           'Reader._decompress_data', 'Reader._read_decompressed_data', 'Reader._init_memory', 'Reader.assert_runnable']


def reader_closure(repo: Repo) -> List[str]:
    """methods of Reader reachable from __init__ through self.<method>() calls (+ assert_runnable)."""
    meths = repo.methods(R, 'Reader')
    seen = ['Reader.__init__']
    work = ['__init__']
    while work:
        m = work.pop()
        for c in calls(meths[m][-1]):
            d = dotted(c.func)
            if d.startswith('self.') and d[5:] in meths and f'Reader.{d[5:]}' not in seen:
                seen.append(f'Reader.{d[5:]}')
                work.append(d[5:])
    if 'assert_runnable' in meths:
        seen.append('Reader.assert_runnable')
    return seen


def _reader_init(repo: Repo) -> ast.FunctionDef:
    """Reader.__init__ with its private loading helpers expanded in place (the steps may live in a `_load..` helper)"""
    return expand_private_calls(repo, R, repo.func(R, 'Reader.__init__'), 'Reader', depth=1,
                                keep=['_init_header_fields', '_validate_header', '_init_segments', '_read_decompressed_data', '_init_memory'])      # type: ignore[return-value]


def _validate_header_fn(repo: Repo) -> ast.FunctionDef:
    """_validate_header with an extracted `first problem or None` helper read in place"""
    from ..pyfacts import inline_optional_classifiers
    return inline_optional_classifiers(repo, R, repo.func(R, 'Reader._validate_header'), 'Reader')       # type: ignore[return-value]


def rule_escape(rep: Report, repo: Repo) -> None:
    rep.rule('C10.ESCAPE', 'exception-escape analysis of Reader.__init__ and its call closure: every implicitly raising '
             'construct fed by file bytes is converted to the read exception by an enclosing handler, or excluded by a '
             'dominating validation; every explicit raise is the read exception', 18)
    sub = make_hierarchy(repo)
    init = _reader_init(repo)
    # the root handler: what does Reader.__init__ convert?
    root_try = [n for n in walk_no_nested(init) if isinstance(n, ast.Try)]
    root_catches: Set[str] = set()
    root_calls: Set[str] = set()
    if root_try:
        for h in root_try[0].handlers:
            if handler_converts(h, sub) == 'library':
                root_catches |= {t for t in (dotted(h.type).split('.')[-1],)} if h.type is not None else set()
        for c in ast.walk(ast.Module(body=root_try[0].body, type_ignores=[])):
            if isinstance(c, ast.Call) and dotted(c.func).startswith('self.'):
                root_calls.add('Reader.' + dotted(c.func)[5:])
    rep.check('error' in root_catches, 'C10.ESCAPE', 'Reader.__init__:struct.error-mapped', f'root handler converts {sorted(root_catches)}',
              f'{R}:{init.lineno}', expected='struct.error -> FlipJumpReadFjmException')
    call_order = [dotted(c.func) for st in (root_try[0].body if root_try else []) for c in ast.walk(st)
                  if isinstance(c, ast.Call) and dotted(c.func).startswith('self._')]
    validated_before = set()
    if 'self._validate_header' in call_order:
        validated_before = set(call_order[call_order.index('self._validate_header') + 1:])
    closure = reader_closure(repo)
    # a private method reached only from methods that run after the header validation runs after it too
    callers: Dict[str, Set[str]] = {}
    for q_ in closure:
        for c_ in calls(repo.func(R, q_)):
            if dotted(c_.func).startswith('self.'):
                callers.setdefault(dotted(c_.func), set()).add('self.' + q_.split('.', 1)[1] if '.' in q_ else q_)
    grew = bool(validated_before)
    while grew:
        grew = False
        for m_, cs_ in callers.items():
            if m_ not in validated_before and m_ != 'self._validate_header' and cs_ and cs_ <= validated_before:
                validated_before.add(m_)
                grew = True
    if len(closure) < 7:
        raise AnalysisError(f'reader closure shrank to {closure}')
    for q in closure:
        fn = repo.func(R, q)
        in_root_try = q != 'Reader.assert_runnable'      # everything reached from __init__ runs inside its try
        for s in collect_sites(repo, R, q, const_names={'_header_base_size', '_header_extension_size', '_segment_size',
                                                        '_reserved_dict_threshold'}):
            site = f'{R}:{s.line()} {q}'
            proof = None
            h = lexical_handler(s.node, s.classes, sub)
            if h is not None and handler_converts(h, sub) == 'library':
                proof = f'HANDLER: enclosing except {norm(h.type)} raises the read exception'
            elif s.classes == ('error',) and in_root_try and 'error' in root_catches:
                proof = 'HANDLER: struct.error is converted by Reader.__init__'
            elif s.kind == 'subscript':
                base = norm(s.node.value)         # type: ignore[attr-defined]
                guards = GuardFacts(dominating_guards(s.node))
                if isinstance(s.node.value, ast.Dict):                   # type: ignore[attr-defined]
                    keys = {k.value for k in s.node.value.keys if isinstance(k, ast.Constant)}   # type: ignore[attr-defined]
                    sup = set(repo.const('flipjump/fjm/fjm_consts.py', 'SUPPORTED_MEMORY_WIDTHS'))
                    vh = [norm(t) for t, r, _ in raise_guards(_validate_header_fn(repo))]
                    if keys >= sup and 'self.memory_width not in SUPPORTED_MEMORY_WIDTHS' in vh and f'self.{q.split(".")[1]}' in validated_before:
                        proof = 'GUARD: key validated by _validate_header (called earlier); table covers the supported widths'
                elif base == 'data':
                    if ('data_start + data_length > len(data)', False) in guards:
                        proof = 'GUARD: pool-range rejection dominates; index < data_start + data_length; fields are unsigned'
                elif base == 'self.memory':
                    if guards.get('word_address not in self.memory') is not None:
                        proof = 'MEMBER: guarded by the membership test on the same dictionary'
                    elif q == 'Reader._get_memory_word':
                        proof = None
                elif base.startswith('unpack('):
                    proof = 'CONST: unpack of a one-field format returns a 1-tuple'
                if proof is None:
                    from ..excflow import range_bounded_index
                    proof = range_bounded_index(s.node)          # type: ignore[arg-type]
            elif s.kind == 'binop':
                right = s.node.right          # type: ignore[attr-defined]
                if isinstance(right, ast.Constant) and isinstance(right.value, int) and right.value > 0:
                    proof = f'CONST: constant operand {right.value}'
                elif isinstance(s.node.op, (ast.Mod, ast.FloorDiv)) and _width_bytes(fn, right, repo) and f'self.{q.split(".")[1]}' in validated_before:      # type: ignore[attr-defined]
                    proof = 'CONST: divisor is the validated memory width // 8 (>= 1 for every supported width)'
                elif isinstance(s.node.op, ast.LShift) and norm(right) in ('self.memory_width',):     # type: ignore[attr-defined]
                    proof = 'CONST: shift by the validated memory width'
                elif isinstance(s.node.op, (ast.LShift, ast.RShift)) and ('memory_width' in norm(right) or 'bit_length' in norm(right)):  # type: ignore[attr-defined]
                    proof = 'CONST: shift by a width-derived amount'
            elif s.kind == 'call' and s.classes == ('OSError',):
                proof = 'ASSUMPTION: OSError from open() is outside the property (it speaks about byte strings of existing files)'
            if proof:
                rep.ok('C10.ESCAPE', s.key, proof, site)
            else:
                rep.fail('C10.ESCAPE', s.key, f'{s.what} can raise {s.classes} from file-controlled data and nothing converts it', site,
                         expected='conversion to FlipJumpReadFjmException or a dominating validation')
        for n in walk_no_nested(fn):
            if isinstance(n, ast.Raise) and n.exc is not None:
                c = raised_class(n)
                if c == 'error' and in_root_try and 'error' in root_catches:
                    rep.ok('C10.ESCAPE', f'{q}:raise {c}@{norm(n.exc)[:40]}', 'HANDLER: the struct.error raised here is converted by Reader.__init__', f'{R}:{n.lineno} {q}')
                    continue
                rep.check(c == READ_EXC, 'C10.ESCAPE', f'{q}:raise {c}@{norm(n.exc)[:40]}', f'raises {c}', f'{R}:{n.lineno} {q}',
                          expected=READ_EXC)


def _width_bytes(fn: Any, e: ast.expr, repo: Repo) -> bool:
    """e, read through the locals of fn, is `self.memory_width // K` with K a positive constant not above the smallest supported width"""
    from ..pyfacts import resolve_names
    r = resolve_names(fn, e, allow_calls=True)
    sup = repo.const('flipjump/fjm/fjm_consts.py', 'SUPPORTED_MEMORY_WIDTHS')
    vh = [norm(t) for t, r_, _ in raise_guards(_validate_header_fn(repo))]
    if isinstance(r, ast.Subscript) and isinstance(r.value, ast.Dict) and norm(r.slice) == 'self.memory_width' and all(
            isinstance(k, ast.Constant) and isinstance(v, ast.Constant) and isinstance(v.value, int) and v.value > 0 for k, v in zip(r.value.keys, r.value.values)) \
            and {k.value for k in r.value.keys} >= set(sup) and 'self.memory_width not in SUPPORTED_MEMORY_WIDTHS' in vh:         # type: ignore[union-attr]
        return True             # a per-width table of positive byte counts covering the supported widths
    if isinstance(r, ast.Call) and dotted(r.func).split('.')[-1] == 'calcsize' and len(r.args) == 1 and 'self.memory_width not in SUPPORTED_MEMORY_WIDTHS' in vh:
        # calcsize('<' + {8: 'B', ..}[self.memory_width]): the size of a one-code struct format is positive for every entry of the table
        a = r.args[0]
        tabs = [x for x in ast.walk(a) if isinstance(x, ast.Subscript) and isinstance(x.value, ast.Dict) and norm(x.slice) == 'self.memory_width']
        if len(tabs) == 1 and {k.value for k in tabs[0].value.keys if isinstance(k, ast.Constant)} >= set(sup) and all(          # type: ignore[attr-defined]
                isinstance(v, ast.Constant) and isinstance(v.value, str) and len(v.value) == 1 and v.value in 'bBhHiIlLqQ' for v in tabs[0].value.values):    # type: ignore[attr-defined]
            return True
    return (isinstance(r, ast.BinOp) and isinstance(r.op, ast.FloorDiv) and norm(r.left) == 'self.memory_width' and isinstance(r.right, ast.Constant)
            and isinstance(r.right.value, int) and 0 < r.right.value <= min(sup) and 'self.memory_width not in SUPPORTED_MEMORY_WIDTHS' in vh)


def _partial_word_refused(rd: Any, repo: Repo) -> Optional[str]:
    """the text of a test `len(B) % S` (S the width-derived word size, read through locals) under which the word reader raises: a data area
    that ends inside a word is refused before anything is decoded"""
    from ..pyfacts import resolve_names
    for n in ast.walk(rd):
        if isinstance(n, ast.If) and any(isinstance(x, ast.Raise) for x in n.body) and not n.orelse:
            t = resolve_names(rd, n.test)
            if isinstance(t, ast.Compare) and len(t.ops) == 1 and isinstance(t.ops[0], (ast.NotEq, ast.Gt)) and norm(t.comparators[0]) == '0':
                t = t.left
            elif isinstance(t, ast.Compare) and len(t.ops) == 1 and isinstance(t.ops[0], (ast.NotEq, ast.Lt)) and norm(t.left) == '0':
                t = t.comparators[0]
            if isinstance(t, ast.BinOp) and isinstance(t.op, ast.Mod) and isinstance(t.left, ast.Call) and dotted(t.left.func) == 'len' \
                    and _width_bytes(rd, t.right, repo):
                return norm(n.test)
    return None


def _benign_helper(repo: Repo, name: str) -> bool:
    """a module-level function of the fjm package (reader module or its constants module) whose body has no implicitly raising
    construct and calls nothing but safe builtins - e.g. a shared message builder"""
    from ..excflow import SAFE_BUILTINS, collect_sites
    if not name.isidentifier():
        return False
    for rel in (R, 'flipjump/fjm/fjm_consts.py'):
        if repo.exists(rel) and repo.has_func(rel, name):
            fn = repo.func(rel, name)
            if collect_sites(repo, rel, name):
                return False
            return all(dotted(c.func) in SAFE_BUILTINS or dotted(c.func) in ('str', 'repr', 'hex') for c in ast.walk(fn) if isinstance(c, ast.Call))
    return False


def unclassified_calls(repo: Repo) -> List[str]:
    from ..excflow import SAFE_BUILTINS
    out = []
    known = {'unpack', 'open', 'MemorySegment', 'FJMVersion', 'lzma.decompress', 'fjm_file.read', READ_EXC, '_new_garbage_val'}
    for q in reader_closure(repo):
        fn = repo.func(R, q)
        raised = {id(r.exc) for r in ast.walk(fn) if isinstance(r, ast.Raise)}
        for n in walk_no_nested(fn):
            if isinstance(n, ast.Call) and id(n) not in raised:
                d = dotted(n.func)
                if d.startswith('self.') or d in known or d in SAFE_BUILTINS or d.split('.')[-1] in ('append', 'read', 'items', 'sort', 'extend', 'values', 'keys'):
                    continue
                if _benign_helper(repo, d):
                    continue            # a project function that only builds a value (no raising construct, no further calls)
                out.append(f'{R}:{n.lineno} {q}: {d or norm(n.func)[:40]}()')
    return out


def _words_walk(fold: Any) -> Optional[Tuple[str, str, bool]]:
    """(bytes name B, step text S, element is unpack(<fmt>, B[i : i + S])[0]) for a fold over range(0, len(B), S); None when the
    iteration is not of that shape. Names are read off the structure, not assumed."""
    it, elt, var = fold[0], fold[1], fold[2]
    if not (isinstance(it, ast.Call) and dotted(it.func) == 'range' and len(it.args) == 3 and norm(it.args[0]) == '0' and isinstance(it.args[1], ast.Call)
            and dotted(it.args[1].func) == 'len' and len(it.args[1].args) == 1 and isinstance(it.args[1].args[0], ast.Name)):
        return None
    b, st = it.args[1].args[0].id, norm(it.args[2])
    ok = (isinstance(elt, ast.Subscript) and norm(elt.slice) == '0' and isinstance(elt.value, ast.Call) and dotted(elt.value.func).split('.')[-1] == 'unpack'
          and len(elt.value.args) == 2 and isinstance(elt.value.args[1], ast.Subscript) and norm(elt.value.args[1].value) == b
          and isinstance(elt.value.args[1].slice, ast.Slice) and var is not None and norm(elt.value.args[1].slice.lower or ast.Constant(value=0)) == var
          and norm(elt.value.args[1].slice.upper or ast.Constant(value=0)) in (f'{var} + {st}', f'{st} + {var}') and elt.value.args[1].slice.step is None)
    return b, st, bool(ok)


def rule_bounded(rep: Report, repo: Repo) -> None:
    rep.rule('C10.BOUNDED', 'every loop or comprehension whose trip count comes from a file field consumes file bytes on each '
             'iteration (so it ends by struct.error), follows the pool-range check, or is under the dense-tail threshold', 5)
    seg = expand_private_calls(repo, R, repo.func(R, 'Reader._init_segments'), 'Reader')
    folds_s = comprehension_or_loop(seg)           # the comprehension, or the equivalent append loop
    ok = len(folds_s) == 1 and norm(folds_s[0][0]) == 'range(self.segment_num)' and \
        norm(folds_s[0][1]) == 'unpack(_segment_format, fjm_file.read(_segment_size))'
    if not ok:
        # the append loop that names the four fields first: the exact-size unpack is an unconditional statement of the loop body
        loops = [n for n in ast.walk(seg) if isinstance(n, ast.For)]
        ok = len(loops) == 1 and norm(loops[0].iter) == 'range(self.segment_num)' and not loops[0].orelse and any(
            isinstance(st, (ast.Assign, ast.Expr)) and any(norm(c) == 'unpack(_segment_format, fjm_file.read(_segment_size))' for c in calls(st)) for st in loops[0].body)
    rep.check(ok, 'C10.BOUNDED', '_init_segments:range(segment_num)', 'each iteration unpacks one exact-size record (a short read raises)',
              f'{R}:{seg.lineno}')
    rd = expand_private_calls(repo, R, repo.func(R, 'Reader._read_decompressed_data'), 'Reader')        # an extracted `_unpack_words` helper reads in place
    folds = comprehension_or_loop(rd)
    ok = len(folds) == 1 and _words_walk(folds[0]) is not None          # range(0, len(B), S) over the bytes B that were read, whatever they are called
    if not folds and _partial_word_refused(rd, repo):
        ok = True               # one bulk decode of the bytes that were read: no file-controlled trip count at all
    rep.check(ok, 'C10.BOUNDED', '_read_decompressed_data:words', 'bounded by the bytes actually read', f'{R}:{rd.lineno}')
    im = normalize_counting_whiles(expand_private_calls(repo, R, repo.func(R, 'Reader._init_memory'), 'Reader'))
    for n in ast.walk(im):
        if isinstance(n, ast.For) and 'range(' in norm(n.iter) and norm(n.iter) != 'segments':
            it = norm(n.iter)
            guards = GuardFacts(dominating_guards(n))
            if it in ('range(0, data_length, 2)', 'range(data_length)'):
                ok = guards.get('data_start + data_length > len(data)') is False
                why = 'after the pool-range rejection: data_length <= len(pool) <= file size'
            elif it == 'range(data_length, segment_length)':
                ok = guards.get('segment_length - data_length < _reserved_dict_threshold') is True
                why = 'only under the dense-tail threshold'
            elif isinstance(n.iter, ast.Call) and dotted(n.iter.func) == 'range' and 1 <= len(n.iter.args) <= 2 \
                    and all(isinstance(a, ast.Constant) for a in n.iter.args[:-1]) and isinstance(n.iter.args[-1], ast.Call) \
                    and dotted(n.iter.args[-1].func) == 'len' and isinstance(n.iter.args[-1].args[0], ast.Name):
                ok, why = True, f'bounded by the length of the list {norm(n.iter.args[-1].args[0])} already built in memory'
            else:
                ok, why = False, 'unrecognised file-controlled loop'
                # range(A, B) whose trip count B - A is, as a linear form over the segment fields, exactly what a dominating
                # `<trip> < _reserved_dict_threshold` test bounds (named ends of the tail read through)
                from ..linexpr import Env as _Env, py_ir as _py_ir, to_lin as _to_lin, lin_add as _lin_add, lin_eq as _lin_eq
                from ..pyfacts import resolve_names as _rn
                if isinstance(n.iter, ast.Call) and dotted(n.iter.func) == 'range' and len(n.iter.args) == 2:
                    try:
                        trip = _lin_add(_to_lin(_py_ir(_rn(im, n.iter.args[1])), _Env({})), _to_lin(_py_ir(_rn(im, n.iter.args[0])), _Env({})), -1)
                    except Exception:      # noqa: BLE001
                        trip = None
                    for gtxt, pol in dominating_guards(n):
                        try:
                            ge = _rn(im, ast.parse(gtxt, mode='eval').body)
                        except SyntaxError:
                            continue
                        if pol and trip is not None and isinstance(ge, ast.Compare) and len(ge.ops) == 1 and isinstance(ge.ops[0], ast.Lt) \
                                and norm(ge.comparators[0]) == '_reserved_dict_threshold':
                            try:
                                if _lin_eq(_to_lin(_py_ir(ge.left), _Env({})), trip):
                                    ok, why = True, 'only under the dense-tail threshold (trip count = the tested tail length)'
                            except Exception:      # noqa: BLE001
                                pass
            rep.check(ok, 'C10.BOUNDED', f'_init_memory:{it}', why, f'{R}:{n.lineno}')
    # the compressed payload: a one-shot decompression returns whatever the stream expands to (a 20 KB file -> hundreds of MB) before a
    # single segment has been validated - bounded only when the decoder is told how much the segment table can reference (max_length)
    dd = repo.func(R, 'Reader._decompress_data')
    one_shot = [c for c in calls(dd) if dotted(c.func) == 'lzma.decompress']
    bounded_dec = [c for c in calls(dd) if dotted(c.func).split('.')[-1] == 'decompress' and any(k.arg == 'max_length' for k in c.keywords)]
    rep.check(not one_shot or bool(bounded_dec), 'C10.BOUNDED', '_decompress_data:output size', 'the decoder is given an output bound' if not one_shot or bounded_dec else
              '`lzma.decompress(..)` expands the payload without any bound and before the segment table is validated: allocation unrelated to '
              'the size of the file (a 20 KB file with an invalid segment table costs ~290 MB before it is rejected)', f'{R}:{dd.lineno} Reader._decompress_data',
              expected='LZMADecompressor.decompress(.., max_length=<what the segments reference>)')
    thr = repo.const('flipjump/fjm/fjm_consts.py', '_reserved_dict_threshold')
    rep.check(isinstance(thr, int) and 0 < thr <= 1 << 20, 'C10.BOUNDED', '_reserved_dict_threshold', str(thr), 'flipjump/fjm/fjm_consts.py',
              expected='a small constant')


def rule_validate_first(rep: Report, repo: Repo) -> None:
    rep.rule('C10.VALIDATE-FIRST', 'header validation precedes segment/data/memory construction; per segment the parity and '
             'pool checks precede the first store into the memory dictionary; run() asserts runnability before dispatch', 3)
    from ..pyfacts import calls_in_order
    init = _reader_init(repo)
    want = ['self._init_header_fields', 'self._validate_header', 'self._init_segments', 'self._read_decompressed_data', 'self._init_memory']
    order = [dotted(c.func) for c in calls_in_order(init) if dotted(c.func).startswith('self._')]       # tree order, not line numbers
    rep.check(order == want, 'C10.VALIDATE-FIRST', 'Reader.__init__:order', str(order), f'{R}:{init.lineno}', expected=str(want))
    im = normalize_counting_whiles(expand_private_calls(repo, R, repo.func(R, 'Reader._init_memory'), 'Reader'))
    loop = [n for n in ast.walk(im) if isinstance(n, ast.For) and norm(n.iter) == 'segments'][0]
    first_store = min(n.lineno for n in ast.walk(loop) if isinstance(n, ast.Subscript) and isinstance(n.ctx, ast.Store) and norm(n.value) == 'self.memory')
    last_check = max(t.lineno for t, r, _ in raise_guards(im))
    rep.check(last_check < first_store, 'C10.VALIDATE-FIRST', '_init_memory:checks-before-stores',
              f'last rejection line {last_check} < first store line {first_store}', f'{R}:{loop.lineno}')
    run = repo.func(RUN, 'run')
    lines = {dotted(c.func): c.lineno for c in ast.walk(run) if isinstance(c, ast.Call)}
    ok = 'mem.assert_runnable' in lines and all(lines['mem.assert_runnable'] < lines[k] for k in ('_run_featured', '_run_native', '_run_fast') if k in lines)
    rep.check(ok, 'C10.VALIDATE-FIRST', 'run:assert_runnable', 'assert_runnable() precedes every engine dispatch', f'{RUN}:{run.lineno}')


def rule_torn(rep: Report, repo: Repo) -> None:
    rep.rule('C10.TORN', 'structural reasons a strict prefix is rejected: exact-size unpack of header and table, per-word unpack '
             'of exact-size slices (no len//size truncation), one-shot lzma.decompress (raises without the end marker)', 4)
    from ..pyfacts import inline_adjacent_temps
    rh = inline_adjacent_temps(expand_private_calls(repo, R, repo.func(R, 'Reader._init_header_fields'), 'Reader'))      # `buf = f.read(n)` / `unpack(fmt, buf)` reads in place
    reads = [norm(c) for c in calls(rh) if dotted(c.func) == 'unpack']
    rep.check(reads == ['unpack(_header_base_format, fjm_file.read(_header_base_size))',
                        'unpack(_header_extension_format, fjm_file.read(_header_extension_size))'], 'C10.TORN', 'header:exact-size-unpack',
              str(reads), f'{R}:{rh.lineno}')
    rd = expand_private_calls(repo, R, repo.func(R, 'Reader._read_decompressed_data'), 'Reader')
    folds = comprehension_or_loop(rd)
    elt = norm(folds[0][1]).replace(folds[0][2] or 'i', 'i') if len(folds) == 1 and (folds[0][2] or '').isidentifier() else ''
    ww = _words_walk(folds[0]) if len(folds) == 1 else None
    refused = _partial_word_refused(rd, repo)
    rep.check((ww is not None and ww[2]) or refused is not None, 'C10.TORN', 'words:per-slice-unpack', elt or f'a data area with `{refused}` is refused before decoding', f'{R}:{rd.lineno}',
              expected='each word is unpacked from its own slice, so a partial last word raises (or a length that is no multiple of the word size is refused)')
    no_trunc = refused is not None or not any(isinstance(n, ast.BinOp) and isinstance(n.op, ast.FloorDiv) and 'len(' in norm(n.left) for n in ast.walk(rd))
    rep.check(no_trunc, 'C10.TORN', 'words:no-length-truncation', 'no len(data)//size in the word reader', f'{R}:{rd.lineno}')
    dd = repo.func(R, 'Reader._decompress_data')
    one_shot = [dotted(c.func) for c in calls(dd) if dotted(c.func).startswith('lzma.')]
    rep.check(one_shot == ['lzma.decompress'], 'C10.TORN', 'lzma:one-shot', str(one_shot), f'{R}:{dd.lineno}',
              expected='lzma.decompress (checks the end-of-stream marker), not a streaming LZMADecompressor')


def rule_invariants(rep: Report, repo: Repo) -> None:
    rep.rule('C10.INVARIANTS', 'every segment-table invariant the writer establishes is re-checked by the reader, so a '
             'single-field corruption of a valid table cannot load as a different image', 8)
    rr, rwhere = reader_rejected(repo)
    # V8 (disjoint data ranges) is a writer-side invariant only: the reader never mutates the pool, so shared
    # data decodes to a well-defined image and demanding its rejection would exceed the property.
    for v in ('V1', 'V2', 'V3', 'V4', 'V5', 'V6', 'V7', 'V9'):
        by_unpack = v in ('V9',)
        ok = v in rr
        what = VOCAB[v]
        if v == 'V9':
            what = 'start + length < 2^64 (the native loader raises ValueError otherwise)'
        rep.check(ok, 'C10.INVARIANTS', f'Reader:{v}', f'{what}: ' + (f're-checked at {rwhere.get(v)}' if ok else
                  'NOT re-checked by the reader (a corrupted table loads silently'
                  + (', then dies in the native loader as an unknown runtime exception)' if v == 'V9' else ')')),
                  rwhere.get(v, f'{R} Reader._init_memory'), expected='raise FlipJumpReadFjmException')


def check(rep: Report, repo: Optional[Repo] = None) -> None:
    repo = repo or Repo()
    rep.units = dict(files=[R, RUN], functions=CLOSURE)
    rule_escape(rep, repo)
    rule_bounded(rep, repo)
    rule_validate_first(rep, repo)
    rule_torn(rep, repo)
    rule_invariants(rep, repo)
    unknown = unclassified_calls(repo)
    if unknown and all(i.ok for i in rep.instances):
        raise AnalysisError('unclassified call(s) in the reader closure (extend the raising-construct table): ' + '; '.join(unknown[:4]))
    rep.assumptions += ['OSError from open()/read() is outside the property (it speaks about byte strings)',
                        'lzma.decompress (one-shot) raises LZMAError on a stream without end marker; MemoryError is not mapped',
                        'struct.unpack raises struct.error on any size mismatch']
    rep.not_decided.append('decompression-bomb ratios inside liblzma; "never hangs" beyond the loop bounds')


MANIFEST = dict(
    technique='exception-escape analysis with guard-dominance discharge; loop-bound guards; invariant table inclusion',
    level_text='Static: every implicitly raising construct in the reader closure (subscripts, unpack, enum conversion, lzma, '
               'shifts) is shown to be converted to the read exception or excluded by a dominating validation; every '
               'file-controlled loop is bounded by bytes read or an explicit check; validation precedes use; the torn-write '
               'rejection rests on exact-size unpacks and the one-shot lzma API; the reader re-checks the writer invariants '
               '(where it does not, the finding is recorded).',
    level_note='Trusted: CPython ast, documented behaviour of struct and lzma. F05 (reader does not re-check V1-V4, V7-V9) is a recorded finding.',
    design_ref='DESIGN.md section 4 C10',
)
