"""C13 - assembly output is a pure function of its inputs (process-global state, cache key/aliasing, immutability)."""
from __future__ import annotations

import ast
from typing import Any, Dict, List, Optional, Set, Tuple

from ..core import AnalysisError, Report
from ..excflow import GuardFacts, dominating_guards
from ..pyfacts import Repo, cc, cn, ancestors, calls, dotted, enclosing_func, norm, param_names, resolve_names, walk_no_nested

PARSER = 'flipjump/assembler/fj_parser.py'
PRE = 'flipjump/assembler/preprocessor.py'
OPS = 'flipjump/assembler/inner_classes/ops.py'
EXPR = 'flipjump/assembler/inner_classes/expr.py'
ASM = 'flipjump/assembler/assembler.py'
WRITER = 'flipjump/fjm/fjm_writer.py'
FUNCS = 'flipjump/utils/functions.py'
PIPELINE = [PARSER, PRE, OPS, EXPR, ASM, WRITER]

KNOWN_GLOBALS = {'curr_file', 'curr_file_short_name', 'curr_text', 'curr_namespace', 'all_errors', 'error_occurred'}


def _functions(repo: Repo, rel: str) -> List[Tuple[str, ast.FunctionDef]]:
    from .c14 import all_functions
    return all_functions(repo, rel)


def _global_reads(fn: ast.FunctionDef, g: str) -> List[ast.Name]:
    local = set(param_names(fn))
    for n in walk_no_nested(fn):
        if isinstance(n, ast.Name) and isinstance(n.ctx, ast.Store) and n.id == g:
            decl = any(isinstance(s, ast.Global) and g in s.names for s in ast.walk(fn))
            if not decl:
                local.add(g)
    if g in local:
        return []
    return [n for n in walk_no_nested(fn) if isinstance(n, ast.Name) and n.id == g and isinstance(n.ctx, ast.Load)]


_INTERPRETER_SETTERS = {'sys.setrecursionlimit', 'sys.set_int_max_str_digits', 'sys.setswitchinterval', 'locale.setlocale', 'random.seed',
                        'os.chdir', 'os.umask', 'os.putenv', 'gc.disable', 'gc.set_threshold'}
_STAGES = ('parse_macro_tree', 'resolve_macros', 'labels_resolve')


def rule_interpreter_state(rep: Report, repo: Repo) -> None:
    """a setting of the interpreter itself outlives the call that made it: whatever stage of a LATER assemble() runs before that call's
    own setter runs under the earlier call's value - the second result then depends on the first call's options"""
    rep.rule('C13.INTERPRETER-STATE', 'every interpreter-wide setting the pipeline writes (sys.setrecursionlimit, ..) is written by assemble() '
             'itself, from its own arguments and constants only, before the first pipeline stage is called - so no stage ever runs under a '
             'value an earlier call left behind', 1)
    from ..pyfacts import calls_in_order
    setters = []
    for rel in PIPELINE:
        for q, fn in _functions(repo, rel):
            for c in calls(fn):
                if dotted(c.func) in _INTERPRETER_SETTERS:
                    setters.append((rel, q, fn, c))
        for st in repo.mod(rel).body:
            for c in ast.walk(st) if not isinstance(st, (ast.FunctionDef, ast.AsyncFunctionDef, ast.ClassDef)) else []:
                if isinstance(c, ast.Call) and dotted(c.func) in _INTERPRETER_SETTERS:
                    setters.append((rel, '<module>', None, c))
    kinds = sorted({dotted(c.func) for _, _, _, c in setters})
    asm = repo.func(ASM, 'assemble')
    params = set(param_names(asm))
    order = calls_in_order(asm)
    first_stage = next((i for i, c in enumerate(order) if dotted(c.func).split('.')[-1] in _STAGES), None)
    if first_stage is None:
        raise AnalysisError('C13.INTERPRETER-STATE: assemble() calls none of the pipeline stages ' + str(_STAGES))
    consts = {n.id for n in ast.walk(repo.mod(ASM)) if isinstance(n, ast.Name) and n.id.isupper()} | {
        a.asname or a.name for st in repo.mod(ASM).body if isinstance(st, ast.ImportFrom) for a in st.names if (a.asname or a.name).isupper()}
    for kind in kinds:
        early = [c for c in order[:first_stage] if dotted(c.func) == kind]
        ok = bool(early)
        why = f'assemble() calls {kind} before {dotted(order[first_stage].func)}' if ok else \
            f'{kind} is called in {sorted({q for _, q, _, c in setters if dotted(c.func) == kind})} but not by assemble() before its first stage ' \
            f'({dotted(order[first_stage].func)}): that stage runs under the value the previous call left behind'
        for c in early:
            args_ = [resolve_names(asm, a) for a in c.args]                  # a named limit reads as the expression it names
            free = {n.id for a in args_ for n in ast.walk(a) if isinstance(n, ast.Name)} - params - consts
            if free or any(isinstance(n, (ast.Call, ast.Attribute)) for a in args_ for n in ast.walk(a)):
                ok = False
                why = f'the value handed to {kind} is not a function of assemble()\'s own arguments and constants ({sorted(free)})'
        rep.check(ok, 'C13.INTERPRETER-STATE', kind, why, repo.site(ASM, asm), expected='set first, from the call\'s own arguments')
    if not kinds:
        raise AnalysisError('C13.INTERPRETER-STATE: no interpreter-wide setter found in the pipeline (sys.setrecursionlimit expected)')


def rule_cache_valid(rep: Report, repo: Repo) -> None:
    """what is kept for later calls must be a prefix that PARSED: a snapshot taken before the error check of the parse it follows keeps the
    half-built state of a refused prefix - the next call with that key restores it, skips the files and their errors, and assembles"""
    rep.rule('C13.CACHE-VALID', 'between the parse of a file and the snapshot of the parser into the stl prefix cache lies the error check of that '
             'parse (read in call order, module functions of the parser expanded one level): a failed assembly leaves nothing in the cache', 1)
    from ..pyfacts import calls_in_order
    snaps = [(q, fn) for q, fn in _functions(repo, PARSER) if any(dotted(c.func) == '_snapshot_parser_to_cache' for c in calls(fn))]
    if not snaps:
        raise AnalysisError('C13.CACHE-VALID: no caller of _snapshot_parser_to_cache found')

    def expanded(fn: ast.AST, depth: int = 0) -> List[str]:
        out: List[str] = []
        for c in calls_in_order(fn):
            d = dotted(c.func)
            if depth < 2 and d and '.' not in d and repo.has_func(PARSER, d) and d not in ('_snapshot_parser_to_cache', 'exit_if_errors'):
                out += expanded(repo.func(PARSER, d), depth + 1)
            else:
                out.append(d)
        return out
    for q, fn in snaps:
        loops_ = [lp for lp in ast.walk(fn) if isinstance(lp, (ast.For, ast.While)) and any(
            isinstance(c, ast.Call) and dotted(c.func) == '_snapshot_parser_to_cache' for c in ast.walk(lp))]
        seq = expanded(loops_[0] if loops_ else fn)
        k_snap = seq.index('_snapshot_parser_to_cache')
        parses = [i for i, d in enumerate(seq[:k_snap]) if d.split('.')[-1] in ('parse', 'tokenize')]
        ok = bool(parses) and 'exit_if_errors' in seq[parses[-1] + 1:k_snap]
        rep.check(ok, 'C13.CACHE-VALID', f'{q}:snapshot after the error check', f'call order before the snapshot: {seq[max(0, k_snap - 6):k_snap + 1]}',
                  repo.site(PARSER, fn), expected='.. parser.parse, exit_if_errors, _snapshot_parser_to_cache')


def rule_globals(rep: Report, repo: Repo) -> None:
    rep.rule('C13.GLOBALS', 'every process-global of the parser is written on the current call\'s path before it is read: the error '
             'flag/text at the top of parse_macro_tree, the per-file text and namespace stack at the top of lex_parse_curr_file '
             '(their readers run only under the lexer/parser), the current file by the file loops before any reader; no other mutable '
             'module state exists in the pipeline', 6)
    # inventory: names declared `global` anywhere + annotated module-level names without a value
    decl: Set[str] = set()
    for rel in PIPELINE:
        for n in ast.walk(repo.mod(rel)):
            if isinstance(n, ast.Global):
                decl |= set(n.names)
    ann = {st.target.id for st in repo.mod(PARSER).body if isinstance(st, ast.AnnAssign) and st.value is None and isinstance(st.target, ast.Name)}
    rep.check(decl <= KNOWN_GLOBALS and ann == KNOWN_GLOBALS, 'C13.GLOBALS', 'inventory', f'declared global: {sorted(decl)}; module-level state: {sorted(ann)}',
              PARSER, expected=str(sorted(KNOWN_GLOBALS)))
    # mutable module-level containers in the pipeline
    containers = []
    for rel in PIPELINE:
        for st in repo.mod(rel).body:
            tgt, val = None, None
            if isinstance(st, ast.Assign) and isinstance(st.targets[0], ast.Name):
                tgt, val = st.targets[0].id, st.value
            elif isinstance(st, ast.AnnAssign) and isinstance(st.target, ast.Name) and st.value is not None:
                tgt, val = st.target.id, st.value
            if tgt and isinstance(val, (ast.Dict, ast.List, ast.Set)) and not tgt.isupper() and not tgt.startswith('__'):
                if (isinstance(val, ast.Dict) and val.keys) or (isinstance(val, (ast.List, ast.Set)) and val.elts):
                    continue          # a table written out as a non-empty literal: constant by use - the read-only audit below covers every use of it
                containers.append(f'{rel.split("/")[-1]}:{tgt}')
    rep.check(containers == ['fj_parser.py:_stl_prefix_cache', 'ops.py:INITIAL_ARGS'] or containers == ['fj_parser.py:_stl_prefix_cache'], 'C13.GLOBALS',
              'module-level containers', str(containers), PARSER, expected='only the stl prefix cache (keyed, see C13.CACHE-KEY) and the empty INITIAL_ARGS')
    # every module-level container of the pipeline (also the UPPER_CASE "constants"): inside functions it is only READ in place -
    # subscripted, tested with `in`, iterated, measured, copied, formatted, or asked through a read-only method. A store into it,
    # a mutating method, or any use that lets the object itself escape (returned, bound to another name / attribute, handed to a
    # call that is not a copying builtin) makes one assembly able to leave something behind for the next.
    READ_METHODS = {'get', 'items', 'keys', 'values', 'copy', 'index', 'count', 'join', 'union', 'intersection', 'difference', 'issubset', 'issuperset'}
    COPYING = {'len', 'sorted', 'list', 'dict', 'tuple', 'set', 'frozenset', 'sum', 'min', 'max', 'any', 'all', 'str', 'repr', 'enumerate', 'zip', 'iter',
               'reversed', 'bool', 'isinstance', 'print', 'map', 'filter'}
    ESCAPE_ALLOW = {('_stl_prefix_cache',): 'the keyed parse cache: written on purpose, judged by C13.CACHE-KEY / CACHE-ALIAS',
                    ('INITIAL_ARGS',): 'the (empty) argument list of the main macro: handed to resolve_macro_aux, which only zips it with the parameters'}
    all_containers: Dict[str, str] = {}
    for rel in PIPELINE:
        for st in repo.mod(rel).body:
            tgt, val = None, None
            if isinstance(st, ast.Assign) and isinstance(st.targets[0], ast.Name):
                tgt, val = st.targets[0].id, st.value
            elif isinstance(st, ast.AnnAssign) and isinstance(st.target, ast.Name) and st.value is not None:
                tgt, val = st.target.id, st.value
            is_cont = isinstance(val, (ast.Dict, ast.List, ast.Set, ast.ListComp, ast.DictComp, ast.SetComp)) or (
                isinstance(val, ast.Call) and dotted(val.func).split('.')[-1] in ('dict', 'list', 'set', 'defaultdict', 'deque', 'OrderedDict', 'Counter'))
            if tgt and is_cont and not tgt.startswith('__'):
                all_containers[tgt] = rel
    escapes = []
    n_uses = 0
    from ..pyfacts import parent as _parent
    for rel in PIPELINE:
        for q, fn in _functions(repo, rel):
            shadow = set(param_names(fn)) | {n.id for n in walk_no_nested(fn) if isinstance(n, ast.Name) and isinstance(n.ctx, ast.Store)
                                             and not any(isinstance(g_, ast.Global) and n.id in g_.names for g_ in ast.walk(fn))}
            for n in walk_no_nested(fn):
                if not (isinstance(n, ast.Name) and n.id in all_containers and n.id not in shadow):
                    continue
                if (n.id,) in ESCAPE_ALLOW:
                    continue
                n_uses += 1
                par = _parent(n)
                okuse = False
                what = type(par).__name__
                if isinstance(n.ctx, (ast.Store, ast.Del)):
                    what = 're-bound'
                elif isinstance(par, ast.Subscript) and par.value is n:
                    okuse = isinstance(par.ctx, ast.Load)
                    what = 'subscript store' if not okuse else what
                elif isinstance(par, ast.Compare) and n in par.comparators and all(isinstance(o, (ast.In, ast.NotIn)) for o in par.ops):
                    okuse = True
                elif isinstance(par, (ast.For, ast.comprehension)) and par.iter is n:
                    okuse = True
                elif isinstance(par, ast.Attribute) and par.value is n:
                    gp = _parent(par)
                    okuse = par.attr in READ_METHODS and isinstance(gp, ast.Call) and gp.func is par
                    what = f'.{par.attr}'
                elif isinstance(par, ast.Call) and n in par.args and dotted(par.func) in COPYING:
                    okuse = True
                elif isinstance(par, ast.FormattedValue):
                    okuse = True
                elif isinstance(par, ast.Starred):
                    okuse = True
                if not okuse:
                    escapes.append(f'{rel.split("/")[-1]}:{q}: {n.id} ({what}) line {n.lineno}')
    rep.check(not escapes, 'C13.GLOBALS', 'module-level containers:read-only', f'{n_uses} uses of {len(all_containers)} containers; '
              + (f'not read-only: {escapes[:3]}' if escapes else 'all read in place'), PARSER,
              expected='module-level containers are only read in place (reasoned exceptions: ' + ', '.join(k[0] for k in ESCAPE_ALLOW) + ')')
    ia = [n for rel in PIPELINE for n in ast.walk(repo.mod(rel)) if isinstance(n, ast.Attribute) and isinstance(n.value, ast.Name) and n.value.id == 'INITIAL_ARGS'
          and n.attr in ('append', 'extend', 'insert', 'pop', 'clear')]
    rep.check(not ia, 'C13.GLOBALS', 'INITIAL_ARGS never mutated', f'{len(ia)} mutating uses', OPS)
    pm = repo.func(PARSER, 'parse_macro_tree')
    body = [s for s in pm.body if not (isinstance(s, ast.Expr) and isinstance(s.value, ast.Constant)) and not isinstance(s, ast.Global)]
    first_two = [norm(s) for s in body[:2]]
    rep.check(sorted(first_two) == ["all_errors = ''", 'error_occurred = False'], 'C13.GLOBALS', 'error-state reset first', str(first_two),
              f'{PARSER}:{pm.lineno}', expected='error_occurred = False and all_errors = \'\' before anything else')
    lp = repo.func(PARSER, 'lex_parse_curr_file')
    lines = {}
    for n in walk_no_nested(lp):
        if isinstance(n, ast.Assign) and isinstance(n.targets[0], ast.Name) and n.targets[0].id in ('curr_text', 'curr_namespace'):
            lines[n.targets[0].id] = n.lineno
        if isinstance(n, ast.Call) and dotted(n.func) in ('lexer.tokenize', 'parser.parse'):
            lines[dotted(n.func)] = n.lineno
    ok = all(k in lines for k in ('curr_text', 'curr_namespace', 'lexer.tokenize', 'parser.parse')) and \
        max(lines['curr_text'], lines['curr_namespace']) < min(lines['lexer.tokenize'], lines['parser.parse'])
    ns_val = [norm(n.value) for n in walk_no_nested(lp) if isinstance(n, ast.Assign) and norm(n.targets[0]) == 'curr_namespace']
    rep.check(ok and ns_val == ['[]'], 'C13.GLOBALS', 'per-file state reset', f'{lines}; curr_namespace = {ns_val}', f'{PARSER}:{lp.lineno}',
              expected='text and an EMPTY namespace stack assigned before tokenising/parsing each file')
    # readers of curr_text / curr_namespace only run under the lexer / parser
    for g in ('curr_namespace', 'curr_text'):
        readers = [q for q, fn in _functions(repo, PARSER) if _global_reads(fn, g)]
        ok = all(q.startswith(('FJParser.', 'FJLexer.')) or q == 'lex_parse_curr_file' for q in readers)
        rep.check(ok, 'C13.GLOBALS', f'readers:{g}', f'{readers}', PARSER, expected='grammar/lexer actions only (they run inside lex_parse_curr_file)')
    pf = repo.func(PARSER, '_parse_files_into_parser')
    loops = [n for n in walk_no_nested(pf) if isinstance(n, ast.For)]
    okf = True
    for lpn in loops:
        tn = {x.id for x in ast.walk(lpn.target) if isinstance(x, ast.Name)}
        uses = [dotted(c.func) for s in lpn.body for c in ast.walk(s) if isinstance(c, ast.Call) and dotted(c.func) in ('validate_current_file', 'lex_parse_curr_file')]
        if uses and not {'curr_file', 'curr_file_short_name'} <= tn:
            okf = False
    outside = [dotted(c.func) for c in calls(pf) if dotted(c.func) in ('validate_current_file', 'lex_parse_curr_file')
               and not any(isinstance(a, ast.For) for a in ancestors(c))]
    rep.check(okf and len(loops) == 2 and not outside, 'C13.GLOBALS', 'current-file assigned by the loops', f'{len(loops)} loops bind curr_file; readers outside a loop: {outside}',
              f'{PARSER}:{pf.lineno}')
    guard = any(isinstance(n, ast.If) and cn(n.test) in (cc('not input_files'), cc('len(input_files) == 0')) and isinstance(n.body[0], ast.Raise) for n in pm.body)
    rep.check(guard, 'C13.GLOBALS', 'non-empty file list', 'an empty list is rejected, so the loops run at least once before exit_if_errors reads curr_file', f'{PARSER}:{pm.lineno}')


def rule_cache_key(rep: Report, repo: Repo) -> None:
    rep.rule('C13.CACHE-KEY', 'everything the parse of the stl prefix reads - width, warning mode and per file (short name, resolved path, '
             'mtime, size) - is a component of the cache key, and the cache is consulted only with that key', 4)
    ck = repo.func(PARSER, '_stl_cache_key')
    ret = [norm(r.value) for r in ast.walk(ck) if isinstance(r, ast.Return) and r.value is not None and norm(r.value) != 'None']
    # the per-file component: the appended tuple, read through locals and through a module-level helper that builds it (the
    # helper's parameters read as the arguments passed); what is compared is the set of things the key is made of
    app: List[List[str]] = []
    for c in calls(ck):
        if dotted(c.func) != 'files_key.append' or len(c.args) != 1:
            continue
        e = resolve_names(ck, c.args[0], allow_calls=True)
        if isinstance(e, ast.Call) and isinstance(e.func, ast.Name) and repo.has_func(PARSER, e.func.id) and not e.keywords:
            h = repo.func(PARSER, e.func.id)
            hp = param_names(h)
            vals = [r.value for r in walk_no_nested(h) if isinstance(r, ast.Return) and r.value is not None and norm(r.value) != 'None']
            if len(vals) == 1 and len(hp) == len(e.args):
                bind = {p_: a_ for p_, a_ in zip(hp, e.args)}

                class _S(ast.NodeTransformer):
                    def visit_Name(self, node: ast.Name) -> ast.AST:
                        return bind[node.id] if isinstance(node.ctx, ast.Load) and node.id in bind else node
                e = _S().visit(ast.parse(norm(resolve_names(h, vals[0], allow_calls=True)), mode='eval').body)
        app.append(sorted(norm(x) for x in e.elts) if isinstance(e, ast.Tuple) else [norm(e)])
    need = {'short_name', 'str(file_path.resolve())', 'file_path.stat().st_mtime_ns', 'file_path.stat().st_size'}
    rep.check(ret == ['(memory_width, warning_as_errors, tuple(files_key))'] and len(app) == 1 and need <= set(app[0]),
              'C13.CACHE-KEY', 'key components', f'{ret}; per file {app}', f'{PARSER}:{ck.lineno}',
              expected=f'(width, warning mode, files) with per file at least {sorted(need)}')
    loop = [norm(n.iter) for n in ast.walk(ck) if isinstance(n, ast.For)]
    rep.check(loop == ['input_files[:prefix_length]'], 'C13.CACHE-KEY', 'key covers exactly the cached prefix', str(loop), f'{PARSER}:{ck.lineno}')
    init = repo.func(PARSER, 'FJParser.__init__')
    params = [p for p in param_names(init) if p != 'self']
    rep.check(params == ['memory_width', 'warning_as_errors', 'first_file'], 'C13.CACHE-KEY', 'parser inputs', str(params), f'{PARSER}:{init.lineno}',
              expected='width, warning mode, first file (its short name and path are key components)')
    uses = []
    for q, fn in _functions(repo, PARSER):
        for n in walk_no_nested(fn):
            if isinstance(n, ast.Name) and n.id == '_stl_prefix_cache':
                p = getattr(n, '_parent', None)
                uses.append((q, norm(p)[:60] if p is not None else ''))
    ok = all(('[cache_key]' in u or 'cache_key in _stl_prefix_cache' in u or u.startswith('_stl_prefix_cache[cache_key]')) for _, u in uses)
    rep.check(ok and len(uses) >= 3, 'C13.CACHE-KEY', 'cache accesses', str(uses), PARSER, expected='indexed/tested with cache_key only')
    pf = repo.func(PARSER, '_parse_files_into_parser')
    # every value cache_key can take: None, or the key built from all four inputs - the latter only when there is an stl prefix
    key = []
    for st in walk_no_nested(pf):
        if isinstance(st, ast.Assign) and norm(st.targets[0]) == 'cache_key':
            v = st.value
            alts = [(v.body, norm(v.test)), (v.orelse, f'not ({norm(v.test)})')] if isinstance(v, ast.IfExp) else [(v, None)]
            for e, cond in alts:
                if cond is None:
                    facts = GuardFacts(dominating_guards(st))
                    cond = 'prefix_length' if facts.get('prefix_length') is True else ('not (prefix_length)' if facts.get('prefix_length') is False else '')
                key.append((norm(e), cond))
    want_key = '_stl_cache_key(input_files, prefix_length, memory_width, warning_as_errors)'
    ok_key = (bool(key) and all(k in (want_key, 'None') for k, _ in key) and any(k == want_key for k, _ in key)
              and all(c == 'prefix_length' for k, c in key if k == want_key))
    rep.check(ok_key, 'C13.CACHE-KEY', 'key construction', str(key), f'{PARSER}:{pf.lineno}',
              expected='the key of all four inputs when there is an stl prefix, None otherwise')


def rule_cache_alias(rep: Report, repo: Repo) -> None:
    rep.rule('C13.CACHE-ALIAS', 'the snapshot stores fresh containers; the restore hands the parser freshly constructed containers and a '
             'fresh main Macro whose op list is rebuilt from the SNAPSHOTTED list (the cached Macro object is later extended by user files)', 3)
    def fresh_copy_of(e: ast.AST) -> Optional[str]:
        """the expression a shallow-copy idiom copies: dict(x) / list(x) / tuple(x) / set(x) / x.copy() / copy.copy(x) / x[:] /
        {**x} / [*x]; None when e is not a fresh container built from exactly one source."""
        if isinstance(e, ast.Call) and dotted(e.func) in ('dict', 'list', 'tuple', 'set', 'copy.copy') and len(e.args) == 1 and not e.keywords:
            return norm(e.args[0])
        if isinstance(e, ast.Call) and isinstance(e.func, ast.Attribute) and e.func.attr == 'copy' and not e.args and not e.keywords:
            return norm(e.func.value)
        if isinstance(e, ast.Subscript) and isinstance(e.slice, ast.Slice) and e.slice.lower is None and e.slice.upper is None and e.slice.step is None:
            return norm(e.value)
        if isinstance(e, ast.Dict) and e.keys == [None] and len(e.values) == 1:
            return norm(e.values[0])
        if isinstance(e, ast.List) and len(e.elts) == 1 and isinstance(e.elts[0], ast.Starred):
            return norm(e.elts[0].value)
        return None
    sn = repo.func(PARSER, '_snapshot_parser_to_cache')
    vals = [s.value for s in sn.body if isinstance(s, ast.Assign)]
    srcs = [fresh_copy_of(x) for x in vals[0].elts] if len(vals) == 1 and isinstance(vals[0], ast.Tuple) else []
    rep.check(srcs == ['parser.consts', 'parser.macros', 'parser.macros[INITIAL_MACRO_NAME].ops'], 'C13.CACHE-ALIAS', 'snapshot',
              str([norm(v) for v in vals]), f'{PARSER}:{sn.lineno}', expected='fresh copies of consts, macros and the main macro\'s op list')
    rs = repo.func(PARSER, '_restore_parser_from_cache')
    assign_nodes = {norm(s.targets[0]): s.value for s in rs.body if isinstance(s, ast.Assign)}
    assigns = {k: norm(v) for k, v in assign_nodes.items()}
    rep.check(fresh_copy_of(assign_nodes.get('parser.consts', ast.Constant(0))) == 'cached_consts'
              and fresh_copy_of(assign_nodes.get('parser.macros', ast.Constant(0))) == 'cached_macros', 'C13.CACHE-ALIAS',
              'restore:containers', str({k: v for k, v in assigns.items() if k.startswith('parser.') and '[' not in k}), f'{PARSER}:{rs.lineno}')
    mn = assign_nodes.get('parser.macros[INITIAL_MACRO_NAME]')
    main = assigns.get('parser.macros[INITIAL_MACRO_NAME]', '')
    ok_main = (isinstance(mn, ast.Call) and dotted(mn.func) == 'Macro' and len(mn.args) >= 3
               and [fresh_copy_of(a) for a in mn.args[:3]] == ['cached_main_macro.params', 'cached_main_macro.local_params', 'cached_main_ops'])
    rep.check(ok_main, 'C13.CACHE-ALIAS', 'restore:main-macro', main, f'{PARSER}:{rs.lineno}',
              expected='a new Macro with a fresh copy of cached_main_ops - not the cached Macro\'s own (polluted) list')
    pf = repo.func(PARSER, '_parse_files_into_parser')
    snap = [n for n in walk_no_nested(pf) if isinstance(n, ast.If) and any(isinstance(c, ast.Call) and dotted(c.func) == '_snapshot_parser_to_cache' for c in ast.walk(n))]
    rep.check(len(snap) == 1 and norm(snap[0].test) == 'cache_key is not None and file_index == prefix_length - 1', 'C13.CACHE-ALIAS', 'snapshot point',
              norm(snap[0].test) if snap else 'missing', f'{PARSER}:{pf.lineno}', expected='right after the last prefix file, before any user file is parsed')


def _fresh_constructor_return(fn: ast.FunctionDef, cls: str) -> bool:
    """every return of fn returns a local that was assigned from cls(...) in fn (a freshly constructed object)."""
    fresh = {norm(s.targets[0]) for s in walk_no_nested(fn) if isinstance(s, ast.Assign) and isinstance(s.value, ast.Call) and dotted(s.value.func) == cls}
    rets = [r for r in walk_no_nested(fn) if isinstance(r, ast.Return)]
    return bool(rets) and all((isinstance(r.value, ast.Call) and dotted(r.value.func) == cls) or norm(r.value) in fresh for r in rets)


def rule_immut(rep: Report, repo: Repo) -> None:
    rep.rule('C13.IMMUT', 'objects reachable from the (cached, shared) parse result are never mutated by an assembly: attribute stores '
             'outside constructors happen only on objects that are provably fresh in the mutating context; the share-or-clone eval_new '
             'methods stay mutation free; Expr.value is never stored to', 6)
    sites = []
    for rel in (OPS, EXPR, PRE, ASM):
        for q, fn in _functions(repo, rel):
            if q.endswith('__init__'):
                continue
            for n in walk_no_nested(fn):
                if isinstance(n, ast.Attribute) and isinstance(n.ctx, ast.Store):
                    recv = norm(n.value)
                    if recv.startswith(('self.', 'preprocessor_data.')) and rel in (PRE, ASM):
                        continue       # the preprocessor's / emitter's own per-assembly state objects
                    if rel in (PRE, ASM) and recv in ('self', 'preprocessor_data', 'binary_data'):
                        continue
                    sites.append((rel, q, recv, n.attr, n.lineno))
    # a store on a local that the same function has just constructed (`x = Cls(..)`; x.attr = ..) touches a fresh object and
    # needs no entry; every other store must be one of the two reviewed sites, which the checks below tie to a cloned rep op
    def fresh_local(rel: str, q: str, recv: str) -> bool:
        fn = repo.func(rel, q)
        defs = [s_.value for s_ in walk_no_nested(fn) if isinstance(s_, ast.Assign) and len(s_.targets) == 1 and norm(s_.targets[0]) == recv]
        return bool(defs) and all(isinstance(v, ast.Call) and isinstance(v.func, ast.Name) and v.func.id[:1].isupper() for v in defs)
    want = {('RepCall.calculate_times', 'self', 'repeat_times'), ('resolve_macro_aux', 'op', 'current_index')}
    got = {(q, recv, attr) for rel_, q, recv, attr, _ in sites if not fresh_local(rel_, q, recv)}
    n_fresh = sum(1 for rel_, q, recv, attr, _ in sites if fresh_local(rel_, q, recv))
    rep.check(got == want, 'C13.IMMUT', 'mutation-site inventory', f'unexpected {sorted(got - want)}; missing {sorted(want - got)}; {n_fresh} store(s) on freshly '
              'constructed locals', OPS, expected='only the two reviewed sites besides stores on objects constructed in the same function')
    from ..pyfacts import expand_private_calls
    ev = expand_private_calls(repo, OPS, repo.func(OPS, 'RepCall.eval_new'), 'RepCall', depth=2)
    rn = expand_private_calls(repo, OPS, repo.func(OPS, 'RepCall.rename_iterator'), 'RepCall', depth=2)
    rep.check(_fresh_constructor_return(ev, 'RepCall') and _fresh_constructor_return(rn, 'RepCall'), 'C13.IMMUT', 'RepCall clones are fresh',
              'eval_new and rename_iterator always return a newly constructed RepCall', f'{OPS}:{ev.lineno}')
    # in resolve_macro_aux the mutated `op` is the result of rename_iterator(...).eval_new(...)
    from .c02 import _isinstance_chain
    rm = repo.func(PRE, 'resolve_macro_aux')
    chain, _ = _isinstance_chain(rm, 'op')
    rc = [b for t, b in chain if t == {'RepCall'}][0]
    re_assign = [s.lineno for s in rc if isinstance(s, ast.Assign) and norm(s.targets[0]) == 'op' and isinstance(s.value, ast.Call)
                 and dotted(s.value.func) in ('op.rename_iterator', 'op.eval_new')]
    muts = [n.lineno for s in rc for n in ast.walk(s) if (isinstance(n, ast.Attribute) and isinstance(n.ctx, ast.Store) and norm(n.value) == 'op')
            or (isinstance(n, ast.Call) and dotted(n.func) == 'get_rep_times')]
    rep.check(len(re_assign) == 2 and bool(muts) and max(re_assign) < min(muts), 'C13.IMMUT', 'rep op mutated only after cloning',
              f'clones at lines {re_assign}, mutations at {muts}', f'{PRE}:{rc[0].lineno}')
    gt = repo.func(PRE, 'get_rep_times')
    rep.check(any(norm(c) == 'op.calculate_times(preprocessor_data.labels)' for c in calls(gt)), 'C13.IMMUT', 'calculate_times receiver', 'called on the cloned op', f'{PRE}:{gt.lineno}')
    for cls in ('FlipJump', 'WordFlip'):
        fn = repo.func(OPS, f'{cls}.eval_new')
        stores = [norm(n) for n in walk_no_nested(fn) if isinstance(n, (ast.Attribute, ast.Subscript)) and isinstance(getattr(n, 'ctx', None), ast.Store)]
        rep.check(not stores, 'C13.IMMUT', f'{cls}.eval_new mutation-free', f'stores: {stores}', f'{OPS}:{fn.lineno}', expected='may return self, so it must not write')
    en = repo.func(EXPR, 'Expr.eval_new')
    stores = [norm(n) for n in walk_no_nested(en) if isinstance(n, ast.Attribute) and isinstance(n.ctx, ast.Store)]
    rep.check(not stores, 'C13.IMMUT', 'Expr.eval_new mutation-free', f'stores: {stores}', f'{EXPR}:{en.lineno}')
    # constant tables are never written
    tw = [f'{rel}:{n.lineno}' for rel in PIPELINE for n in ast.walk(repo.mod(rel)) if isinstance(n, ast.Subscript) and isinstance(n.ctx, (ast.Store, ast.Del))
          and norm(n.value) in ('op_string_to_function', 'char_escape_dict')]
    rep.check(not tw, 'C13.IMMUT', 'constant tables not written', str(tw), EXPR)
    # main macro accumulation happens on the parser's own (fresh) Macro
    prog = repo.func(PARSER, 'FJParser.program')
    rep.check([norm(s) for s in prog.body if isinstance(s, ast.AugAssign)] == ['self.macros[INITIAL_MACRO_NAME].ops += ops'], 'C13.IMMUT', 'main macro accumulation',
              'on the parser\'s own main macro (fresh per assembly: constructor or restore)', f'{PARSER}:{prog.lineno}')


def rule_reclimit(rep: Report, repo: Repo) -> None:
    rep.rule('C13.RECLIMIT', 'the interpreter recursion limit set per assembly is a pure function of the call\'s parameter and constants', 1)
    pinit = repo.func(PRE, 'PreprocessorData.__init__')
    lim = [norm(c.args[0]) for c in calls(pinit) if dotted(c.func) == 'sys.setrecursionlimit']
    getl = [1 for rel in PIPELINE for c in calls(repo.mod(rel)) if dotted(c.func) == 'sys.getrecursionlimit']
    rep.check(lim == ['max_recursion_depth + GAP_BETWEEN_PYTHONS_AND_PREPROCESSOR_MACRO_RECURSION_DEPTH'] and not getl, 'C13.RECLIMIT', 'setrecursionlimit',
              f'{lim}; getrecursionlimit uses: {len(getl)}', f'{PRE}:{pinit.lineno}', expected='parameter + constant, unconditionally')


def rule_nondet(rep: Report, repo: Repo) -> None:
    rep.rule('C13.NONDET', 'no value derived from set iteration order, time, random, id/hash, the environment or the process id flows into '
             'ops, labels, Writer data or the label file: such sources are absent from the pipeline modules, and sets are iterated only '
             'to build other sets or message strings', 3)
    banned = []
    for rel in PIPELINE + [FUNCS]:
        for n in ast.walk(repo.mod(rel)):
            if isinstance(n, (ast.Import, ast.ImportFrom)):
                mods = [a.name for a in n.names] if isinstance(n, ast.Import) else [n.module or '']
                for m in mods:
                    if m.split('.')[0] in ('random', 'time', 'uuid', 'secrets', 'datetime'):
                        banned.append(f'{rel}: import {m}')
            if isinstance(n, ast.Call) and dotted(n.func) in ('id', 'hash', 'os.getpid', 'getpid'):
                fn = enclosing_func(n)
                if fn is not None and fn.name == '__hash__':
                    continue
                banned.append(f'{rel}:{n.lineno} {dotted(n.func)}()')
            if isinstance(n, ast.Attribute) and norm(n) in ('os.environ',):
                banned.append(f'{rel}:{n.lineno} os.environ')
    rep.check(not banned, 'C13.NONDET', 'no nondeterministic sources', str(banned), PARSER, expected='none in the assembly pipeline')
    # stat fields are used for the cache key only
    st_uses = [(q, n.lineno) for q, fn in _functions(repo, PARSER) for n in walk_no_nested(fn) if isinstance(n, ast.Attribute) and n.attr in ('st_mtime_ns', 'st_size', 'st_mtime')]
    # ... _stl_cache_key itself, or a module-level helper called from nowhere but there
    key_only = {'_stl_cache_key'}
    for _ in range(3):
        for q, fn in _functions(repo, PARSER):
            if '.' in q or q in key_only:
                continue
            sites = [q2 for q2, f2 in _functions(repo, PARSER) for c in calls(f2) if dotted(c.func) == q]
            refs = [n for n in ast.walk(repo.mod(PARSER)) if isinstance(n, ast.Name) and n.id == q and isinstance(n.ctx, ast.Load)]
            if sites and all(s_ in key_only for s_ in sites) and len(refs) == len(sites):
                key_only.add(q)
    rep.check(all(q in key_only for q, _ in st_uses) and bool(st_uses), 'C13.NONDET', 'file stat fields', str(st_uses), PARSER,
              expected=f'only inside _stl_cache_key (and its private helpers {sorted(key_only - {"_stl_cache_key"})})')
    # iteration over sets
    bad = []
    n_iter = 0
    for rel in (PARSER, OPS, PRE, ASM):
        for q, fn in _functions(repo, rel):
            setnames = {a.arg for a in fn.args.args + fn.args.kwonlyargs if a.annotation is not None and norm(a.annotation).startswith(('Set[', 'set'))}
            for s in walk_no_nested(fn):
                if isinstance(s, ast.Assign) and isinstance(s.targets[0], ast.Name):
                    v = s.value
                    if isinstance(v, (ast.Set, ast.SetComp)) or (isinstance(v, ast.Call) and dotted(v.func) in ('set', 'frozenset')) or \
                            (isinstance(v, ast.BinOp) and isinstance(v.op, (ast.Sub, ast.BitAnd, ast.BitOr)) and any(isinstance(x, ast.Name) and x.id in setnames for x in ast.walk(v))) or \
                            (isinstance(v, ast.Call) and dotted(v.func).split('.')[-1] in ('union', 'intersection', 'difference')):
                        setnames.add(s.targets[0].id)
            for n in walk_no_nested(fn):
                iters = []
                if isinstance(n, ast.For):
                    iters = [(n.iter, n)]
                elif isinstance(n, (ast.ListComp, ast.GeneratorExp, ast.DictComp)):
                    iters = [(g.iter, n) for g in n.generators]
                for it, holder in iters:
                    root = it
                    while isinstance(root, (ast.Attribute, ast.Subscript, ast.Call)):
                        root = root.func if isinstance(root, ast.Call) else root.value
                    if not (isinstance(root, ast.Name) and root.id in setnames and isinstance(it, ast.Name)):
                        continue
                    n_iter += 1
                    p = getattr(holder, '_parent', None)
                    ok = isinstance(p, ast.Call) and (dotted(p.func) in ('set', 'frozenset', 'sorted', 'any', 'all') or dotted(p.func).split('.')[-1] in ('join', 'union', 'update', 'intersection', 'difference'))
                    if isinstance(holder, ast.For):
                        cs = {dotted(c.func) for st in holder.body for c in ast.walk(st) if isinstance(c, ast.Call)}
                        ok = cs <= {'syntax_error', 'syntax_warning', 'seen_ids.add', 'print'} and bool(cs)
                    if not ok:
                        bad.append(f'{rel}:{getattr(holder, "lineno", 0)} {q}: iterates set {norm(it)}')
    rep.check(not bad, 'C13.NONDET', 'set iteration', f'{n_iter} iterations over sets; order-sensitive: {bad}', PARSER,
              expected='sets are iterated only into other sets / sorted() / message strings')


def rule_snapshot_point(rep: Report, repo: Repo) -> None:
    """WHEN the prefix cache is written: folded on concrete file lists, cold and warm"""
    rep.rule('C13.SNAPSHOT-POINT', 'the stl-prefix snapshot is taken only while the parser holds exactly the prefix files: the file loop of '
             '_parse_files_into_parser is folded on concrete cases (prefix length x number of user files x cold / warm cache), the calls '
             'are recorded in order, and (a) every input file is parsed exactly once and in order, except the prefix on a warm run, which '
             'is restored instead; (b) every snapshot happens when restored + parsed == prefix length; (c) a cold run with a prefix takes '
             'exactly one snapshot', 1)
    from ..pyfold import CantFold, Opaque, fold_fn
    fn = repo.func(PARSER, '_parse_files_into_parser')
    mod = repo.mod(PARSER)
    top_names = {t.id for st in mod.body if isinstance(st, (ast.Assign, ast.AnnAssign)) for t in (st.targets if isinstance(st, ast.Assign) else [st.target])
                 if isinstance(t, ast.Name)}
    snap_fns: Dict[str, str] = {}
    for d in mod.body:
        if isinstance(d, ast.FunctionDef):
            for a in ast.walk(d):
                if isinstance(a, ast.Assign) and any(isinstance(t, ast.Subscript) and isinstance(t.value, ast.Name) and t.value.id in top_names for t in a.targets):
                    snap_fns[d.name] = next(t.value.id for t in a.targets if isinstance(t, ast.Subscript) and isinstance(t.value, ast.Name))   # type: ignore[union-attr]
    called = {dotted(c.func) for c in calls(fn)}
    snaps = {n for n in snap_fns if n in called}
    caches = {snap_fns[n] for n in snaps}
    if len(snaps) != 1 or len(caches) != 1:
        raise AnalysisError(f'C13.SNAPSHOT-POINT: the snapshot writer called by _parse_files_into_parser was not identified ({sorted(snaps)})')
    cache = next(iter(caches))
    parse_fns = {d.name for d in mod.body if isinstance(d, ast.FunctionDef) and d.name in called
                 and any(isinstance(c, ast.Call) and isinstance(c.func, ast.Attribute) and c.func.attr == 'parse' for c in ast.walk(d))}
    if len(parse_fns) != 1:
        raise AnalysisError(f'C13.SNAPSHOT-POINT: the per-file parse step was not identified ({sorted(parse_fns)})')
    # the name the loops bind the current path to: the last name of the loop targets over the file list
    path_names = set()
    for lp in ast.walk(fn):
        if isinstance(lp, ast.For):
            nm = [n.id for n in ast.walk(lp.target) if isinstance(n, ast.Name)]
            if nm:
                path_names.add(nm[-1])
    files_param = next((a.arg for a in fn.args.args if 'List' in ast.unparse(a.annotation or ast.Constant(value='')) and 'Tuple' in ast.unparse(a.annotation or ast.Constant(value=''))), None)
    if files_param is None or len(path_names) != 1:
        raise AnalysisError('C13.SNAPSHOT-POINT: the file list parameter / the loop variable of the current path was not identified')
    path_name = next(iter(path_names))
    bad: List[str] = []
    n_cases = 0
    for P in (0, 1, 2, 3):
        for U in (0, 1, 2, 3, 4, 5):
            for warm in (False, True):
                files = [(f's{i}', f'F{i}') for i in range(P + U)]
                env: Dict[str, Any] = {cache: ({'KEY': 'CACHED'} if warm else {})}
                ev: List[Tuple[str, Any]] = []

                def on_call(d: str, vals: List[Any], kws: Dict[str, Any]) -> Any:
                    if d in snaps:
                        ev.append(('snap', sum(P for k, _ in ev if k == 'restore') + sum(1 for k, _ in ev if k == 'parse')))
                        return None
                    if d in parse_fns:
                        ev.append(('parse', env.get(path_name)))
                        return None
                    if any(v == 'CACHED' for v in vals):
                        ev.append(('restore', None))
                        return None
                    if vals and vals[0] is files:
                        return P if len(vals) == 1 else 'KEY'
                    if d == 'set':
                        return Opaque('set')
                    return Opaque(d) if d not in ('range', 'len', 'enumerate') else NotImplemented
                argv = [files if a.arg == files_param else (64 if 'width' in a.arg else Opaque(a.arg)) for a in fn.args.args]
                try:
                    fold_fn(repo, PARSER, fn, argv, on_call, env=env)
                except CantFold as ex:
                    raise AnalysisError(f'C13.SNAPSHOT-POINT: _parse_files_into_parser could not be folded (prefix {P}, user files {U}, warm={warm}): {ex}')
                n_cases += 1
                hit = warm and P > 0
                parsed = [v for k, v in ev if k == 'parse']
                want = [f'F{i}' for i in range(P if hit else 0, P + U)]
                snaps_at = [v for k, v in ev if k == 'snap']
                restores = sum(1 for k, _ in ev if k == 'restore')
                problem = None
                if parsed != want:
                    problem = f'parses {parsed}, expected {want}'
                elif restores != int(hit):
                    problem = f'{restores} restores'
                elif any(v != P for v in snaps_at):
                    problem = f'snapshot taken with {snaps_at} files in the parser, the prefix has {P}'
                elif not hit and P > 0 and len(snaps_at) != 1:
                    problem = f'{len(snaps_at)} snapshots on a cold run'
                elif P == 0 and snaps_at:
                    problem = 'snapshot without a prefix'
                if problem and len(bad) < 3:
                    bad.append(f'prefix {P} + {U} user files, {"warm" if warm else "cold"} cache: {problem}')
    rep.check(not bad, 'C13.SNAPSHOT-POINT', '_parse_files_into_parser', '; '.join(bad) if bad else f'{n_cases} folded cases: files parsed once and in order, snapshot only at the prefix boundary',
              f'{PARSER}:{fn.lineno} _parse_files_into_parser', expected='snapshot exactly when restored + parsed == prefix length')


def check(rep: Report, repo: Optional[Repo] = None) -> None:
    repo = repo or Repo()
    rep.units = dict(files=PIPELINE, globals=sorted(KNOWN_GLOBALS))
    rule_globals(rep, repo)
    rule_interpreter_state(rep, repo)
    rule_cache_valid(rep, repo)
    rule_cache_key(rep, repo)
    rule_cache_alias(rep, repo)
    rule_snapshot_point(rep, repo)
    rule_immut(rep, repo)
    rule_reclimit(rep, repo)
    rule_nondet(rep, repo)
    rep.assumptions.append('dict iteration order is insertion order (CPython >= 3.7), so label/macro dictionaries are deterministic')


MANIFEST = dict(
    technique='reaching-definition rules for process globals; cache-key coverage; ownership/freshness of mutated objects; effect scan; syntax-tree folding of the cached file loop on concrete cases (snapshot point)',
    level_text='Static: every parser global is (re)assigned on the current call\'s path before its readers can run, including the '
               'cache-hit path; the cache key covers every input the prefix parse reads and is the only index into the cache; '
               'snapshot/restore never alias mutable state; the five mutation sites on op objects act on freshly cloned objects while '
               'the share-or-clone methods stay mutation free; the recursion limit is a pure function of the argument; no '
               'nondeterministic source or set-order dependence reaches the outputs.',
    level_note='Trusted: CPython ast. Assumes insertion-ordered dicts (language guarantee).',
    design_ref='DESIGN.md section 4 C13',
)
