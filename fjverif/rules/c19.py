"""C19 - devices see the same program memory under every engine (adapter/route agreement, screen tables)."""
from __future__ import annotations

import ast
import re
from typing import Any, Dict, List, Optional, Set, Tuple

from ..cfacts import CUnit
from ..core import AnalysisError, Report
from ..pyfacts import Repo, ancestors, clone, inline_pure_helpers, inline_module_constants, inlined_statements, calls, dotted, norm, raise_guards, raised_class, walk_no_nested
from ..pyfacts import resolve_names as _rn

DM = 'flipjump/interpreter/io_devices/device_memory.py'
SC = 'flipjump/interpreter/io_devices/ScreenIO.py'
RUN = 'flipjump/interpreter/fjm_run.py'
RUNLIB = 'flipjump/stl/runlib.fj'


def device_accessor_formulas(repo: Repo) -> Tuple[List[str], List[str]]:
    """(read_data_byte, write_data_byte) of the base adapter as statement texts with named temporaries, private helper methods /
    properties / module functions and lifted module constants substituted: the arithmetic on op_bit_address, memory_width, value."""
    def flat(fn: Any) -> List[str]:
        f2 = fn
        for _ in range(2):
            f2 = inline_pure_helpers(repo, DM, 'DeviceMemory', f2, keep=['_require_byte_capable_width'])
            f2 = clone(f2)
            f2.body = [inline_module_constants(repo, DM, st) for st in f2.body]          # type: ignore[arg-type]
        return [b for b in inlined_statements(f2) if not b.startswith('self._require_byte_capable_width')]
    return flat(repo.func(DM, 'DeviceMemory.read_data_byte')), flat(repo.func(DM, 'DeviceMemory.write_data_byte'))


def rule_adapters(rep: Report, repo: Repo) -> None:
    rep.rule('C19.ADAPTERS', 'both memory adapters mask written values to w bits and read never-written words as 0; the packed-byte '
             'helpers exist once, in the base class, on top of read_word/write_word', 5)
    MASK = '(1 << self.memory_width) - 1'
    rr = repo.func(DM, 'ReaderDeviceMemory.read_word')
    body = inlined_statements(inline_pure_helpers(repo, DM, 'ReaderDeviceMemory', rr))
    rep.check(body == [f'return self._reader.memory.get(word_address & {MASK}, 0)'], 'C19.ADAPTERS', 'ReaderDeviceMemory.read_word', str(body),
              f'{DM}:{rr.lineno}', expected='dictionary read with default 0 at the masked address')
    rw = repo.func(DM, 'ReaderDeviceMemory.write_word')
    body = inlined_statements(inline_pure_helpers(repo, DM, 'ReaderDeviceMemory', rw))
    rep.check(body == [f'self._reader.memory[word_address & {MASK}] = value & {MASK}'], 'C19.ADAPTERS',
              'ReaderDeviceMemory.write_word', str(body), f'{DM}:{rw.lineno}', expected='masked address, masked value')
    nw = repo.func(DM, 'NativeDeviceMemory.write_word')
    body = inlined_statements(inline_pure_helpers(repo, DM, 'NativeDeviceMemory', nw))
    rep.check(body == [f'self._core_memory.set_word(word_address, value & {MASK})'], 'C19.ADAPTERS', 'NativeDeviceMemory.write_word',
              str(body), f'{DM}:{nw.lineno}')
    nr = repo.func(DM, 'NativeDeviceMemory.read_word')
    body = inlined_statements(inline_pure_helpers(repo, DM, 'NativeDeviceMemory', nr))
    rep.check(body == ['return int(self._core_memory.get_word(word_address))'], 'C19.ADAPTERS', 'NativeDeviceMemory.read_word', str(body), f'{DM}:{nr.lineno}')
    # the packed-byte accessors exist once, in the base class, on top of read_word / write_word
    helpers = {'read_data_byte', 'write_data_byte'}
    base = set(repo.methods(DM, 'DeviceMemory'))
    over = (set(repo.methods(DM, 'ReaderDeviceMemory')) | set(repo.methods(DM, 'NativeDeviceMemory'))) & (helpers | {m for m in base if m.startswith('_')})
    rep.check(helpers <= base and not over, 'C19.ADAPTERS', 'packed-byte-helpers', f'in base: {sorted(helpers & base)}; overridden: {sorted(over)}', DM)
    rd = repo.func(DM, 'DeviceMemory.read_data_byte')
    wd = repo.func(DM, 'DeviceMemory.write_data_byte')
    # named temporaries, private helper methods / properties / module functions and lifted literals are substituted before the
    # formulas are compared: what is left is the arithmetic on op_bit_address, memory_width and value
    JW = '(op_bit_address >> self.memory_width.bit_length() - 1) + 1'
    OFF = 'self.memory_width.bit_length()'
    r_body, w_body = device_accessor_formulas(repo)
    r_ok = r_body == [f'return self.read_word({JW}) >> {OFF} & 255']
    w_ok = w_body == [f'self.write_word({JW}, self.read_word({JW}) & ~(255 << {OFF}) | (value & 255) << {OFF})']
    rep.check(r_ok and w_ok, 'C19.ADAPTERS', 'packed-byte-formula', f'read ok={r_ok}, write ok={w_ok}' + ('' if r_ok and w_ok else f': {r_body} / {w_body}'),
              f'{DM}:{rd.lineno}', expected='bits #w..#w+7 of the jump word (word (addr >> log2 w) + 1); write preserves the other bits')


def rule_attach(rep: Report, repo: Repo) -> None:
    rep.rule('C19.ATTACH', 'every engine branch of run() attaches its own memory adapter to the device before the loop starts', 3)
    # must-dataflow over the CFG of run(): on every path that reaches a Python loop the device already has the Reader adapter
    # attached (whatever the branch order / nesting / naming of the engine selection); the native branch attaches its own
    from ..pycfg import build_py_cfg, must_dataflow
    run = repo.func(RUN, 'run')
    g = build_py_cfg(run)

    def calls_in(node: Any) -> List[ast.Call]:
        a = node.ast
        if not isinstance(a, ast.AST) or node.kind in ('entry', 'exit', 'join'):
            return []
        if isinstance(a, (ast.If, ast.While)):
            a = a.test
        elif isinstance(a, (ast.Try, ast.With, ast.For, ast.FunctionDef)):
            return []
        return [c for c in ast.walk(a) if isinstance(c, ast.Call)]

    def gen_kill(node: Any, lab: Optional[str]) -> Tuple[Set[str], Set[str]]:
        for c in calls_in(node):
            if dotted(c.func) == 'io_device.attach_memory' and c.args and norm(c.args[0]) == 'ReaderDeviceMemory(mem)':
                return {'reader-adapter'}, set()
            if dotted(c.func) == 'io_device.attach_memory':
                return set(), {'reader-adapter'}
        return set(), set()
    IN = must_dataflow(g, g.entry, gen_kill)
    seen_loops: Dict[str, bool] = {}
    for node in g.nodes:
        for c in calls_in(node):
            d = dotted(c.func)
            if d in ('_run_featured', '_run_fast'):
                gen, _ = gen_kill(node, None)
                ok_here = 'reader-adapter' in (IN.get(node.id) or frozenset())
                seen_loops[d] = seen_loops.get(d, True) and ok_here
            if d == '_run_native':
                seen_loops[d] = True
    names = sorted(seen_loops.items())
    rep.check(set(seen_loops) == {'_run_featured', '_run_fast', '_run_native'} and all(seen_loops.values()), 'C19.ATTACH', 'run:python-engines',
              f'adapter attached on every path to each Python loop: {names}', f'{RUN}:{run.lineno}',
              expected='attach ReaderDeviceMemory(mem) before each Python loop')
    rn = repo.func(RUN, '_run_native')
    lines = {dotted(c.func): c.lineno for c in calls(rn) if dotted(c.func) in ('io_device.attach_memory', 'core.run', 'core.set_words', 'core.add_segment')}
    att = [norm(_rn(rn, c.args[0], allow_calls=True, keep=('core', 'mem'))) for c in calls(rn) if dotted(c.func) == 'io_device.attach_memory']      # `w = mem.memory_width` read through
    ok = att == ['NativeDeviceMemory(core, mem.memory_width)'] and lines.get('core.add_segment', 0) < lines.get('io_device.attach_memory', 0) < lines.get('core.run', 0) \
        and lines.get('core.set_words', 0) < lines.get('io_device.attach_memory', 0)
    rep.check(ok, 'C19.ATTACH', '_run_native', f'{att} at line {lines.get("io_device.attach_memory")} (load before, run after)', f'{RUN}:{rn.lineno}')
    # `core` is bound exactly once, to a _fjcore.Memory built for the reader's width; the adapter and the run use that name
    core_defs = [s.value for s in ast.walk(rn) if isinstance(s, ast.Assign) and len(s.targets) == 1 and norm(s.targets[0]) == 'core']
    same_core = (len(core_defs) == 1 and isinstance(core_defs[0], ast.Call) and dotted(core_defs[0].func) == '_fjcore.Memory'
                 and bool(core_defs[0].args) and norm(_rn(rn, core_defs[0].args[0], keep=('mem',))) == 'mem.memory_width')
    rep.check(same_core, 'C19.ATTACH', '_run_native:same-core', 'the adapter wraps the Memory object that runs', f'{RUN}:{rn.lineno}')


def parse_screen_doc(doc: str) -> Dict[int, Tuple[str, List[Tuple[str, Any]]]]:
    """`[0x01][width:2][height:2]...   name` lines -> code -> (name, [(field, size|'w/8'|'pixels')])"""
    out: Dict[int, Tuple[str, List[Tuple[str, Any]]]] = {}
    for line in doc.splitlines():
        m = re.match(r'\s*\[(0x[0-9a-fA-F]+)\]((?:\[[^\]]+\])+)\s+(\w+)', line)
        if not m:
            continue
        fields: List[Tuple[str, Any]] = []
        for f in re.findall(r'\[([^\]]+)\]', m.group(2)):
            if ':' in f:
                nm, sz = f.split(':')
                fields.append((nm.strip(), int(sz) if sz.strip().isdigit() else sz.strip()))
            else:
                fields.append((f.strip(), 'pixels'))
        out[int(m.group(1), 16)] = (m.group(3), fields)
    return out


def rule_screen_tables(rep: Report, repo: Repo) -> None:
    rep.rule('C19.SCREEN-TABLES', 'per screen command three tables agree: the documented layout (parsed from the module docstring), the '
             'command length, and the decoder (field offsets/sizes tile the payload exactly, little-endian); every CMD_* constant is '
             'in all three', 11)
    doc = parse_screen_doc(ast.get_docstring(repo.mod(SC)) or '')
    consts = {k: repo.const(SC, k) for k in repo.module_assigns(SC) if k.startswith('CMD_')}
    rep.check(sorted(consts.values()) == sorted(doc), 'C19.SCREEN-TABLES', 'command-codes', f'constants {consts}; documented {sorted(doc)}', SC)
    byname = {v: k for k, v in consts.items()}
    # _command_length: return expressions per command
    cl = repo.func(SC, 'InMemoryScreen._command_length')
    lengths: Dict[str, str] = {}
    for n in cl.body:
        if isinstance(n, ast.If):
            names = [x.id for x in ast.walk(n.test) if isinstance(x, ast.Name) and x.id.startswith('CMD_')]
            ret = [norm(r.value) for r in ast.walk(n) if isinstance(r, ast.Return)]
            for nm in names:
                lengths[nm] = ret[0] if ret else '?'
    # _execute_command: consumed (offset, size) per command
    ex = repo.func(SC, 'InMemoryScreen._execute_command')
    consumed: Dict[str, List[Tuple[int, Any]]] = {}
    cur: Any = [s for s in ex.body if isinstance(s, ast.If)][0]
    while True:
        names = [x.id for x in ast.walk(cur.test) if isinstance(x, ast.Name) and x.id.startswith('CMD_')]
        uses: List[Tuple[int, Any]] = []
        for c in [c for s in cur.body for c in ast.walk(s) if isinstance(c, (ast.Call, ast.Subscript))]:
            if isinstance(c, ast.Call) and dotted(c.func) == 'self._u16' and norm(c.args[0]) == 'payload':
                uses.append((c.args[1].value, 2))            # type: ignore[attr-defined]
            elif isinstance(c, ast.Call) and dotted(c.func) == 'self._read_address' and norm(c.args[0]) == 'payload':
                uses.append((c.args[1].value, 'w/8'))        # type: ignore[attr-defined]
            elif isinstance(c, ast.Subscript) and norm(c.value) == 'payload' and isinstance(c.slice, ast.Constant):
                uses.append((c.slice.value, 1))
            elif isinstance(c, ast.Call) and dotted(c.func) == 'self._update_screen_raw' and norm(c.args[0]) == 'payload':
                uses.append((0, 'pixels'))
        for nm in names:
            consumed[nm] = sorted(uses, key=lambda t: t[0])
        if len(cur.orelse) == 1 and isinstance(cur.orelse[0], ast.If):
            cur = cur.orelse[0]
        else:
            break
    for code, (name, fields) in sorted(doc.items()):
        cname = byname.get(code, '?')
        # documented length
        parts = ['1'] + [('self._address_bytes()' if s == 'w/8' else ('self.width * self.height' if s == 'pixels' else str(s))) for _, s in fields]
        want_len = ' + '.join(parts)
        rep.check(lengths.get(cname) == want_len, 'C19.SCREEN-TABLES', f'{name}:length', f'{lengths.get(cname)}', f'{SC}:{cl.lineno}', expected=want_len)
        # decoder tiling
        off = 0
        want = []
        for _, s in fields:
            want.append((off, s))
            off = off + s if isinstance(s, int) else off + 10 ** 6
        got = consumed.get(cname)
        # offsets after a symbolic-size field are not comparable numerically; all symbolic fields are last in every layout
        norm_want = [(o if o < 10 ** 6 else None, s) for o, s in want]
        rep.check(got is not None and [(o, s) for o, s in got] == [(o, s) for o, s in norm_want], 'C19.SCREEN-TABLES', f'{name}:decode',
                  f'decoder consumes {got}', f'{SC}:{ex.lineno}', expected=f'{norm_want}')
    u16 = repo.func(SC, 'InMemoryScreen._u16')
    ra = repo.func(SC, 'InMemoryScreen._read_address')
    le = [norm(r.value) for r in ast.walk(u16) if isinstance(r, ast.Return)] == ['payload[offset] | payload[offset + 1] << 8'] and \
        'value |= payload[offset + i] << 8 * i' in norm(ra) and 'range(self._address_bytes())' in norm(ra)
    ab = repo.func(SC, 'InMemoryScreen._address_bytes')
    ab_ok = [norm(r.value) for r in ast.walk(ab) if isinstance(r, ast.Return)] == ['self.device_memory.memory_width // 8']
    rep.check(le and ab_ok, 'C19.SCREEN-TABLES', 'little-endian+address-width', f'little-endian={le}; address bytes = w/8: {ab_ok}', f'{SC}:{u16.lineno}')
    hb = repo.func(SC, 'InMemoryScreen._handle_byte')
    rep.check('len(self._command_buffer) >= self._command_length(self._command_buffer[0])' in norm(hb) and 'command, *payload = self._command_buffer' in norm(hb)
              and 'self._command_buffer = []' in norm(hb), 'C19.SCREEN-TABLES', 'framing', 'a command executes when its documented length has arrived; the buffer restarts',
              f'{SC}:{hb.lineno}')


def rule_screen_reject(rep: Report, repo: Repo) -> None:
    rep.rule('C19.SCREEN-REJECT', 'every explicit raise of the screen device is a device error; unknown commands, rectangle overflow, a '
             'missing init or a missing memory hook are rejected before any index expression that could raise IndexError', 6)
    cls = repo.cls(SC, 'InMemoryScreen')
    raises = [(m.name, raised_class(r)) for m in cls.body if isinstance(m, ast.FunctionDef) for r in ast.walk(m) if isinstance(r, ast.Raise)]
    bad = [x for x in raises if x[1] not in ('IODeviceException', 'IOReadOnEOF')]
    rep.check(not bad and len(raises) >= 7, 'C19.SCREEN-REJECT', 'raise-classes', f'{len(raises)} raises, non-device: {bad}', SC)
    cl = repo.func(SC, 'InMemoryScreen._command_length')
    rep.check(isinstance(cl.body[-1], ast.Raise) and raised_class(cl.body[-1]) == 'IODeviceException', 'C19.SCREEN-REJECT', 'unknown-command',
              'the length lookup ends by rejecting unknown command bytes', f'{SC}:{cl.lineno}')
    # update_rectangle: at every pixel store the rectangle is known to lie inside the screen and the device memory to be attached
    # (facts that dominate the store, whatever nesting / polarity / naming spells them); the stored index is
    # (y + row) * width + (x + col), folded on a grid after the function's named temporaries are substituted
    from ..excflow import GuardFacts, dominating_guards
    from ..pyfacts import calls_in_order, eval_int_expr, inline_pure_temps
    ur = inline_pure_temps(repo.func(SC, 'InMemoryScreen._update_rectangle'))
    stores = [n for n in ast.walk(ur) if isinstance(n, ast.Subscript) and isinstance(n.ctx, ast.Store) and norm(n.value) == 'self.pixel_indices']
    facts_ok = bool(stores)
    idx_wrong: List[str] = []
    for st_ in stores:
        gf = GuardFacts(dominating_guards(st_))
        facts_ok = facts_ok and gf.get('x + rect_width > self.width') is False and gf.get('y + rect_height > self.height') is False \
            and gf.get('self.device_memory is None') is False
        loops = {}
        for a in ancestors(st_):
            if isinstance(a, ast.For) and isinstance(a.target, ast.Name) and isinstance(a.iter, ast.Call) and dotted(a.iter.func) == 'range' and len(a.iter.args) == 1:
                loops[a.target.id] = norm(a.iter.args[0])
        rows = [k for k, v in loops.items() if v == 'rect_height']
        cols = [k for k, v in loops.items() if v == 'rect_width']
        if len(rows) != 1 or len(cols) != 1:
            idx_wrong.append(f'the store is not inside a row loop over range(rect_height) and a column loop over range(rect_width): {loops}')
            continue
        for wv in (5, 8):
            for xv, yv in ((0, 0), (2, 1)):
                for rv, cv in ((0, 0), (1, 2)):
                    try:
                        got = eval_int_expr(st_.slice, {'self.width': wv, 'x': xv, 'y': yv, rows[0]: rv, cols[0]: cv, 'self.height': 9})
                    except AnalysisError as ex:
                        idx_wrong.append(str(ex))
                        break
                    if got != (yv + rv) * wv + (xv + cv):
                        idx_wrong.append(f'width={wv} x={xv} y={yv} row={rv} col={cv}: index {got}')
    order = [dotted(c.func) for c in calls_in_order(ur)]
    init_first = 'self._require_initialized_screen' in order and all(order.index('self._require_initialized_screen') < i_ for i_, d in enumerate(order)
                                                                       if d in ('self._read_packed_bytes', 'self._present'))
    rep.check(facts_ok and init_first, 'C19.SCREEN-REJECT', 'update_rectangle',
              f'inside-the-screen and attached-memory facts dominate every pixel store={facts_ok}; initialisation is required first={init_first}',
              f'{SC}:{ur.lineno}', expected='rectangle overflow, a missing init and a missing memory hook are rejected before any pixel index')
    rep.check(not idx_wrong and bool(stores), 'C19.SCREEN-REJECT', 'update_rectangle:index', idx_wrong[0] if idx_wrong else
              f'{len(stores)} store(s) at (y+row)*width + (x+col), 8 grid cases each', f'{SC}:{ur.lineno}',
              expected='(y+row)*width + (x+col) with row < rect_height, col < rect_width (inside the checked box)')
    for q in ('_update_screen', '_update_screen_raw'):
        f = repo.func(SC, f'InMemoryScreen.{q}')
        order_q = [dotted(c.func) for c in calls_in_order(f)]
        stores_q = [n for n in ast.walk(f) if isinstance(n, (ast.Assign, ast.AugAssign)) and any('self.pixel_indices' in norm(t) for t in
                    (n.targets if isinstance(n, ast.Assign) else [n.target]))]
        first_ok = 'self._require_initialized_screen' in order_q and all(order_q.index('self._require_initialized_screen') < i_ for i_, d in enumerate(order_q)
                                                                         if d in ('self._read_packed_bytes', 'self._present'))
        rep.check(first_ok and bool(stores_q), 'C19.SCREEN-REJECT', q, f'initialisation required before the first memory read / present: {first_ok}',
                  f'{SC}:{f.lineno}')
    # the packed-byte reader refuses to run without an attached memory: at every use of the adapter its absence is excluded
    rp = repo.func(SC, 'InMemoryScreen._read_packed_bytes')
    uses = [n for n in ast.walk(rp) if isinstance(n, ast.Attribute) and norm(n.value) == 'self.device_memory']
    g_ok = bool(uses) and all(GuardFacts(dominating_guards(u)).get('self.device_memory is None') is False for u in uses)
    raises_dev = [raised_class(r) for r in ast.walk(rp) if isinstance(r, ast.Raise)]
    rep.check(g_ok and raises_dev == ['IODeviceException'], 'C19.SCREEN-REJECT', '_read_packed_bytes',
              f'every use of the adapter is dominated by `device_memory is not None`: {g_ok}; raises {raises_dev}', f'{SC}:{rp.lineno}')
    # the palette: 3 * palette_size bytes are read and entry k takes bytes 3k, 3k+1, 3k+2 for k < palette_size (folded on a grid)
    sp = inline_pure_temps(repo.func(SC, 'InMemoryScreen._set_palette'))
    reads_p = [c for c in calls(sp) if dotted(c.func) == 'self._read_packed_bytes' and len(c.args) == 2]
    comps = [c for c in ast.walk(sp) if isinstance(c, ast.ListComp) and len(c.generators) == 1 and isinstance(c.elt, ast.Tuple) and len(c.elt.elts) == 3]
    pal_ok = len(reads_p) == 1 and norm(reads_p[0].args[1]) in ('3 * self.palette_size', 'self.palette_size * 3') and len(comps) == 1 \
        and norm(comps[0].generators[0].iter) == 'range(self.palette_size)' and isinstance(comps[0].generators[0].target, ast.Name)
    if pal_ok:
        kv = comps[0].generators[0].target.id
        for kk in (0, 1, 7):
            for pos_, e in enumerate(comps[0].elt.elts):
                if not (isinstance(e, ast.Subscript)):
                    pal_ok = False
                    continue
                try:
                    pal_ok = pal_ok and eval_int_expr(e.slice, {kv: kk}) == 3 * kk + pos_
                except AnalysisError:
                    pal_ok = False
    rep.check(pal_ok, 'C19.SCREEN-REJECT', '_set_palette', '3*palette_size bytes read, indexed 3k..3k+2 for k < palette_size', f'{SC}:{sp.lineno}')
    # presenting never indexes the palette out of range: every palette subscript is dominated by index < len(palette)
    pr = repo.func(SC, 'InMemoryScreen._present')
    psubs = [n for n in ast.walk(pr) if isinstance(n, ast.Subscript) and isinstance(n.ctx, ast.Load) and norm(n.value) == 'self.palette']
    pi_ok = bool(psubs) and all(GuardFacts(dominating_guards(n)).get(f'{norm(n.slice)} < len(self.palette)') is True for n in psubs)
    rep.check(pi_ok, 'C19.SCREEN-REJECT', '_present:palette-index', 'palette lookups are bounds-tested', f'{SC}:{pr.lineno}')


def _single_def(fn: ast.FunctionDef, name: str) -> Optional[ast.expr]:
    """the value of the only plain assignment to a local name (None: a parameter, a loop target, or assigned more than once)."""
    vals = [n.value for n in walk_no_nested(fn) if isinstance(n, ast.Assign) and len(n.targets) == 1 and isinstance(n.targets[0], ast.Name)
            and n.targets[0].id == name]
    others = [n for n in walk_no_nested(fn) if isinstance(n, ast.Name) and n.id == name and isinstance(n.ctx, ast.Store)]
    return vals[0] if len(vals) == 1 and len(others) == 1 else None


def _is_bpp_mask(e: ast.expr, fn: ast.FunctionDef) -> bool:
    if isinstance(e, ast.Name):
        d = _single_def(fn, e.id)
        return d is not None and _is_bpp_mask(d, fn)
    if isinstance(e, ast.BinOp) and isinstance(e.op, ast.Sub) and isinstance(e.right, ast.Constant) and e.right.value == 1:
        l = e.left
        if isinstance(l, ast.BinOp) and isinstance(l.op, ast.LShift) and isinstance(l.left, ast.Constant) and l.left.value == 1:
            return norm(l.right) == 'self.bpp'
        if isinstance(l, ast.BinOp) and isinstance(l.op, ast.Pow) and isinstance(l.left, ast.Constant) and l.left.value == 2:
            return norm(l.right) == 'self.bpp'
    return False


def _bpp_masked(e: ast.expr, fn: ast.FunctionDef, repo: Repo, depth: int = 0) -> bool:
    """every integer this expression denotes (itself, or each element when it is a list) is < 2**self.bpp by construction."""
    if isinstance(e, ast.Constant):
        return isinstance(e.value, int) and 0 <= e.value < 16
    if isinstance(e, (ast.List, ast.Tuple)):
        return all(_bpp_masked(x, fn, repo, depth) for x in e.elts)
    if isinstance(e, ast.BinOp) and isinstance(e.op, ast.BitAnd):
        return _is_bpp_mask(e.left, fn) or _is_bpp_mask(e.right, fn) or _bpp_masked(e.left, fn, repo, depth) or _bpp_masked(e.right, fn, repo, depth)
    if isinstance(e, ast.BinOp) and isinstance(e.op, ast.Mod):
        r = e.right
        return isinstance(r, ast.BinOp) and isinstance(r.op, ast.LShift) and norm(r) == '1 << self.bpp'
    if isinstance(e, ast.BinOp) and isinstance(e.op, ast.Mult):
        return any(isinstance(x, (ast.List, ast.Tuple)) and _bpp_masked(x, fn, repo, depth) for x in (e.left, e.right))
    if isinstance(e, (ast.ListComp, ast.GeneratorExp)):
        return _bpp_masked(e.elt, fn, repo, depth)
    if isinstance(e, ast.IfExp):
        return _bpp_masked(e.body, fn, repo, depth) and _bpp_masked(e.orelse, fn, repo, depth)
    if isinstance(e, ast.Subscript) and isinstance(e.ctx, ast.Load):
        return _bpp_masked(e.value, fn, repo, depth)
    if isinstance(e, ast.Name):
        d = _single_def(fn, e.id)
        return d is not None and _bpp_masked(d, fn, repo, depth)
    if isinstance(e, ast.Call) and dotted(e.func) in ('list', 'tuple') and len(e.args) == 1:
        return _bpp_masked(e.args[0], fn, repo, depth)
    if isinstance(e, ast.Call) and (dotted(e.func) or '').startswith('self.') and depth < 3:
        try:
            callee = repo.func(SC, 'InMemoryScreen.' + dotted(e.func)[5:])
        except (KeyError, AnalysisError):
            return False
        rets = [r.value for r in walk_no_nested(callee) if isinstance(r, ast.Return)]
        return bool(rets) and all(r is not None and _bpp_masked(r, callee, repo, depth + 1) for r in rets)
    return False


def rule_pixel_mask(rep: Report, repo: Repo) -> None:
    rep.rule('C19.PIXEL-MASK', 'every value the screen device stores into its pixel buffer (whole-buffer assignment or element store; any '
             'other mutation is refused) is a palette index of bpp bits by construction: a small constant fill, or an expression masked with '
             '(1 << self.bpp) - 1 - followed through single-assignment locals, comprehensions, element loads and the returns of private '
             'methods. All three update commands therefore present the same pixels for the same program memory', 4)
    cls = repo.cls(SC, 'InMemoryScreen')
    n = 0
    for m in cls.body:
        if not isinstance(m, ast.FunctionDef):
            continue
        for node in walk_no_nested(m):
            if isinstance(node, ast.Call) and isinstance(node.func, ast.Attribute) and norm(node.func.value) == 'self.pixel_indices' \
                    and node.func.attr in ('append', 'extend', 'insert', '__setitem__'):
                rep.check(False, 'C19.PIXEL-MASK', f'{m.name}:{node.func.attr}', 'the pixel buffer is mutated through a method call the rule cannot follow',
                          f'{SC}:{node.lineno}')
            if not isinstance(node, (ast.Assign, ast.AugAssign, ast.AnnAssign)):
                continue
            tgts = node.targets if isinstance(node, ast.Assign) else [node.target]
            for t in tgts:
                whole = norm(t) == 'self.pixel_indices'
                elem = isinstance(t, ast.Subscript) and norm(t.value) == 'self.pixel_indices'
                if not (whole or elem) or node.value is None:
                    continue
                n += 1
                okv = not isinstance(node, ast.AugAssign) and _bpp_masked(node.value, m, repo)
                if whole and isinstance(node.value, ast.List) and not node.value.elts:
                    okv = True
                rep.check(okv, 'C19.PIXEL-MASK', f'{m.name}:{"buffer" if whole else "element"}', f'{norm(node)[:120]}: ' + ('masked to bpp bits' if okv else
                          'the stored value is not masked with (1 << self.bpp) - 1 on this path'), f'{SC}:{node.lineno}',
                          expected='value & ((1 << self.bpp) - 1), a constant fill, or a private helper returning such values')
    if n == 0:
        raise AnalysisError('C19.PIXEL-MASK: no store into InMemoryScreen.pixel_indices found')


def rule_dbit(rep: Report, repo: Repo) -> None:
    rep.rule('C19.DBIT', 'the data-bit offset #w and the jump-word address (+1 word) agree between the device adapter, the debugger and '
             'the standard library (dbit = w + #w)', 3)
    # the device side, read off the fully substituted read accessor: word (addr >> (#w - 1)) + 1, data bits from offset #w
    rd = repo.func(DM, 'DeviceMemory.read_data_byte')
    r1 = [b for b in device_accessor_formulas(repo)[0] if b.startswith('return')]
    rep.check(r1 == ['return self.read_word((op_bit_address >> self.memory_width.bit_length() - 1) + 1) >> self.memory_width.bit_length() & 255'],
              'C19.DBIT', 'device', f'{r1}', f'{DM}:{rd.lineno}', expected='jump word = (bit address >> log2 w) + 1; data bits at offset #w = w.bit_length()')
    src = repo.src(RUNLIB)
    m = re.search(r'^\s*dbit\s*=\s*(.+?)\s*(?://.*)?$', src, re.M)
    rep.check(bool(m) and m.group(1).replace(' ', '') in ('w+#w', '#w+w'), 'C19.DBIT', 'runlib.fj', m.group(0).strip() if m else 'dbit definition missing',
              RUNLIB, expected='dbit = w + #w')
    from ..pyfacts import resolve_names as _rn
    cv = repo.func('flipjump/interpreter/debugging/breakpoints.py', 'calculate_variable_value')
    # a named shift amount reads as #w
    shifts = [x for x in ast.walk(cv) if isinstance(x, ast.BinOp) and isinstance(x.op, ast.RShift)
              and norm(_rn(cv, x.right, allow_calls=True, keep=('w',))) == 'w.bit_length()']
    starts = [x for x in ast.walk(cv) if isinstance(x, ast.BinOp) and isinstance(x.op, ast.Add) and {norm(x.left), norm(x.right)} == {'first_address', 'w'}]
    rep.check(bool(shifts) and bool(starts), 'C19.DBIT', 'debugger', 'jump word (+w bits), data bits at #w',
              f'flipjump/interpreter/debugging/breakpoints.py:{cv.lineno}')


def rule_screen_init(rep: Report, repo: Repo) -> None:
    rep.rule('C19.SCREEN-INIT', 'what a device accepts at its edges, folded on the boundary values: packed data bytes are served for every '
             'supported width of at least 16 bits and refused below; init_screen refuses exactly a zero width or a zero height and a bpp '
             'other than 4 / 8, sizes the pixel buffer to width * height and the palette to palette_size; the "not initialised" test is '
             'true exactly while a dimension is still 0; a fresh device starts uninitialised with an empty bit / command assembler', 5)
    from ..pyfacts import eval_int_expr, raise_guards, AnalysisError as _AE
    # packed-byte capability
    from ..excflow import refusal_tests
    rq = repo.func(DM, 'DeviceMemory._require_byte_capable_width')
    gs = [(e_, r_, None) for r_, e_ in refusal_tests(rq)]
    bad = []
    if len(gs) != 1:
        bad.append(f'{len(gs)} raising guards')
    else:
        for wv in (8, 15, 16, 17, 32, 64):
            try:
                got = bool(_truth(gs[0][0], {'self.memory_width': wv}))
            except _AE as ex:
                bad.append(str(ex))
                break
            if got != (wv < 16):
                bad.append(f'w={wv}: refused={got}')
    rep.check(not bad, 'C19.SCREEN-INIT', 'packed-bytes:width', bad[0] if bad else 'refused iff w < 16 (a byte at bits #w..#w+7 of the jump word needs w >= 16)',
              f'{DM}:{rq.lineno} DeviceMemory._require_byte_capable_width')
    ini = repo.func(SC, 'InMemoryScreen._init_screen')
    gi = [e_ for r_, e_ in refusal_tests(ini)]
    bad = []
    if not gi:
        bad.append('no refusal found')
    for bpp in (0, 1, 2, 3, 4, 5, 7, 8, 9, 16):
        for wd in (0, 1, 7):
            for ht in (0, 1, 5):
                env = {'bpp': bpp, 'width': wd, 'height': ht, 'palette_size': 3}
                try:
                    got = any(_truth(t, env) for t in gi)
                except _AE as ex:
                    bad.append(str(ex))
                    break
                if got != (bpp not in (4, 8) or wd == 0 or ht == 0):
                    bad.append(f'{env}: refused={got}')
    rep.check(not bad, 'C19.SCREEN-INIT', 'init_screen:refusals', bad[0] if bad else 'zero dimension / bpp outside {4, 8} refused, everything else accepted (90 cases)',
              f'{SC}:{ini.lineno} InMemoryScreen._init_screen')
    sizes = {}
    for st in ini.body:
        if isinstance(st, ast.Assign) and len(st.targets) == 1 and norm(st.targets[0]) in ('self.pixel_indices', 'self.palette') \
                and isinstance(st.value, ast.BinOp) and isinstance(st.value.op, ast.Mult):
            lst, cnt = (st.value.left, st.value.right) if isinstance(st.value.left, ast.List) else (st.value.right, st.value.left)
            if isinstance(lst, ast.List) and len(lst.elts) == 1:
                try:
                    cnt = _rn(ini, cnt, keep=('width', 'height', 'palette_size'))            # a named pixel count reads as the product
                    sizes[norm(st.targets[0])] = [eval_int_expr(cnt, {'width': 7, 'height': 5, 'palette_size': 11, 'self.width': 7, 'self.height': 5, 'self.palette_size': 11})]
                except _AE:
                    sizes[norm(st.targets[0])] = ['?']
    rep.check(sizes == {'self.pixel_indices': [35], 'self.palette': [11]}, 'C19.SCREEN-INIT', 'init_screen:buffer-sizes', str(sizes),
              f'{SC}:{ini.lineno} InMemoryScreen._init_screen', expected='width * height pixels, palette_size colours')
    # the pixel buffer is a python list of width * height entries (8 bytes each): the largest size the command layout can spell
    # (16-bit dimensions: 65535 x 65535 = 4.3e9 entries, ~34 GB) has to be refused with a device error, not attempted
    big_refused = False
    for t in gi:
        try:
            big_refused = big_refused or bool(_truth(t, {'bpp': 8, 'width': 65535, 'height': 65535, 'palette_size': 256}))
        except _AE:
            pass
    rep.check(big_refused, 'C19.SCREEN-INIT', 'init_screen:largest size', 'refused with a device error' if big_refused else
              'a well-formed init_screen of 65535 x 65535 passes every refusal: `[0] * (width * height)` is then attempted (MemoryError -> the '
              'generic "Unknown exception" failure of run(), or the process is killed) - neither decoded nor rejected with a device error',
              f'{SC}:{ini.lineno} InMemoryScreen._init_screen', expected='a refusal that bounds width * height')
    rq2 = repo.func(SC, 'InMemoryScreen._require_initialized_screen')
    g2 = [(e_, r_, None) for r_, e_ in refusal_tests(rq2)]
    bad = []
    if len(g2) != 1:
        bad.append(f'{len(g2)} guards')
    else:
        for a in (0, 3):
            for b in (0, 2):
                try:
                    got = bool(_truth(g2[0][0], {'self.width': a, 'self.height': b}))
                except _AE as ex:
                    bad.append(str(ex))
                    break
                if got != (a == 0 or b == 0):
                    bad.append(f'width={a} height={b}: refused={got}')
    rep.check(not bad, 'C19.SCREEN-INIT', 'require-initialised', bad[0] if bad else 'refused iff a dimension is 0', f'{SC}:{rq2.lineno}')
    # ... and a fresh device IS uninitialised: both dimensions start at 0, the bit assembler at (0, 0) with an empty command buffer
    ctor = repo.func(SC, 'InMemoryScreen.__init__')
    init_vals = {norm(st.targets[0] if isinstance(st, ast.Assign) else st.target): norm(st.value) for st in ctor.body
                 if isinstance(st, (ast.Assign, ast.AnnAssign)) and st.value is not None}
    want_init = {'self.width': '0', 'self.height': '0', 'self._current_byte': '0', 'self._bits_count': '0', 'self._command_buffer': '[]', 'self.frame_count': '0'}
    got_init = {k: init_vals.get(k) for k in want_init}
    rep.check(got_init == want_init, 'C19.SCREEN-INIT', 'fresh device', str({k: v for k, v in got_init.items() if want_init[k] != v}) or 'uninitialised and empty',
              f'{SC}:{ctor.lineno} InMemoryScreen.__init__', expected=str(want_init))


def _truth(e: ast.expr, env: Dict[str, int]) -> bool:
    """fold a test that may use `x in (a, b)` / `x not in (a, b)` besides the integer operators"""
    from ..pyfacts import eval_int_expr
    if isinstance(e, ast.Compare) and len(e.ops) == 1 and isinstance(e.ops[0], (ast.In, ast.NotIn)) and isinstance(e.comparators[0], (ast.Tuple, ast.List, ast.Set)):
        v = eval_int_expr(e.left, env)
        inside = v in [eval_int_expr(x, env) for x in e.comparators[0].elts]
        return inside if isinstance(e.ops[0], ast.In) else not inside
    if isinstance(e, ast.BoolOp):
        vals = [_truth(v, env) for v in e.values]
        return all(vals) if isinstance(e.op, ast.And) else any(vals)
    if isinstance(e, ast.UnaryOp) and isinstance(e.op, ast.Not):
        return not _truth(e.operand, env)
    return bool(eval_int_expr(e, env))


def check(rep: Report, repo: Optional[Repo] = None) -> None:
    repo = repo or Repo()
    cu = CUnit(repo)
    rep.units = dict(files=[DM, SC, RUN, RUNLIB, cu.rel])
    rule_adapters(rep, repo)
    rule_attach(rep, repo)
    from .c07 import rule_route
    rule_route(rep, cu)
    rule_screen_tables(rep, repo)
    rule_screen_reject(rep, repo)
    rule_pixel_mask(rep, repo)
    rule_dbit(rep, repo)
    rule_screen_init(rep, repo)
    rep.not_decided.append('equality of the presented frames across engines for all programs (value-level)')


MANIFEST = dict(
    technique='boundary-exact device refusals and buffer sizes; adapter/route sibling agreement; documentation-vs-length-vs-decoder table agreement; guard-before-index; value-flow of pixel stores (bpp mask)',
    level_text='Every store into the screen pixel buffer is masked to bpp bits (followed through locals, comprehensions, private helpers). Static, structural: the two memory adapters mask and default identically, every engine attaches its adapter before its '
               'loop, the native get/set API routes by the same predicate as the run loop (C07.ROUTE), the screen command layouts '
               'parsed from the documentation equal the length table and the decoder\'s field tiling, all rejections are device errors '
               'placed before the index expressions, and the data-bit offset agrees across device, debugger and stl.',
    level_note='Trusted: CPython ast, clang front end; the screen layout is read from the ScreenIO docstring on every run.',
    design_ref='DESIGN.md section 4 C19',
)
